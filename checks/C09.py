"""C09 Birth-death skyline density agrees across epochs and with the constant model.

(1) JSON plumbing: BDSKModel / BirthDeathModel are built from JSON with a distinct
    symbolic parameter behind every documented key; the symbols reaching each
    attribute are read off the expression DAG and the call is executed.
(2) One epoch: the REAL PiecewiseConstantBirthDeath.log_prob (and BirthDeath.log_prob)
    is executed on symbolic lambda, mu, psi, rho, r, origin and node heights and
    compared with an independently written Stadler-2010 constant-rate
    birth-death-sampling density (validated on the BEAST2 literals of test_bdsky.py
    in plain floats first).  Path regions (tips at time 0 or not, rho = 0 or not,
    searchsorted cells) are enumerated with a coverage certificate.
(3) Refinement: two epochs with identical rates and no sampling at the (symbolic) new
    boundary against the same one-epoch oracle.

The identity mixes exp(c1 t), sqrt and rational functions.  It is decided by a chain
of small solver lemmas (see `LemmaChain`): arguments of exp / sqrt / log applications
of implementation and oracle are paired on the witness, the pairing relation is PROVED
by the solver with the transcendental atoms generalised to fresh variables
(QF_NRA), and the corresponding instance of a law of exp/log (congruence,
exp(-x)exp(x)=1, log(ab)=log a+log b) is then available to the later lemmas.  The
final goal impl == oracle is linear in the log atoms.
"""
from __future__ import annotations

import itertools
import json
import math
import sys
import time
from fractions import Fraction

import torch

import common as cm
from symtorch import SymFloat, SymTensor, cur, new_vars, tracing
from symtorch.axioms import ground_axioms
from symtorch.explore import Explorer, Goal, prove, triage, _to_float
from symtorch.tensor import mkfloat
from vlib.core import main_for, pmap

PID = 'C09'
LOG2 = math.log(2.0)


# ====================================================================== oracle
class _FloatMath:
    exp = staticmethod(math.exp)
    log = staticmethod(math.log)
    sqrt = staticmethod(math.sqrt)


class _SymMath:
    """exp/log/sqrt on SymFloats (uninterpreted DAG nodes)."""

    @staticmethod
    def _u(name, x):
        d = cur().dag
        return mkfloat(d.uf(name, SymFloat._id(x)))

    def exp(self, x):
        return self._u('exp', x)

    def log(self, x):
        return self._u('log', x)

    def sqrt(self, x):
        return self._u('sqrt', x)


def stadler_oracle(lam, mu, psi, rho, x0, xs, tips, survival=False, r=None, M=_FloatMath):
    """Stadler (2010, JTB 267) Thm 3.5 / Cor 3.7, constant rates: log density of a sampled tree with
    origin x0, branching times xs, tip heights `tips` (time before the present).  Tips at height 0 are
    rho-sampled when rho > 0, every other tip is a psi-sample.  survival: condition on at least one sample
    (divide by 1 - p0(x0)).  r: removal probability (Gavryushkina et al. 2014, no sampled ancestors in the
    tree): every psi-sample contributes psi (r + (1 - r) p0(y)); BEAST2's bdsky then reports the density of
    the labelled tree, i.e. adds (n_tips - 1) log 2 (its reference values in test_bdsky.py include it).
    Works on floats and on SymFloats (M supplies exp/log/sqrt)."""
    c1 = M.sqrt((lam - mu - psi) ** 2 + 4.0 * lam * psi)
    c2 = -(lam - mu - 2.0 * lam * rho - psi) / c1

    def q(t):
        return 2.0 * (1.0 - c2 ** 2) + M.exp(-(c1 * t)) * (1.0 - c2) ** 2 + M.exp(c1 * t) * (1.0 + c2) ** 2

    def p0(t):
        em = M.exp(-(c1 * t))
        return (lam + mu + psi + c1 * (em * (1.0 - c2) - (1.0 + c2)) / (em * (1.0 - c2) + (1.0 + c2))) / (2.0 * lam)

    n_rho = 0
    serial = []
    for y in tips:
        if y == 0 and rho > 0:
            n_rho += 1
        else:
            serial.append(y)
    lf = (len(tips) - 1) * M.log(lam) - M.log(q(x0))
    if n_rho:
        lf = lf + n_rho * M.log(4.0 * rho)
    for x in xs:
        lf = lf - M.log(q(x))
    for y in serial:
        if r is None:
            lf = lf + M.log(psi) + M.log(q(y))
        else:
            lf = lf + M.log(psi * (r + (1.0 - r) * p0(y))) + M.log(q(y))
    if survival:
        lf = lf - M.log(1.0 - p0(x0))
    if r is not None:
        lf = lf + (len(tips) - 1) * LOG2
    return lf


def skyline2_oracle(recent, old, rho, rho1, hb, x0, xs, tips, survival=False, M=_FloatMath):
    """Two epochs, composed from the constant-rate solution of Stadler (2010) instead of the skyline recursion:
    recent epoch [0, hb) with rates `recent` = (lambda, mu, psi) and rho-sampling probability rho at height 0; at height
    hb every lineage alive is sampled with probability rho1 (no tip of the tree is sampled there); older epoch [hb, x0]
    with rates `old`.  The extinction probability solves the same Riccati equation in both epochs, so in the older epoch
    it is the constant-rate p0 restarted at hb with 1 - rho_eff = (1 - rho1) p_recent(hb); a branch from height a to b
    inside one epoch contributes q(a)/q(b); a lineage alive at hb contributes (1 - rho1)."""

    def blocks(lam, mu, psi, rho_):
        c1 = M.sqrt((lam - mu - psi) ** 2 + 4.0 * lam * psi)
        c2 = -(lam - mu - 2.0 * lam * rho_ - psi) / c1

        def q(t):
            return 2.0 * (1.0 - c2 ** 2) + M.exp(-(c1 * t)) * (1.0 - c2) ** 2 + M.exp(c1 * t) * (1.0 + c2) ** 2

        def p0(t):
            em = M.exp(-(c1 * t))
            return (lam + mu + psi + c1 * (em * (1.0 - c2) - (1.0 + c2)) / (em * (1.0 - c2) + (1.0 + c2))) / (2.0 * lam)

        return q, p0

    q_r, p_r = blocks(recent[0], recent[1], recent[2], rho)
    rho_eff = 1.0 - (1.0 - rho1) * p_r(hb)
    q_o, p_o = blocks(old[0], old[1], old[2], rho_eff)
    n_cross = 1  # the lineage that starts at the origin
    lf = -M.log(q_o(x0 - hb))
    for x in xs:
        if x > hb:
            lf = lf + M.log(old[0]) - M.log(q_o(x - hb))
            n_cross += 1
        else:
            lf = lf + M.log(recent[0]) - M.log(q_r(x))
    for y in tips:
        if y == 0 and rho > 0:
            lf = lf + M.log(4.0 * rho)
        elif y >= hb:
            lf = lf + M.log(old[2]) + M.log(q_o(y - hb))
            n_cross -= 1
        else:
            lf = lf + M.log(recent[2]) + M.log(q_r(y))
    if n_cross:  # leaves the older epoch (q_o(0) = 4), is not sampled at hb, enters the recent epoch
        lf = lf + n_cross * (M.log(4.0) - M.log(q_r(hb)))
        if not (isinstance(rho1, (int, float)) and rho1 == 0):
            lf = lf + n_cross * M.log(1.0 - rho1)
    if survival:
        lf = lf - M.log(1.0 - p_o(x0 - hb))
    return lf


# BEAST2 reference values copied from /repo/test/test_bdsky.py (single-epoch cases):
# (lambda, mu, psi, rho, origin, branching times, tip heights, survival, r, literal)
def _epi(R, delta, s, r=None):
    if r is None:
        return R * delta, delta - s * delta, s * delta
    psi = s * delta / (1.0 + (r - 1.0) * s)
    return R * delta, delta - psi * r, psi


BEAST_LITERALS = [
    ('test_single_rho', _epi(1.5, 1.5, 0.0), 0.01, 10.0, [4.5, 5.5], [0, 0, 0], False, None, -8.520565),
    ('test_single_rho root edge', _epi(1.5, 1.5, 0.0), 0.01, 5.5 + 1e-100, [4.5, 5.5], [0, 0, 0], False, None, -5.950979),
    ('test_single_rho root edge survival', _epi(1.5, 1.5, 0.0), 0.01, 5.5 + 1e-100, [4.5, 5.5], [0, 0, 0], True, None, -4.431935),
    ('test_single_rho survival', _epi(1.5, 1.5, 0.0), 0.01, 10.0, [4.5, 5.5], [0, 0, 0], True, None, -7.404227),
    ('testLikelihood_calculation_simple', _epi(1.5, 1.5, 0.3), 0.0, 10.0, [2.0, 4.0, 5.0], [0, 1.0, 2.5, 3.5], False, 1.0,
     -26.105360134266082),
    ('test_likelihood_calculation_simple_for_BDMM', _epi(1.5, 1.5, 0.3, 0.9), 0.0, 10.0, [2.0, 4.0, 5.0], [0, 1.0, 2.5, 3.5],
     True, 0.9, -25.991511346557598),
    ('test_likelihood_calculation1', (2.0, 1.0, 0.5), 0.0, 6.0, [2.0, 4.0, 5.0], [0, 1.0, 2.5, 3.5], False, None, -19.0198),
]


# two-epoch literals of test_bdsky.py (distinct rates): (name, recent, old, rho, rho1, hb, x0, xs, tips, literal)
BEAST_LITERALS_2 = [
    ('test_1rho2times', _epi(4.0, 2.0, 0.0), _epi(1.5, 1.5, 0.0), 0.01, 0.0, 5.0, 10.0, [4.5, 5.5], [0, 0, 0], -78.4006528776),
    ('test_likelihood_calculation4', (2.0, 1.0, 0.5), (3.0, 2.5, 2.0), 0.0, 0.0, 3.0, 6.0, [2.0, 4.0, 5.0], [0, 1.0, 2.5, 3.5], -33.7573),
]


def oracle_reproduces_beast():
    bad = []
    for name, rec, old, rho, rho1, hb, x0, xs, tips, lit in BEAST_LITERALS_2:
        v = skyline2_oracle(rec, old, rho, rho1, hb, x0, xs, tips)
        if not abs(v - lit) <= 1e-4 * abs(lit):
            bad.append(f'{name}: two-epoch oracle {v!r} vs BEAST2 literal {lit!r}')
    for name, (lam, mu, psi), rho, x0, xs, tips, surv, r, lit in BEAST_LITERALS:
        v = stadler_oracle(lam, mu, psi, rho, x0, xs, tips, surv, r)
        if not abs(v - lit) <= 1e-4 * abs(lit):
            bad.append(f'{name}: oracle {v!r} vs BEAST2 literal {lit!r}')
    return bad


# ================================================================ lemma chain
class LemmaChain:
    """Proves impl == oracle through small solver lemmas (see module docstring).

    Every `prove` is one solver query `base ∧ selected facts ⊢ statement` in which all exp/log/sqrt
    applications are generalised to fresh real variables (a proof of the generalisation is a proof of the
    instance).  A fact enters `self.facts` only (a) after the solver proved it, or (b) as the conclusion of a
    law of exp/log/sqrt whose premises the solver proved.  Nothing else is assumed."""

    def __init__(self, t, base, tr, label, timeout=20.0, verbose=False):
        self.t = t
        self.d = t.dag
        self.base = [b for b in base if b != self.d.TRUE]
        self.tr = tr
        self.label = label
        self.timeout = timeout
        self.facts = []
        self.amap = {}
        self.verbose = verbose
        self.failed = []
        self.nproved = 0

    # -- helpers
    def uf_nodes(self, roots, name=None):
        d = self.d
        return [n for n in d.topo(list(roots)) if d.ops[n] == 'uf' and (name is None or d.args[n][0] == name)]

    def atoms(self, roots):
        d = self.d
        out = set()
        # stop at uf nodes: a generalised uf node hides its argument
        seen = set()
        stack = list(roots)
        while stack:
            n = stack.pop()
            if n in seen:
                continue
            seen.add(n)
            op = d.ops[n]
            if op == 'uf':
                out.add(n)
                continue
            if op == 'var':
                out.add(n)
                continue
            stack.extend(d.children(n))
        return out

    def generalise(self, formulas):
        d = self.d
        ufs = set()
        for f in formulas:
            ufs |= {n for n in self.atoms([f]) if d.ops[n] == 'uf'}
        for n in sorted(ufs):
            if n not in self.amap:
                self.amap[n] = self.t.fresh('g_' + d.args[n][0], d.vals[n])
        return d.substitute(list(formulas), {n: self.amap[n] for n in ufs})

    def select(self, node, closed=False, rounds=2):
        """lemma selection.  closed: facts that only mention transcendental atoms of the statement;
        otherwise facts sharing a transcendental atom with it, transitively (two rounds)."""
        d = self.d
        want = {a for a in self.atoms([node]) if d.ops[a] == 'uf'}
        sel = []
        if closed:
            for f in self.facts:
                fa = {a for a in self.atoms([f]) if d.ops[a] == 'uf'}
                if fa <= want:
                    sel.append(f)
            return sel
        for _ in range(rounds):
            new = set()
            for f in self.facts:
                if f in sel:
                    continue
                fa = {a for a in self.atoms([f]) if d.ops[a] == 'uf'}
                if fa & want or not fa:
                    sel.append(f)
                    new |= fa
            want |= new
        return sel

    def prove(self, what, node, hyps=None, timeout=None):
        d = self.d
        if node == d.TRUE:
            return True
        if node == d.FALSE:
            self.failed.append((what, 'constant false'))
            return False
        timeout = timeout or self.timeout
        if hyps is None:
            wide = self.select(node)
            closed = self.select(node, closed=True)
            if len(wide) <= 40 or set(wide) == set(closed):
                attempts = [(wide, timeout)]
            else:
                attempts = [(closed, min(timeout, 10.0))]
                one = self.select(node, rounds=1)
                if set(one) not in (set(closed), set(wide)):
                    attempts.append((one, timeout))
                attempts.append((wide, timeout))
        else:
            attempts = [(list(hyps), timeout)]
        st = 'unknown'
        for k, (hs, to) in enumerate(attempts):
            forms = self.generalise([node] + self.base + hs)
            st, r, text = prove(d, forms[1:], forms[0], timeout=to, tr=self.tr, label=what, parallel=True)
            if self.verbose:
                print(f'   [{st:8s} {r.secs if r else 0:6.2f}s {r.solver if r else "":5s} {len(hs):3d} facts] {what}', flush=True)
            if st == 'proved':
                self.nproved += 1
                return True
        self.failed.append((what, st))
        return False

    def fact(self, node):
        if node != self.d.TRUE and node not in self.facts:
            self.facts.append(node)

    def lemma(self, what, node, hyps=None, timeout=None):
        ok = self.prove(what, node, hyps, timeout)
        if ok:
            self.fact(node)
        return ok

    # -- phases
    @staticmethod
    def close(a, b, tol=1e-9):
        return abs(a - b) <= tol * max(1.0, abs(a), abs(b))

    def sqrt_phase(self, roots):
        d = self.d
        reps = []
        for s in self.uf_nodes(roots, 'sqrt'):
            R = d.args[s][1]
            done = False
            for s0 in reps:
                R0 = d.args[s0][1]
                if self.close(d.vals[R], d.vals[R0]) and self.prove(f'sqrt arguments agree #{s}~#{s0}', d.eq(R, R0)):
                    self.fact(d.eq(s, s0))  # congruence
                    done = True
                    break
            if done:
                continue
            reps.append(s)
            if self.lemma(f'sqrt argument positive #{s}', d.lt(0, R)):
                self.fact(d.le(0, s))  # sqrt(x) >= 0
                self.fact(d.eq(d.mul(s, s), R))  # sqrt(x)^2 = x for x >= 0
                self.lemma(f'sqrt positive #{s}', d.lt(0, s))

    def exp_phase(self, roots):
        d = self.d
        reps = []
        seen = []
        nodes = self.uf_nodes(roots, 'exp')
        # canonical representatives: positive witness argument first, small DAG first
        nodes.sort(key=lambda n: (d.vals[d.args[n][1]] < 0, n))
        for e in nodes:
            a = d.args[e][1]
            done = False
            if abs(d.vals[a]) < 1e-12 and self.prove(f'exp argument zero #{e}', d.eq(a, 0)):
                self.fact(d.eq(e, 1))  # exp 0 = 1
                continue
            for e0 in reps:
                a0 = d.args[e0][1]
                if self.close(d.vals[a], d.vals[a0]) and self.prove(f'exp arguments agree #{e}~#{e0}', d.eq(a, a0)):
                    self.fact(d.eq(e, e0))  # congruence
                    done = True
                    break
                if self.close(d.vals[a], -d.vals[a0]) and self.prove(f'exp arguments opposite #{e}~#{e0}',
                                                                      d.eq(a, d.neg(a0))):
                    self.fact(d.eq(d.mul(e, e0), 1))  # exp(-x) exp(x) = 1
                    done = True
                    break
            if not done:
                # additive relations with two representatives: exp(x + y) = exp(x) exp(y)
                for i1, e1 in enumerate(seen):
                    for e2 in seen[i1 + 1:]:
                        a1, a2 = d.args[e1][1], d.args[e2][1]
                        va, v1, v2 = d.vals[a], d.vals[a1], d.vals[a2]
                        if self.close(va, v1 + v2) and self.prove(f'exp arguments add #{e}=#{e1}+#{e2}', d.eq(a, d.add(a1, a2))):
                            self.fact(d.eq(e, d.mul(e1, e2)))
                            done = True
                        elif self.close(va, -(v1 + v2)) and self.prove(f'exp arguments add #{e}=-#{e1}-#{e2}', d.eq(d.neg(a), d.add(a1, a2))):
                            self.fact(d.eq(d.mul(e, d.mul(e1, e2)), 1))
                            done = True
                        elif self.close(va, v1 - v2) and self.prove(f'exp arguments add #{e}=#{e1}-#{e2}', d.eq(a, d.sub(a1, a2))):
                            self.fact(d.eq(d.mul(e, e2), e1))
                            done = True
                        elif self.close(va, v2 - v1) and self.prove(f'exp arguments add #{e}=#{e2}-#{e1}', d.eq(a, d.sub(a2, a1))):
                            self.fact(d.eq(d.mul(e, e1), e2))
                            done = True
                        if done:
                            break
                    if done:
                        break
            if not done:
                reps.append(e)
            seen.append(e)
            self.fact(d.lt(0, e))  # exp > 0
            if d.vals[a] > 0 and self.prove(f'exp argument positive #{e}', d.lt(0, a)):
                self.fact(d.lt(1, e))  # x > 0 => exp x > 1
            elif d.vals[a] >= 0 and self.prove(f'exp argument non-negative #{e}', d.le(0, a)):
                self.fact(d.le(1, e))  # x >= 0 => exp x >= 1
            elif d.vals[a] < 0 and self.prove(f'exp argument negative #{e}', d.lt(a, 0)):
                self.fact(d.lt(e, 1))

    def sign(self, b, what, depth=2):
        """sign of node b as on the witness; on failure the signs of its operands are established first"""
        d = self.d
        if d.ops[b] == 'const':
            return True
        v = d.vals[b]
        if v != v:
            return False
        stmt = d.lt(0, b) if v > 0 else (d.lt(b, 0) if v < 0 else d.eq(b, 0))
        if stmt in self.facts or stmt == d.TRUE:
            return True
        sfx = '> 0' if v > 0 else ('< 0' if v < 0 else '= 0')
        for f in self.facts:  # equal to something whose sign is known
            if d.ops[f] == 'eq' and b in d.args[f]:
                other = d.args[f][0] if d.args[f][1] == b else d.args[f][1]
                known = d.lt(0, other) if v > 0 else d.lt(other, 0)
                if known in self.facts and self.lemma(f'{what} #{b} {sfx} (equals #{other})', stmt, hyps=[f, known]):
                    return True
        if self.lemma(f'{what} #{b} {sfx}', stmt):
            return True
        if depth <= 0 or d.ops[b] not in ('add', 'mul', 'div', 'ipow') or self.failed[-1][1] != 'refuted':
            return False
        for ch in d.children(b):
            if d.ops[ch] in ('add', 'mul', 'div', 'ipow'):
                self.sign(ch, 'operand', depth - 1)
        return self.lemma(f'{what} #{b} {sfx} (operand signs known)', stmt)

    def sign_phase(self, nodes, what='denominator'):
        """sign (as on the witness) of each node, children first."""
        ok = True
        for b in sorted(set(nodes)):
            if not self.sign(b, what):
                ok = False
        return ok

    def positive(self, g):
        return self.d.vals[g] > 0 and self.sign(g, 'log argument')

    def log_phase(self, I, O):
        """pair log applications of implementation and oracle on the witness; prove the pairing relation"""
        d = self.d
        li = self.uf_nodes([I], 'log')
        lo = self.uf_nodes([O], 'log')
        only_i = [n for n in li if n not in lo]
        only_o = [n for n in lo if n not in li]
        consts = [Fraction(1), Fraction(4), Fraction(2), Fraction(1, 4), Fraction(1, 2)]
        log4 = d.log(d.const(4))
        unpaired = []
        for L in only_i + only_o:
            g = d.args[L][1]
            if self.close(d.vals[g], 1.0) and self.prove(f'log argument #{g} is one', d.eq(g, 1)):
                self.fact(d.eq(L, 0))  # log 1 = 0
        for L1 in only_i:
            g1 = d.args[L1][1]
            v1 = d.vals[g1]
            found = False
            for L2 in only_o:
                g2 = d.args[L2][1]
                v2 = d.vals[g2]
                for c in consts:
                    cn = d.const(c)
                    if self.close(v1, float(c) * v2):  # g1 = c g2
                        if c == 1:
                            if self.prove(f'log arguments agree #{L1}~#{L2}', d.eq(g1, g2)):
                                self.fact(d.eq(L1, L2))  # congruence
                                found = True
                        elif c > 1:
                            if self.prove(f'log arguments: #{L1} = {c} * #{L2}', d.eq(g1, d.mul(cn, g2))) and self.positive(g2):
                                self.fact(d.eq(L1, d.add(d.log(cn), L2)))  # log(c x) = log c + log x, x > 0
                                found = True
                        else:
                            ci = d.const(1 / c)
                            if self.prove(f'log arguments: #{L2} = {1 / c} * #{L1}', d.eq(g2, d.mul(ci, g1))) and self.positive(g1):
                                self.fact(d.eq(L2, d.add(d.log(ci), L1)))
                                found = True
                    if self.close(v1 * v2, float(c)) and c >= 1:  # g1 g2 = c
                        if self.prove(f'log arguments: #{L1} * #{L2} = {c}', d.eq(d.mul(g1, g2), cn)) \
                                and self.positive(g1) and self.positive(g2):
                            self.fact(d.eq(d.add(L1, L2), d.log(cn) if c != 1 else 0))  # log x + log y = log(xy)
                            found = True
            if not found:
                unpaired.append(L1)
        # three-way relations (an event in an older epoch, the boundary term, the oracle's q): g1 gb g2 = 4
        tried = {}
        for L1 in list(unpaired):
            g1 = d.args[L1][1]
            found = False
            for Lb in only_i + getattr(self, 'aux_logs', []):
                if Lb == L1:
                    continue
                gb = d.args[Lb][1]
                for L2 in only_o:
                    g2 = d.args[L2][1]
                    key = frozenset((L1, Lb, L2))
                    if key in tried:
                        found = found or tried[key]
                        continue
                    if self.close(d.vals[g1] * d.vals[gb] * d.vals[g2], 4.0):
                        tried[key] = False
                        if self.prove(f'log arguments: #{L1} * #{Lb} * #{L2} = 4', d.eq(d.mul(d.mul(g1, gb), g2), d.const(4))) \
                                and self.positive(g1) and self.positive(gb) and self.positive(g2):
                            self.fact(d.eq(d.add(d.add(L1, Lb), L2), log4))  # log x + log y + log z = log(xyz)
                            found = True
                            tried[key] = True
            if found:
                unpaired.remove(L1)
        # four-way relations (two events of an older epoch when no lineage count multiplies the boundary term):
        # g1 o1 = g2 o2  =>  log g1 + log o1 = log g2 + log o2
        for k in range(1, len(unpaired)):
            L1, L2 = unpaired[0], unpaired[k]
            g1, g2 = d.args[L1][1], d.args[L2][1]
            for o1 in only_o:
                for o2 in only_o:
                    if o1 == o2:
                        continue
                    q1, q2 = d.args[o1][1], d.args[o2][1]
                    if self.close(d.vals[g1] * d.vals[q1], d.vals[g2] * d.vals[q2]) and d.vals[g1] > 0 and d.vals[g2] > 0:
                        if self.prove(f'log arguments: #{L1} * #{o1} = #{L2} * #{o2}', d.eq(d.mul(g1, q1), d.mul(g2, q2))) \
                                and self.positive(g1) and self.positive(g2) and self.positive(q1) and self.positive(q2):
                            self.fact(d.eq(d.add(L1, o1), d.add(L2, o2)))
        return unpaired

    def equal(self, I, O, signature, what, impl_end=None):
        """the whole chain; returns a Goal for the Explorer (final linear step).
        impl_end: number of DAG nodes when the implementation had finished (before the oracle ran); log applications
        the implementation built but multiplied by a zero count are still available as auxiliary atoms."""
        d = self.d
        t = self.t
        # selections torch.where(c, a, b) whose condition is decided on the whole region are replaced by the selected
        # branch (the solver proves c or not c under the region's hypotheses); indicator factors ite(c, 1, 0) are kept, so a
        # term multiplied by a zero mask still has to be well defined
        sel = {}
        for n in d.topo([I]):
            if d.ops[n] == 'ite':
                c, a, b = d.args[n]
                if d.ops[a] == 'const' and d.ops[b] == 'const':
                    continue
                c2 = d.substitute([c], sel)[0] if sel else c
                holds = bool(d.vals[c2])
                if self.prove(f'selection #{n} takes the same branch on the whole region', c2 if holds else d.not_(c2), hyps=[]):
                    sel[n] = d.substitute([a if holds else b], sel)[0] if sel else (a if holds else b)
        if sel:
            I = d.substitute([I], sel)[0]
        goal = d.eq(I, O)
        cone = set(d.topo([goal]))  # sub-expressions the result actually depends on
        self.aux_logs = []
        if impl_end is not None:
            self.aux_logs = [n for n in range(impl_end) if d.ops[n] == 'uf' and d.args[n][0] == 'log' and n not in cone
                             and d.ops[d.args[n][1]] != 'var' and d.vals[d.args[n][1]] > 0]
        aux_cone = set(d.topo(self.aux_logs))
        self.sqrt_phase([goal] + self.aux_logs)
        self.exp_phase([goal] + self.aux_logs)
        self.sign_phase([b for b in t.denominators if b in aux_cone and b not in cone], 'auxiliary denominator')
        self.defined = self.sign_phase([b for b in t.denominators if b in cone])
        # log arguments that implementation and oracle share (up to a proved equality) first
        oside = set(d.topo([O]))
        for L1 in [n for n in self.uf_nodes([I], 'log') if n not in oside]:
            g1 = d.args[L1][1]
            for L2 in [n for n in self.uf_nodes([O], 'log')]:
                g2 = d.args[L2][1]
                if g1 != g2 and self.close(d.vals[g1], d.vals[g2]) and self.prove(f'log arguments agree #{L1}~#{L2}', d.eq(g1, g2)):
                    self.fact(d.eq(g1, g2))
                    self.fact(d.eq(L1, L2))  # congruence
                    break
        self.undefined = []
        doms = [(kind, x) for kind, x in t.domains if x in cone and d.ops[x] != 'var']
        doms.sort(key=lambda kx: (kx[1] not in oside, kx[1]))  # the oracle's (closed-form) arguments first
        for kind, x in doms:
            if not (d.vals[x] > 0 and self.sign(x, 'log argument' if kind == 'pos' else 'sqrt argument')):
                self.undefined.append(x)
        self.log_phase(I, O)
        hyps = [f for f in self.facts if any(d.ops[a] == 'uf' and d.args[a][0] == 'log' for a in self.atoms([f]))]
        forms = self.generalise([goal] + hyps)
        return Goal(what, forms[0], hyps=forms[1:], signature=signature)


# =============================================================== configurations
SIG_ONE = 'PiecewiseConstantBirthDeath.log_prob:one-epoch-differs-from-constant-rate-oracle'
SIG_REL = 'PiecewiseConstantBirthDeath.log_prob:relative_times:origin-multiplied-by-itself'
SIG_ALL0 = 'PiecewiseConstantBirthDeath.log_prob:all-tips-at-time-0-and-rho-0:psi-sampling-terms-omitted'
SIG_REFINE = 'PiecewiseConstantBirthDeath.log_prob:changes-when-an-epoch-is-split'
SIG_TIE = 'PiecewiseConstantBirthDeath.log_prob:serial-tip-exactly-on-epoch-boundary'
SIG_RM = 'PiecewiseConstantBirthDeath.log_prob:removal_probability-with-several-epochs:raises'
SIG_RHOB = 'PiecewiseConstantBirthDeath.log_prob:rho-sampling-at-an-inner-boundary-differs-from-two-epoch-oracle'
SIG_RHOB_REL = 'PiecewiseConstantBirthDeath.log_prob:rho-sampling-at-an-inner-boundary-with-relative-times-differs-from-two-epoch-oracle'
SIG_DISTINCT = 'PiecewiseConstantBirthDeath.log_prob:two-epochs-with-distinct-rates-differ-from-two-epoch-oracle'
SIG_REL_EDGE = 'PiecewiseConstantBirthDeath.log_prob:relative_times-with-root-edge:boundaries-not-relative-to-the-origin'
SIG_BD0 = 'BirthDeath.log_prob:differs-from-constant-rate-oracle:tips-at-time-0'
SIG_BD = 'BirthDeath.log_prob:differs-from-constant-rate-oracle'
SIG_NAN = 'PiecewiseConstantBirthDeath.log_prob:nan:minus-inf-times-zero-for-a-masked-rho-tip'


def cfg_label(c):
    return (f"{c['cls']} m={c['m']} n={c['n']} survival={c['survival']} removal={c['removal']} origin={c['origin']} "
            f"times={c['times']} rho={c['rho_shape']} split={c.get('split')}" + (f" cell={c['cell']}" if c.get('cell') else '')
            + (' rho-sampling at the inner boundary' if c.get('rhob') else '') + (' distinct rates' if c.get('distinct') else ''))


def var_names(c):
    n = c['n']
    names = ['lam', 'mu', 'psi', 'rho']
    if c['origin'] == 'given':
        names.append('origin')
    elif c['origin'] == 'root_edge':
        names.append('edge')
    if c['removal']:
        names.append('r')
    if c['m'] == 2 and c['times'] in ('abs', 'rel'):
        names.append('tb')
    if c.get('rhob'):
        names.append('rhob')
    if c.get('distinct'):
        names += ['lam0', 'mu0', 'psi0']
    return names + [f's{i}' for i in range(n)] + [f'c{j}' for j in range(n - 1)]


def initial_witness(c):
    n = c['n']
    W = {'lam': 1.7, 'mu': 0.6, 'psi': 0.4, 'rho': 0.3, 'origin': 3.1 + 0.7 * (n - 2), 'edge': 0.9, 'r': 0.45, 'rhob': 0.35,
         'lam0': 1.3, 'mu0': 0.8, 'psi0': 0.5}
    for i in range(n):
        W[f's{i}'] = 0.2 + 0.3 * i
    for j in range(n - 1):
        W[f'c{j}'] = 1.5 + 0.7 * j
    W['tb'] = 0.35 if c['times'] == 'rel' else 1.3
    sp = c.get('split') or {}
    if c.get('cell'):
        W.update(cell_witness(c))
    if sp.get('rho0') is True:
        W['rho'] = 0.0
    if sp.get('tip0') is True:
        W['s0'] = 0.0
    if sp.get('tip0') == 'all':
        for i in range(n):
            W[f's{i}'] = 0.0
    if sp.get('corner'):
        W['rho'], W['r'] = 1.0, 0.0
    return {k: W[k] for k in var_names(c)}


def parse_cell(cell):
    """'0=s0<s1<B<c0' -> (items, relations); B is the height of the epoch boundary."""
    import re

    toks = re.split(r'(<=|<|=)', cell.replace(' ', ''))
    return toks[0::2], toks[1::2]


def cell_witness(c):
    """generic heights realising the cell (distinct unless the cell says '=')"""
    items, rels = parse_cell(c['cell'])
    steps = [0.3125, 0.46875, 0.59375, 0.734375, 0.375, 0.53125, 0.671875, 0.4375]  # dyadic: sums are exact in float64
    vals = {}
    v = 0.0 if items[0] == '0' else 0.234375
    vals[items[0]] = v
    for k, (it, rel) in enumerate(zip(items[1:], rels)):
        if rel != '=':
            v = v + steps[k % len(steps)]
        vals[it] = v
    n = c['n']
    W = {k: x for k, x in vals.items() if k not in ('0', 'B')}
    root = W[f'c{n-2}']
    if c['origin'] == 'given':
        origin = max(vals.values()) + 0.828125
        W['origin'] = origin
    elif c['origin'] == 'root_edge':
        W['edge'] = max(vals.values()) + 0.828125 - root
        origin = root + W['edge']
    else:
        origin = root
    if 'B' in vals:
        W['tb'] = (origin - vals['B']) / origin if c['times'] == 'rel' else origin - vals['B']
    return W


def boundary_height(d, V, c):
    o = origin_node(d, V, c)
    if c['times'] == 'rel':
        return d.sub(o, d.mul(V['tb'], o))
    return d.sub(o, V['tb'])


def cell_constraints(c, d, V):
    items, rels = parse_cell(c['cell'])

    def node(it):
        if it == '0':
            return 0
        if it == 'B':
            return boundary_height(d, V, c)
        return V[it]

    cs = []
    for a, b, rel in zip(items, items[1:], rels):
        na, nb = node(a), node(b)
        cs.append(d.lt(na, nb) if rel == '<' else (d.le(na, nb) if rel == '<=' else d.eq(na, nb)))
    return cs


def origin_node(d, V, c):
    n = c['n']
    if c['origin'] == 'given':
        return V['origin']
    if c['origin'] == 'root_edge':
        return d.add(V['edge'], V[f'c{n-2}'])
    return V[f'c{n-2}']


def domain_for(c):
    n = c['n']

    def domain(d, V):
        lam, mu, psi, rho = V['lam'], V['mu'], V['psi'], V['rho']
        cs = [d.lt(0, lam), d.lt(0, mu), d.le(0, psi), d.le(0, rho), d.le(rho, 1),
              d.or_(d.lt(0, psi), d.not_(d.eq(lam, mu)))]
        if c.get('rhob'):
            cs += [d.lt(0, V['rhob']), d.lt(V['rhob'], 1)]
        if c.get('distinct'):
            cs += [d.lt(0, V['lam0']), d.lt(0, V['mu0']), d.lt(0, V['psi0']), d.lt(0, psi)]
        if c['removal']:
            cs += [d.le(0, V['r']), d.le(V['r'], 1)]
            if (c.get('split') or {}).get('corner'):
                cs += [d.eq(rho, 1), d.eq(V['r'], 0)]  # complete sampling at present, no removal
            else:
                cs.append(d.or_(d.lt(rho, 1), d.lt(0, V['r'])))
        for i in range(n):
            s = V[f's{i}']
            cs.append(d.le(0, s))
            cs.append(d.or_(d.lt(0, psi), d.and_(d.eq(s, 0), d.lt(0, rho))))  # a psi-sampled tip needs psi > 0
        # caterpillar ((0,1),2): every 2/3-taxon tree is one up to relabelling; the density only sees heights
        cs += [d.lt(V['s0'], V['c0']), d.lt(V['s1'], V['c0'])]
        for j in range(1, n - 1):
            cs += [d.le(V[f'c{j-1}'], V[f'c{j}']), d.lt(V[f's{j+1}'], V[f'c{j}'])]
        if c['origin'] == 'given':
            cs.append(d.le(V[f'c{n-2}'], V['origin']))
        elif c['origin'] == 'root_edge':
            cs.append(d.le(0, V['edge']))
        if 'tb' in V:
            if c['times'] == 'rel':
                cs += [d.lt(0, V['tb']), d.lt(V['tb'], 1)]
            else:
                cs += [d.lt(0, V['tb']), d.lt(V['tb'], origin_node(d, V, c))]
        sp = c.get('split') or {}
        if c.get('cell'):
            cs += cell_constraints(c, d, V)
        if sp.get('rho0') is True:
            cs.append(d.eq(rho, 0))
        elif sp.get('rho0') is False:
            cs.append(d.lt(0, rho))
        if sp.get('tip0') is True:
            cs.append(d.eq(V['s0'], 0))
        elif sp.get('tip0') is False:
            cs.append(d.lt(0, V['s0']))
        elif sp.get('tip0') == 'all':
            cs += [d.eq(V[f's{i}'], 0) for i in range(n)]
        return cs

    return domain


def build_dist(c, mk):
    """the distribution under test; mk(list of names / floats) -> 1-d tensor (symbolic or plain)"""
    m = c['m']
    if c['cls'] == 'BD':
        from torchtree.evolution.birth_death import BirthDeath

        return BirthDeath(mk(['lam']), mk(['mu']), mk(['psi']), mk(['rho']), mk(['origin']), survival=c['survival'],
                          validate_args=False)
    from torchtree.evolution.bdsk import PiecewiseConstantBirthDeath

    kw = dict(survival=c['survival'], validate_args=False)
    kw['rho'] = mk(['rho']) if c['rho_shape'] == 'short' else mk((['rhob'] if c.get('rhob') else [0.0] * (m - 1)) + ['rho'])
    if c['origin'] == 'given':
        kw['origin'] = mk(['origin'])
    elif c['origin'] == 'root_edge':
        kw['origin'] = mk(['edge'])
        kw['origin_is_root_edge'] = True
    if c['removal']:
        kw['removal_probability'] = mk(['r'] * m)
    if c['times'] != 'none':
        kw['times'] = mk([0.0] + (['tb'] if m == 2 else []))
        kw['relative_times'] = c['times'] == 'rel'
    if c.get('distinct'):  # epoch 0 is the older one (times run forward from the origin)
        return PiecewiseConstantBirthDeath(mk(['lam0', 'lam']), mk(['mu0', 'mu']), mk(['psi0', 'psi']), **kw)
    return PiecewiseConstantBirthDeath(mk(['lam'] * m), mk(['mu'] * m), mk(['psi'] * m), **kw)


def heights_names(c):
    n = c['n']
    return [f's{i}' for i in range(n)] + [f'c{j}' for j in range(n - 1)]


def oracle_args(c, get):
    """(x0, xs, tips) for the oracle; get(name) -> number"""
    n = c['n']
    ints = [get(f'c{j}') for j in range(n - 1)]
    tips = [get(f's{i}') for i in range(n)]
    if c['origin'] == 'given':
        x0 = get('origin')
    elif c['origin'] == 'root_edge':
        x0 = get('edge') + ints[-1]
    else:
        x0 = ints[-1]  # no origin: the process starts at the root (limit of a zero-length root edge)
    return x0, ints, tips


def two_epoch(c):
    return bool(c.get('rhob') or c.get('distinct'))


def numeric_oracle(c, vals):
    x0, xs, tips = oracle_args(c, lambda k: float(vals[k]))
    if two_epoch(c):
        f = lambda k: float(vals[k])  # noqa: E731
        rec = (f('lam'), f('mu'), f('psi'))
        old = (f('lam0'), f('mu0'), f('psi0')) if c.get('distinct') else rec
        hb = x0 - f('tb') * x0 if c['times'] == 'rel' else x0 - f('tb')
        return skyline2_oracle(rec, old, f('rho'), f('rhob') if c.get('rhob') else 0.0, hb, x0, xs, tips, c['survival'])
    return stadler_oracle(float(vals['lam']), float(vals['mu']), float(vals['psi']), float(vals['rho']), x0, xs, tips,
                          c['survival'], float(vals['r']) if c['removal'] else None)


def real_value(c, vals):
    def mk(items):
        return torch.tensor([float(vals[x]) if isinstance(x, str) else float(x) for x in items], dtype=torch.float64)

    dist = build_dist(c, mk)
    return float(dist.log_prob(mk(heights_names(c))))


def replay(c, vals):
    """plain float64 tensors through the real code against the numeric oracle"""
    vals = {k: float(v) for k, v in vals.items() if k in var_names(c)}
    if set(vals) != set(var_names(c)):
        return False, 'incomplete counterexample'
    try:
        ov = float(numeric_oracle(c, vals))
    except (ValueError, ZeroDivisionError, OverflowError) as e:
        return False, f'oracle undefined at this point ({e})'
    if math.isnan(ov) or math.isinf(ov):
        return False, 'oracle undefined at this point'
    try:
        rv = real_value(c, vals)
    except Exception as e:  # the real code raises on an in-domain input
        return True, f'real code raised {type(e).__name__}: {str(e)[:160]}; oracle={ov!r}'
    if not (abs(rv - ov) <= 1e-6 * max(1.0, abs(ov))):
        return True, f'real={rv!r} oracle={ov!r}'
    return False, f'real={rv!r} oracle={ov!r} agree'


def region_signature(c, W):
    n = c['n']
    tips = [W[f's{i}'] for i in range(n)]
    if c['cls'] == 'BD':
        return SIG_BD0 if any(s == 0 for s in tips) else SIG_BD
    if all(s == 0 for s in tips) and W['rho'] == 0:
        return SIG_ALL0
    if c.get('rhob'):
        return SIG_RHOB_REL if c['times'] == 'rel' else SIG_RHOB
    if c.get('distinct'):
        return SIG_DISTINCT
    if c['times'] == 'rel':
        return SIG_REL_EDGE if c['origin'] == 'root_edge' else SIG_REL
    if c['m'] == 1:
        return SIG_ONE
    if c['removal']:
        return SIG_RM
    if 'tb' in W:
        x0 = W['origin'] if c['origin'] == 'given' else (W['edge'] + W[f'c{n-2}'] if c['origin'] == 'root_edge' else W[f'c{n-2}'])
        if any(x0 - s == W['tb'] for s in tips):
            return SIG_TIE
    return SIG_REFINE


def make_body(c, tr, verbose=False):
    dom = domain_for(c)

    def body(t, V, W):
        d = t.dag

        def mk(items):
            from symtorch import from_ids

            return from_ids(torch.tensor([V[x] if isinstance(x, str) else d.const(float(x)) for x in items], dtype=torch.int64))

        sig = region_signature(c, W)
        what = f'{cfg_label(c)}: log_prob == Stadler constant-rate density'
        if verbose:
            print(f'-- region witness {W} [{time.strftime("%X")}]', flush=True)
        try:
            dist = build_dist(c, mk)
            impl = dist.log_prob(mk(heights_names(c)))
        except Exception as e:
            from symtorch.expr import EngineError

            if isinstance(e, EngineError):
                raise
            return [Goal(f'{what} (the real code raised {type(e).__name__}: {str(e)[:100]})', d.FALSE, signature=sig)]
        impl_end = len(d.ops)
        x0, xs, tips = oracle_args(c, lambda k: mkfloat(V[k]))
        if two_epoch(c):
            f = lambda k: mkfloat(V[k])  # noqa: E731
            rec = (f('lam'), f('mu'), f('psi'))
            older = (f('lam0'), f('mu0'), f('psi0')) if c.get('distinct') else rec
            orc = skyline2_oracle(rec, older, f('rho'), f('rhob') if c.get('rhob') else 0.0, mkfloat(boundary_height(d, V, c)),
                                  x0, xs, tips, c['survival'], M=_SymMath())
        else:
            orc = stadler_oracle(mkfloat(V['lam']), mkfloat(V['mu']), mkfloat(V['psi']), mkfloat(V['rho']), x0, xs, tips,
                                 c['survival'], mkfloat(V['r']) if c['removal'] else None, M=_SymMath())
        if impl._ids.numel() != 1:
            return [Goal(f'{what} (result has shape {tuple(impl.shape)})', d.FALSE, signature=sig)]
        I = int(impl._ids.reshape(-1)[0])
        O = SymFloat._id(orc)
        if math.isnan(d.vals[I]) or math.isinf(d.vals[I]):
            # the real code is not finite at this witness: which log argument vanishes, and does it on the whole region?
            chain = LemmaChain(t, dom(d, V) + list(t.pcs), tr, cfg_label(c), timeout=20.0, verbose=verbose)
            chain.sqrt_phase([I])
            chain.exp_phase([I])
            chain.sign_phase(t.denominators)
            zero = [x for kind, x in t.domains if kind == 'pos' and abs(d.vals[x]) < 1e-12 and chain.prove(f'log argument #{x} is zero', d.eq(x, 0))]
            return [Goal(f'{what}: the real code returns {d.vals[I]} (log arguments proved identically zero on this region: '
                         f'{[d.to_str(x, 3) for x in zero][:2]})', d.FALSE, signature=SIG_NAN)]
        vi, vo = d.vals[I], d.vals[O]
        if not abs(vi - vo) <= 1e-7 * max(1.0, abs(vo)):
            # implementation and oracle already differ at this region's witness: no proof to attempt, the witness
            # (and the solver's own point of the region) go to the replay on the real code
            return [Goal(f'{what} (at the region witness: implementation {vi!r}, oracle {vo!r})', d.FALSE, signature=sig)]
        chain = LemmaChain(t, dom(d, V) + list(t.pcs), tr, cfg_label(c), timeout=c.get('lemma_timeout', 30.0), verbose=verbose)
        g = chain.equal(I, O, sig, what, impl_end)
        open_lemmas = [w for w, st in chain.failed if st == 'unknown']
        if open_lemmas and chain.defined and not chain.undefined:
            # were the open lemmas needed at all?  (the final step is cheap to try)
            st, _, _ = prove(d, dom(d, V) + list(t.pcs) + g.hyps, g.node, timeout=20.0, tr=tr, label=what, parallel=True)
            if st == 'proved':
                open_lemmas = []
        if open_lemmas:  # one retry with a long timeout (machine load)
            chain = LemmaChain(t, dom(d, V) + list(t.pcs), tr, cfg_label(c), timeout=90.0, verbose=verbose)
            g = chain.equal(I, O, sig, what, impl_end)
            open_lemmas = [w for w, st in chain.failed if st == 'unknown']
        if open_lemmas:
            g.label += f' [lemmas the portfolio left open: {open_lemmas[:3]}]'
        goals = [g]
        # well-definedness on the whole region: every denominator non-zero, every log/sqrt argument in its domain
        bad = [f'#{x}' for x in chain.undefined] + ([] if chain.defined else ['a denominator'])
        if bad:
            goals.append(Goal(f'{cfg_label(c)}: well-defined (sign lemma failed for {bad[:3]})',
                              d.and_(*[d.lt(0, x) for x in chain.undefined]) if chain.undefined and chain.defined else d.FALSE,
                              signature=sig + ':well-defined'))
        if verbose:
            print('   lemmas proved', chain.nproved, 'failed', chain.failed, flush=True)
        return goals

    return body


def run_density_task(c, tr, verbose=False):
    from torchtree.evolution.bdsk import PiecewiseConstantBirthDeath as P
    from torchtree.evolution.birth_death import BirthDeath as B

    if c['cls'] == 'BD':
        tr.fn(B.log_prob, B.log_p, B.log_q)
    else:
        tr.fn(P.log_prob, P.log_p, P.log_q, P.p0)
    label = cfg_label(c)
    ex = Explorer(initial_witness(c), domain_for(c), make_body(c, tr, verbose), tr, max_regions=c.get('budget', 80),
                  timeout=c.get('timeout', 30.0), label=label, check_defined=False, deadline=time.time() + 800)
    out = ex.run()
    for s in out.region_samples[:1]:
        s['case'] = label
        tr.sample(s)
    triage(out, lambda vals: replay(c, vals), tr, label, {'cfg': c})
    return out


# ================================================================ JSON plumbing
SIG_RP = 'BDSKModel.from_json:removal_probability-read-from-relative_times'
SIG_TLIST = 'BDSKModel.from_json:times-given-as-list:not-converted-to-tensor'
SIG_NOORIGIN = 'BDSKModel._call:origin-omitted:raises-AttributeError'
SIG_BDM = 'BirthDeathModel._call:raises-AttributeError'
SIG_PLUMB = 'from_json:option-does-not-select-the-behaviour-it-names'

PARAM_VALUES = {'R': [1.5], 'delta': [1.2], 's': [0.3], 'rho': [0.2], 'origin': [5.0], 'times': [0.0],
                'removal_probability': [0.7], 'lambda': [1.8], 'mu': [0.9], 'psi': [0.4]}

PLUMB_VARIANTS = {
    # name: (model, optional Parameter keys, plain options)
    'bdsk origin': ('BDSKModel', ['origin'], {}),
    'bdsk origin rho': ('BDSKModel', ['origin', 'rho'], {}),
    'bdsk origin survival=False': ('BDSKModel', ['origin'], {'survival': False}),
    'bdsk origin survival=True': ('BDSKModel', ['origin', 'rho'], {'survival': True}),
    'bdsk origin_is_root_edge=True': ('BDSKModel', ['origin'], {'origin_is_root_edge': True}),
    'bdsk origin_is_root_edge=False': ('BDSKModel', ['origin'], {'origin_is_root_edge': False}),
    'bdsk times parameter': ('BDSKModel', ['origin', 'times'], {}),
    'bdsk removal_probability': ('BDSKModel', ['origin', 'removal_probability'], {}),
    'bdsk relative_times=True': ('BDSKModel', ['origin', 'times'], {'relative_times': True}),
    'bdsk relative_times=False': ('BDSKModel', ['origin', 'times'], {'relative_times': False}),
    'bdsk times list': ('BDSKModel', ['origin'], {'times': [0.0]}),
    'bdsk no origin': ('BDSKModel', ['rho'], {}),
    'bd': ('BirthDeathModel', [], {}),
    'bd survival=False': ('BirthDeathModel', [], {'survival': False}),
}


def plumb_json(variant):
    model, keys, opts = PLUMB_VARIANTS[variant]

    def P(k):
        return {'id': 'p_' + k, 'type': 'Parameter', 'tensor': list(PARAM_VALUES[k])}

    tree = dict(cm.time_tree_json(((0, 1), 2), 3), taxa=cm.taxa_json(3, [0.5, 0.0, 0.2]))
    js = {'id': 'model', 'type': model, 'tree_model': tree}
    req = ['R', 'delta', 's'] if model == 'BDSKModel' else ['lambda', 'mu', 'psi', 'rho', 'origin']
    for k in req + list(keys):
        js[k] = P(k)
    js.update(opts)
    return js, req + list(keys)


def plumb_expected(variant, get, heights):
    """the density the JSON options name, built directly (documented meaning of each key)"""
    from torchtree.evolution.bdsk import PiecewiseConstantBirthDeath
    from torchtree.evolution.birth_death import BirthDeath

    model, keys, opts = PLUMB_VARIANTS[variant]
    if model == 'BirthDeathModel':
        return BirthDeath(get('lambda'), get('mu'), get('psi'), get('rho'), get('origin'), survival=opts.get('survival', True),
                          validate_args=False).log_prob(heights)
    R, delta, s = get('R'), get('delta'), get('s')
    if 'removal_probability' in keys:
        r = get('removal_probability')
        lam = R * delta
        psi = s * delta / (1.0 + (r - 1.0) * s)
        mu = delta - psi * r
    else:
        r = None
        lam, mu, psi = R * delta, delta - s * delta, s * delta
    kw = dict(survival=opts.get('survival', True), origin_is_root_edge=opts.get('origin_is_root_edge', False),
              relative_times=opts.get('relative_times', False), removal_probability=r, validate_args=False)
    kw['rho'] = get('rho') if 'rho' in keys else torch.zeros(1, dtype=lam.dtype)
    if 'origin' in keys:
        kw['origin'] = get('origin')
    if 'times' in keys:
        kw['times'] = get('times')
    elif 'times' in opts:
        kw['times'] = torch.tensor(opts['times'], dtype=lam.dtype)
    return PiecewiseConstantBirthDeath(lam, mu, psi, **kw).log_prob(heights)


ATTR_OF = {'lambda': 'lambda_'}


def plumb_replay(variant, which):
    """concrete run (plain tensors, no engine): (reproduced, detail)"""
    import torchtree.evolution.bdsk  # noqa: F401  (registers the classes)
    import torchtree.evolution.birth_death  # noqa: F401

    js, keys = plumb_json(variant)
    try:
        model, dic = cm.build(js)
    except Exception as e:
        return True, f'from_json raised {type(e).__name__}: {e}'
    _, _, opts = PLUMB_VARIANTS[variant]
    if which.startswith('attr:'):
        k = which[5:]
        got = getattr(model, ATTR_OF.get(k, k), None)
        if k in keys:
            ok = got is dic.get('p_' + k, 'never built')
        else:
            ok = got == opts.get(k, got)
        return (not ok), f'JSON key {k!r}: attribute {ATTR_OF.get(k, k)} is {got!r}'
    try:
        out = model()
    except Exception as e:
        return True, f'calling the model raised {type(e).__name__}: {e}'
    exp = plumb_expected(variant, lambda k: dic['p_' + k].tensor if 'p_' + k in dic else torch.tensor(PARAM_VALUES[k]),
                         model.tree_model.node_heights)
    if not torch.allclose(out.reshape(-1).double(), exp.reshape(-1).double(), rtol=1e-5, atol=1e-5):
        return True, f'model() = {out.tolist()} but the options name a density of {exp.tolist()}'
    return False, f'model() = {out.tolist()} as named'


def plumb_signature(variant, which, detail=''):
    model, keys, opts = PLUMB_VARIANTS[variant]
    if model == 'BirthDeathModel':
        return SIG_BDM if which == 'call' else SIG_PLUMB + ':BirthDeathModel:' + which
    if 'removal_probability' in keys or 'relative_times' in opts:
        if which in ('call', 'attr:removal_probability'):
            return SIG_RP
    if isinstance(opts.get('times'), list) and which in ('call', 'attr:times'):
        return SIG_TLIST
    if 'origin' not in keys and which == 'call':
        return SIG_NOORIGIN
    return SIG_PLUMB + ':BDSKModel:' + which


def run_plumbing_task(variant, tr):
    from torchtree.evolution.bdsk import BDSKModel, epidemiology_to_birth_death
    from torchtree.evolution.birth_death import BirthDeathModel

    tr.fn(BDSKModel.from_json, BDSKModel._call, BirthDeathModel.from_json, BirthDeathModel._call, epidemiology_to_birth_death)
    model_name, okeys, opts = PLUMB_VARIANTS[variant]
    js, keys = plumb_json(variant)
    label = f'plumbing [{variant}]'
    with tracing() as t:
        d = t.dag
        model, dic = cm.build(js)
        V = {}
        sym = {}
        goals = []
        for k in keys:  # one distinct symbol per documented key
            if 'p_' + k not in dic:  # from_json never looked at the key
                sym[k] = new_vars(k, torch.tensor(PARAM_VALUES[k], dtype=torch.float64))
            else:
                sym[k] = cm.symbolize(dic['p_' + k], k, torch.tensor(PARAM_VALUES[k], dtype=torch.float64))
            V[f'{k}[0]'] = int(sym[k]._ids[0])
        for k in keys:
            got = getattr(model, ATTR_OF.get(k, k), None)
            ids = getattr(getattr(got, 'tensor', None), '_ids', None)
            node = d.eq(int(ids.reshape(-1)[0]), V[f'{k}[0]']) if ids is not None and ids.numel() == 1 else d.FALSE
            goals.append((f'attr:{k}', f'the symbol given under JSON key {k!r} is what attribute {ATTR_OF.get(k, k)!r} holds', node))
        for k, v in opts.items():
            if isinstance(v, bool):
                goals.append((f'attr:{k}', f'option {k}={v} is stored', d.bconst(getattr(model, k, None) is v)))
        try:
            out = model()
            exp = plumb_expected(variant, lambda k: sym[k], model.tree_model.node_heights)
            if tuple(out.shape) != tuple(exp.shape) or not isinstance(out, SymTensor):
                node = d.FALSE
            else:
                oi = out._ids.reshape(-1).tolist()
                ei = exp._ids.reshape(-1).tolist() if isinstance(exp, SymTensor) else [d.const(float(x)) for x in exp.reshape(-1)]
                node = d.and_(*[d.eq(a, b) for a, b in zip(oi, ei)])
                used = set(d.variables([oi[0]]))
                tr.sample({'case': label, 'symbols reaching the result': sorted(used)})
            goals.append(('call', 'model() is the density named by the options (built directly from the same symbols)', node))
        except Exception as e:
            from symtorch.expr import EngineError

            if isinstance(e, EngineError):
                raise
            goals.append(('call', f'model() evaluates (it raised {type(e).__name__}: {str(e)[:80]})', d.FALSE))
        tr.witness_runs += 1
        tr.regions += 1
        tr.ops_checked += t.nchecked
        hyps = list(t.pcs) + [d.lt(0, i) for i in V.values()]
        for which, text, node in goals:
            cm.discharge(tr, d, hyps + ground_axioms(d, [node]), [(f'{label}: {text}', node, [], plumb_signature(variant, which))], label,
                         replay=lambda vals, w=which: plumb_replay(variant, w), timeout=5.0, varnodes=V, defined=False)


# ===================================================================== tasks
def density_cfg(**kw):
    c = dict(cls='PCBD', m=1, n=2, survival=True, removal=False, origin='given', times='none', rho_shape='full')
    c.update(kw)
    return c


CELLS_N2 = ['0<s0<=s1<c0<B', '0<s0<=s1<B=c0', '0<s0<=s1<B<c0', '0<s0<s1=B<c0', '0<s0<B<s1<c0', '0<B=s0<s1<c0', '0<B<s0<=s1<c0',
            '0<s1<B<s0<c0', '0<s1<s0=B<c0', '0<s0=B=s1<c0']
CELLS_N2_TIP0 = ['0=s0<s1<c0<B', '0=s0<s1<B<c0', '0=s0<B<s1<c0', '0=s0<s1=B<c0', '0=s1<B<s0<c0', '0=s1<s0<B<c0', '0=s0=s1<B<c0',
                 '0=s0=s1<c0<B', '0=s0<s1<B=c0', '0=s0=s1<B=c0', '0=s1<s0=B<c0', '0=s1<s0<c0<B', '0=s1<s0<B=c0', '0<s1<s0<c0<B',
                 '0<s1<s0<B=c0', '0<s1<=s0<B<c0', '0<B=s1<s0<c0', '0<B<s1<=s0<c0']
CELLS_N3 = ['0<s0<=s1<c0<s2<c1<B', '0<s0<=s1<c0<s2<B<c1', '0<s0<=s1<c0<B<s2<c1', '0<s0<=s1<B<c0<s2<c1', '0<B<s0<=s1<c0<s2<c1',
            '0<s2<s0<B<s1<c0<c1', '0=s0<s1<B<c0<s2<c1', '0<s0<=s1<c0<s2=B<c1', '0<s0<=s1<B=c0<s2<c1']


QUICK_CELLS = ['0<s0<=s1<c0<B', '0<s0<=s1<B=c0', '0<s0<=s1<B<c0', '0<s0<s1=B<c0', '0<s0<B<s1<c0']


def tasks_for(tier):
    D = density_cfg
    ts = []
    # ---- refinement: two epochs, identical rates, no sampling at the new boundary (one task per cell of the
    #      ordering of the boundary among the node heights; the Explorer certifies that a cell is one path region)
    for cell in (QUICK_CELLS if tier == 'quick' else CELLS_N2):
        ts.append(('density', D(m=2, times='abs', cell=cell, split={'rho0': False})))
    ts.append(('density', D(m=2, times='abs', rho_shape='short', survival=False, cell='0<s0<B<s1<c0', split={'rho0': False})))
    ts.append(('density', D(m=2, times='abs', cell='0<s0<=s1<B<c0', removal=True, split={'rho0': False})))
    # ---- rho-sampling (no tip sampled) at the inner boundary of two epochs with identical rates, against the two-epoch
    #      oracle composed from the constant-rate solution; 1, 2 and 0 lineages cross the boundary
    RB = dict(m=2, rhob=True, survival=False, split={'rho0': False}, lemma_timeout=60.0)
    ts.append(('density', D(times='abs', cell='0<s0<=s1<B<c0', **RB)))  # two lineages cross
    # relative times together with a root edge: boundary = fraction x (root height + edge)
    ts.append(('density', D(times='rel', origin='root_edge', cell='0<s0<=s1<B<c0', **RB)))
    if tier != 'quick':
        ts.append(('density', D(times='abs', cell='0<s0<=s1<c0<B', **RB)))  # one
        ts.append(('density', D(times='abs', cell='0<B<s0<=s1<c0', **RB)))  # none
        ts.append(('density', D(m=2, times='rel', origin='root_edge', cell='0<s0<=s1<B<c0', split={'rho0': False})))
        ts.append(('density', D(n=3, times='abs', cell='0<s2<s0<=s1<B<c0<c1', **RB)))  # three lineages cross
    # ---- one epoch against the constant-rate oracle (the Explorer enumerates tip-at-0 / rho = 0 / searchsorted regions)
    ts.append(('density', D(survival=True, removal=True)))
    ts.append(('density', D(survival=True, removal=False)))
    ts.append(('density', D(survival=False, removal=False)))
    ts.append(('density', D(origin='root_edge')))
    ts.append(('density', D(times='rel')))
    ts.append(('density', D(removal=True, split={'corner': True})))
    # ---- the constant-model class
    ts.append(('density', D(cls='BD')))
    if tier != 'quick':
        ts.append(('density', D(survival=False, removal=True)))
        ts.append(('density', D(origin='none', removal=True)))
        ts.append(('density', D(cls='BD', survival=False)))
        ts.append(('density', D(times='abs', survival=False)))
        ts.append(('density', D(rho_shape='short')))
        for surv in (False, True):
            for rem in (False, True):
                for r0 in (False, True):
                    ts.append(('density', D(n=3, survival=surv, removal=rem, split={'rho0': r0})))
        for org in ('root_edge', 'none'):
            for r0 in (False, True):
                ts.append(('density', D(n=3, removal=True, origin=org, split={'rho0': r0})))
        ts.append(('density', D(n=3, times='abs', rho_shape='short', split={'rho0': False})))
        ts.append(('density', D(n=3, removal=True, split={'corner': True})))
        ts.append(('density', D(cls='BD', n=3)))
        for cell in CELLS_N2_TIP0:
            ts.append(('density', D(m=2, times='abs', cell=cell, survival=cell.startswith('0<'), split={'rho0': False})))
        for cell in QUICK_CELLS[1:3]:
            ts.append(('density', D(m=2, times='abs', cell=cell, split={'rho0': True})))
            ts.append(('density', D(m=2, times='abs', cell=cell, origin='root_edge', survival=False, split={'rho0': False})))
        ts.append(('cover', dict(n=2, cells=CELLS_N2 + CELLS_N2_TIP0, tips='any')))
        for cell in CELLS_N3[:4]:
            ts.append(('density', D(m=2, n=3, times='abs', cell=cell, split={'rho0': False})))
    else:
        ts.append(('cover', dict(n=2, cells=QUICK_CELLS, tips='positive', half=True, strict=True)))
    ts += [('plumb', v) for v in PLUMB_VARIANTS]
    ts.append(('beast', None))
    return ts


def run_cover_task(spec, tr):
    """the cells of the refinement tasks cover the stated domain (one solver query)"""
    c = density_cfg(m=2, n=spec['n'], times='abs')
    with tracing() as t:
        d = t.dag
        V = {nm: d.var(nm, v) for nm, v in initial_witness(c).items()}
        dom = domain_for(c)(d, V)
        dom.append(d.lt(0, V['rho']))
        if spec['tips'] == 'positive':
            dom += [d.lt(0, V[f's{i}']) for i in range(spec['n'])]
        if spec.get('half'):
            dom.append(d.le(V['s0'], V['s1']))
        if spec.get('strict'):  # quick tier: the boundary lies above the lower tip (thorough covers the rest)
            dom.append(d.lt(V['s0'], boundary_height(d, V, c)))
        cells = [d.and_(*cell_constraints(dict(c, cell=cell), d, V)) for cell in spec['cells']]
        st, r, _ = prove(d, dom, d.or_(*cells), timeout=60.0, tr=tr, label='cells cover the domain', parallel=True)
        if st == 'proved':
            tr.closures += 1
        else:
            tr.inconc(f'refinement cells n={spec["n"]}: coverage of the domain by the cells not certified ({st})')


def run_task(task, tr):
    import os

    t0 = time.time()
    try:
        return _run_task(task, tr)
    finally:
        if os.environ.get('VERIF_TIMING'):
            print(f'TIMING {time.time() - t0:7.1f}s regions={tr.regions} {str(task)[:230]}', flush=True)


def _run_task(task, tr):
    kind, arg = task
    if kind == 'plumb':
        return run_plumbing_task(arg, tr)
    if kind == 'beast':
        bad = oracle_reproduces_beast()
        tr.witness_runs += len(BEAST_LITERALS)
        for b in bad:
            tr.inconc('the oracle does not reproduce a BEAST2 literal of test_bdsky.py: ' + b)
        tr.sample({'oracle vs BEAST2 literals (test_bdsky.py, single-epoch cases)': [x[0] for x in BEAST_LITERALS], 'all reproduced': not bad})
        return
    if kind == 'cover':
        return run_cover_task(arg, tr)
    run_density_task(arg, tr)


def body(chk):
    chk.explanation = ('symbolic execution of the real birth-death(-skyline) log_prob on symbolic rates, sampling parameters, origin, '
                       'epoch boundary and node heights; path regions enumerated with a coverage certificate; on each region '
                       'impl == independently written Stadler-2010 density is decided by a chain of solver lemmas (exp/log/sqrt '
                       'applications generalised to real variables, their laws instantiated only after the solver proved the '
                       'premises); JSON plumbing decided on the expression DAG with one distinct symbol per documented key')
    chk.total.assumptions |= {
        'exp/log/sqrt are uninterpreted; only ground instances of their laws are used (congruence, exp(x+y)=exp(x)exp(y), exp(0)=1, '
        'x>0 => exp(x)>1, log(xy)=log x+log y for x,y>0, log 1=0, sqrt(x)^2=x and sqrt(x)>=0 for x>=0), each instantiated only after '
        'the solver proved its premises on the whole region',
        'domain: lambda>0, mu>0, psi>=0 (psi>0 when some tip is psi-sampled), 0<=rho<=1, 0<=r<=1, not (psi=0 and lambda=mu) '
        '[removable singularity of the closed form: the real code returns nan there], internal heights above their tips and at most '
        'the origin, 0 < boundary < origin',
        'a tip at height 0 is a rho-sample when rho>0 and a psi-sample when rho=0 (BEAST2 convention, reproduced by the literals of '
        'test_bdsky.py); with a removal probability the density is that of the labelled tree (+(n-1) log 2, as BEAST2 bdsky)',
        'origin omitted: the process starts at the root (limit of a zero-length root edge)',
        'log 2 enters through its float64 value on both sides',
        'agreement with numerical integration of the master equations and 4-8 epochs with distinct rates: not decidable with this '
        'technique, not claimed',
        'removal probability with r=0 and rho=1 is examined in a separate task (corner): the general tasks assume r>0 or rho<1',
    }
    quick = chk.tier == 'quick'
    chk.total.bounds.update({
        'taxa': 'n = 2' if quick else 'n <= 3 (one epoch); n = 2 and selected n = 3 cells (two epochs)',
        'tree': 'the density sees the tree through node heights only: heights of a caterpillar ((0,1),2) with unconstrained tip '
                'order cover every 2/3-taxon tree up to relabelling; serial and contemporaneous tips, ties included',
        'one epoch': 'symbolic lambda, mu, psi, rho, r, origin, heights; with/without survival conditioning and removal probability; '
                     + ('origin given / root edge; times omitted / [0] relative' if quick else
                        'origin given / root edge / omitted; times omitted / [0] absolute / [0] relative')
                     + '; every path region (coverage certified by the solver)',
        'two epochs': ('identical rates, rho=0 at the new boundary, symbolic boundary, absolute times; cells of the boundary position: '
                       + ', '.join(QUICK_CELLS if quick else CELLS_N2 + CELLS_N2_TIP0)
                       + ('; quick: serial tips, rho>0, s0<=s1, boundary above the lower tip (cells certified to cover this)' if quick else
                          '; rho>0 (cells certified to cover the n=2 domain); rho=0 and root-edge variants on selected cells; n=3: ' + ', '.join(CELLS_N3[:6])
                          + ' (no coverage claim for n=3)')),
        'rho at the inner boundary': ('two epochs, identical rates, 0<rho_1<1 at the boundary where no tip is sampled, no survival '
                                      'conditioning, serial tips, rho>0: a cell with 2 crossing lineages (n=2)'
                                      + ('' if quick else ', cells with 0, 1 (n=2) and 3 (n=3) crossing lineages')
                                      + '; relative times with a root edge on one cell; oracle = constant-rate solution restarted at the '
                                      'boundary with 1-rho_eff = (1-rho_1) p(boundary), validated on the two-epoch BEAST2 literals'),
        'not covered': 'more than two epochs; epochs with different rates (the portfolio did not close the identity within 20 min; the '
                       'two-epoch oracle reproduces the BEAST2 literals with distinct rates in plain floats only); rho-sampling at an inner '
                       'boundary together with survival conditioning (equality is proved but positivity of the survival probability is '
                       'undecided) or with a tip sampled at that boundary; the identical-rate refinement tasks cannot see a misplaced '
                       'boundary (the density does not depend on it), only the rho-at-boundary tasks can; batched parameters; numerical '
                       'integration of the master equations',
    })
    chk.total.stubs |= {'exp', 'log', 'sqrt (uninterpreted, generalised to real variables inside every lemma)'}
    pmap(run_task, tasks_for(chk.tier), chk.total, workers=12)


def replay_file(path):
    r = json.load(open(path))['replay']
    if 'cfg' in r:
        ok, detail = replay(r['cfg'], r['values'])
    else:
        lab = r.get('label', '')
        variant = lab[lab.index('[') + 1:lab.index(']')]
        ok, detail = False, 'no failing goal'
        for which in ['call'] + ['attr:' + k for k in ('removal_probability', 'times', 'origin', 'rho', 'relative_times', 'survival')]:
            ok, detail = plumb_replay(variant, which)
            if ok:
                break
    print(('REPRODUCED ' if ok else 'NOT REPRODUCED ') + detail)
    return 1 if ok else 0


if __name__ == '__main__':
    if '--replay' in sys.argv:
        sys.exit(replay_file(sys.argv[sys.argv.index('--replay') + 1]))
    sys.exit(main_for(PID, body))
