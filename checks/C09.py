"""C09 Birth-death skyline density agrees across epochs and with the constant model.

(1) JSON plumbing: BDSKModel / BirthDeathModel are built from JSON with a distinct
    symbolic parameter behind every documented key; the symbols reaching each
    attribute are read off the expression DAG and the call is executed.
(2) One epoch: the REAL PiecewiseConstantBirthDeath.log_prob (and BirthDeath.log_prob)
    is executed on symbolic lambda, mu, psi, rho, r, origin and node heights and
    compared with an independently written Stadler-2010 constant-rate
    birth-death-sampling density (validated on the BEAST2 literals of test_bdsky.py
    in plain floats first).  Path regions (tips at time 0 or not, rho = 0 or not,
    searchsorted cells) are enumerated with a coverage certificate.
(3) Refinement: two epochs with identical rates and no sampling at the (symbolic) new
    boundary against the same one-epoch oracle.
(4) Refinement INSIDE a skyline (relational, no oracle): a two-epoch skyline with DISTINCT
    symbolic rates and the three-epoch skyline obtained by splitting its older (resp. its
    recent) epoch at a symbolic new boundary, and one epoch split in three, are both run
    through the real code on shared symbols; the results must be equal.  The extinction
    probabilities p_i that both runs compute are generalised to fresh variables (after
    their bounds were proved), p_i that should agree are proved equal and the refined result
    is rewritten with the equality, B_i across a new boundary is proved to be the Moebius
    image of B_(i+1) and rewritten; the remaining lemmas are those of a one-epoch problem.
(6) Histories on ONE object: log_prob(tree A), log_prob(tree B), log_prob(tree A) on one
    distribution object, and tree changes / parameter updates on one BDSKModel /
    BirthDeathModel object, each value against a freshly built object on shared symbols.
(5) Two epochs with DISTINCT rates against an independent two-epoch oracle (constant-rate
    solution of Stadler 2010 restarted at the boundary; reproduces the two-epoch BEAST2
    literals): the oracle's extinction probability at the boundary is proved equal to the
    implementation's p_1, the oracle is rewritten with it and the shared quantity generalised.

The identity mixes exp(c1 t), sqrt and rational functions.  It is decided by a chain
of small solver lemmas (see `LemmaChain`): arguments of exp / sqrt / log applications
of implementation and oracle are paired on the witness, the pairing relation is PROVED
by the solver with the transcendental atoms generalised to fresh variables
(QF_NRA), and the corresponding instance of a law of exp/log (congruence,
exp(-x)exp(x)=1, log(ab)=log a+log b) is then available to the later lemmas.  The
final goal impl == oracle is linear in the log atoms.
"""
from __future__ import annotations

import itertools
import json
import math
import sys
import time
from fractions import Fraction

import torch

import common as cm
from symtorch import SymFloat, SymTensor, cur, new_vars, tracing
from symtorch.axioms import ground_axioms
from symtorch.explore import Explorer, Goal, prove, triage, _to_float
from symtorch.tensor import mkfloat
from vlib.core import main_for, pmap

PID = 'C09'
LOG2 = math.log(2.0)


# ====================================================================== oracle
class _FloatMath:
    exp = staticmethod(math.exp)
    log = staticmethod(math.log)
    sqrt = staticmethod(math.sqrt)


class _SymMath:
    """exp/log/sqrt on SymFloats (uninterpreted DAG nodes)."""

    @staticmethod
    def _u(name, x):
        d = cur().dag
        return mkfloat(d.uf(name, SymFloat._id(x)))

    def exp(self, x):
        return self._u('exp', x)

    def log(self, x):
        return self._u('log', x)

    def sqrt(self, x):
        return self._u('sqrt', x)


def stadler_oracle(lam, mu, psi, rho, x0, xs, tips, survival=False, r=None, M=_FloatMath, probe=None):
    """Stadler (2010, JTB 267) Thm 3.5 / Cor 3.7, constant rates: log density of a sampled tree with
    origin x0, branching times xs, tip heights `tips` (time before the present).  Tips at height 0 are
    rho-sampled when rho > 0, every other tip is a psi-sample.  survival: condition on at least one sample
    (divide by 1 - p0(x0)).  r: removal probability (Gavryushkina et al. 2014, no sampled ancestors in the
    tree): every psi-sample contributes psi (r + (1 - r) p0(y)); BEAST2's bdsky then reports the density of
    the labelled tree, i.e. adds (n_tips - 1) log 2 (its reference values in test_bdsky.py include it).
    Works on floats and on SymFloats (M supplies exp/log/sqrt)."""
    c1 = M.sqrt((lam - mu - psi) ** 2 + 4.0 * lam * psi)
    c2 = -(lam - mu - 2.0 * lam * rho - psi) / c1
    if probe is not None:
        probe['c2'] = [c2]  # only looked at to choose a lemma (the harness proves it equal to the implementation's B of the last epoch)

    def q(t):
        return 2.0 * (1.0 - c2 ** 2) + M.exp(-(c1 * t)) * (1.0 - c2) ** 2 + M.exp(c1 * t) * (1.0 + c2) ** 2

    def p0(t):
        em = M.exp(-(c1 * t))
        return (lam + mu + psi + c1 * (em * (1.0 - c2) - (1.0 + c2)) / (em * (1.0 - c2) + (1.0 + c2))) / (2.0 * lam)

    n_rho = 0
    serial = []
    for y in tips:
        if y == 0 and rho > 0:
            n_rho += 1
        else:
            serial.append(y)
    lf = (len(tips) - 1) * M.log(lam) - M.log(q(x0))
    if n_rho:
        lf = lf + n_rho * M.log(4.0 * rho)
    for x in xs:
        lf = lf - M.log(q(x))
    for y in serial:
        if r is None:
            lf = lf + M.log(psi) + M.log(q(y))
        else:
            lf = lf + M.log(psi * (r + (1.0 - r) * p0(y))) + M.log(q(y))
    if survival:
        lf = lf - M.log(1.0 - p0(x0))
    if r is not None:
        lf = lf + (len(tips) - 1) * LOG2
    return lf


def skyline2_oracle(recent, old, rho, rho1, hb, x0, xs, tips, survival=False, M=_FloatMath, probe=None):
    """Two epochs, composed from the constant-rate solution of Stadler (2010) instead of the skyline recursion:
    recent epoch [0, hb) with rates `recent` = (lambda, mu, psi) and rho-sampling probability rho at height 0; at height
    hb every lineage alive is sampled with probability rho1 (no tip of the tree is sampled there); older epoch [hb, x0]
    with rates `old`.  The extinction probability solves the same Riccati equation in both epochs, so in the older epoch
    it is the constant-rate p0 restarted at hb with 1 - rho_eff = (1 - rho1) p_recent(hb); a branch from height a to b
    inside one epoch contributes q(a)/q(b); a lineage alive at hb contributes (1 - rho1)."""

    def blocks(lam, mu, psi, rho_):
        c1 = M.sqrt((lam - mu - psi) ** 2 + 4.0 * lam * psi)
        c2 = -(lam - mu - 2.0 * lam * rho_ - psi) / c1
        if probe is not None:
            probe.setdefault('c2', []).append(c2)  # only looked at to choose lemmas

        def q(t):
            return 2.0 * (1.0 - c2 ** 2) + M.exp(-(c1 * t)) * (1.0 - c2) ** 2 + M.exp(c1 * t) * (1.0 + c2) ** 2

        def p0(t):
            em = M.exp(-(c1 * t))
            return (lam + mu + psi + c1 * (em * (1.0 - c2) - (1.0 + c2)) / (em * (1.0 - c2) + (1.0 + c2))) / (2.0 * lam)

        return q, p0

    q_r, p_r = blocks(recent[0], recent[1], recent[2], rho)
    p_hb = p_r(hb)
    if probe is not None:
        probe['p_boundary'] = p_hb  # only looked at to choose a lemma (the harness proves it equal to the implementation's p_i)
    rho_eff = 1.0 - (1.0 - rho1) * p_hb
    q_o, p_o = blocks(old[0], old[1], old[2], rho_eff)
    n_cross = 1  # the lineage that starts at the origin
    lf = -M.log(q_o(x0 - hb))
    for x in xs:
        if x > hb:
            lf = lf + M.log(old[0]) - M.log(q_o(x - hb))
            n_cross += 1
        else:
            lf = lf + M.log(recent[0]) - M.log(q_r(x))
    for y in tips:
        if y == 0 and rho > 0:
            lf = lf + M.log(4.0 * rho)
        elif y >= hb:
            lf = lf + M.log(old[2]) + M.log(q_o(y - hb))
            n_cross -= 1
        else:
            lf = lf + M.log(recent[2]) + M.log(q_r(y))
    if n_cross:  # leaves the older epoch (q_o(0) = 4), is not sampled at hb, enters the recent epoch
        lf = lf + n_cross * (M.log(4.0) - M.log(q_r(hb)))
        if not (isinstance(rho1, (int, float)) and rho1 == 0):
            lf = lf + n_cross * M.log(1.0 - rho1)
    if survival:
        lf = lf - M.log(1.0 - p_o(x0 - hb))
    return lf


# BEAST2 reference values copied from /repo/test/test_bdsky.py (single-epoch cases):
# (lambda, mu, psi, rho, origin, branching times, tip heights, survival, r, literal)
def _epi(R, delta, s, r=None):
    if r is None:
        return R * delta, delta - s * delta, s * delta
    psi = s * delta / (1.0 + (r - 1.0) * s)
    return R * delta, delta - psi * r, psi


BEAST_LITERALS = [
    ('test_single_rho', _epi(1.5, 1.5, 0.0), 0.01, 10.0, [4.5, 5.5], [0, 0, 0], False, None, -8.520565),
    ('test_single_rho root edge', _epi(1.5, 1.5, 0.0), 0.01, 5.5 + 1e-100, [4.5, 5.5], [0, 0, 0], False, None, -5.950979),
    ('test_single_rho root edge survival', _epi(1.5, 1.5, 0.0), 0.01, 5.5 + 1e-100, [4.5, 5.5], [0, 0, 0], True, None, -4.431935),
    ('test_single_rho survival', _epi(1.5, 1.5, 0.0), 0.01, 10.0, [4.5, 5.5], [0, 0, 0], True, None, -7.404227),
    ('testLikelihood_calculation_simple', _epi(1.5, 1.5, 0.3), 0.0, 10.0, [2.0, 4.0, 5.0], [0, 1.0, 2.5, 3.5], False, 1.0,
     -26.105360134266082),
    ('test_likelihood_calculation_simple_for_BDMM', _epi(1.5, 1.5, 0.3, 0.9), 0.0, 10.0, [2.0, 4.0, 5.0], [0, 1.0, 2.5, 3.5],
     True, 0.9, -25.991511346557598),
    ('test_likelihood_calculation1', (2.0, 1.0, 0.5), 0.0, 6.0, [2.0, 4.0, 5.0], [0, 1.0, 2.5, 3.5], False, None, -19.0198),
]


# two-epoch literals of test_bdsky.py (distinct rates): (name, recent, old, rho, rho1, hb, x0, xs, tips, literal)
BEAST_LITERALS_2 = [
    ('test_1rho2times', _epi(4.0, 2.0, 0.0), _epi(1.5, 1.5, 0.0), 0.01, 0.0, 5.0, 10.0, [4.5, 5.5], [0, 0, 0], -78.4006528776),
    ('test_likelihood_calculation4', (2.0, 1.0, 0.5), (3.0, 2.5, 2.0), 0.0, 0.0, 3.0, 6.0, [2.0, 4.0, 5.0], [0, 1.0, 2.5, 3.5], -33.7573),
]


def oracle_reproduces_beast():
    bad = []
    for name, rec, old, rho, rho1, hb, x0, xs, tips, lit in BEAST_LITERALS_2:
        v = skyline2_oracle(rec, old, rho, rho1, hb, x0, xs, tips)
        if not abs(v - lit) <= 1e-4 * abs(lit):
            bad.append(f'{name}: two-epoch oracle {v!r} vs BEAST2 literal {lit!r}')
    for name, (lam, mu, psi), rho, x0, xs, tips, surv, r, lit in BEAST_LITERALS:
        v = stadler_oracle(lam, mu, psi, rho, x0, xs, tips, surv, r)
        if not abs(v - lit) <= 1e-4 * abs(lit):
            bad.append(f'{name}: oracle {v!r} vs BEAST2 literal {lit!r}')
    return bad


# ================================================================ lemma chain
class LemmaChain:
    """Proves impl == oracle through small solver lemmas (see module docstring).

    Every `prove` is one solver query `base ∧ selected facts ⊢ statement` in which all exp/log/sqrt
    applications are generalised to fresh real variables (a proof of the generalisation is a proof of the
    instance).  A fact enters `self.facts` only (a) after the solver proved it, or (b) as the conclusion of a
    law of exp/log/sqrt whose premises the solver proved.  Nothing else is assumed."""

    def __init__(self, t, base, tr, label, timeout=20.0, verbose=False):
        self.t = t
        self.d = t.dag
        self.base = [b for b in base if b != self.d.TRUE]
        self.tr = tr
        self.label = label
        self.timeout = timeout
        self.facts = []
        self.amap = {}
        self.verbose = verbose
        self.failed = []
        self.nproved = 0
        self.abstract = {}  # node -> name: sub-expressions generalised to fresh variables exactly like the exp/log/sqrt atoms

    # -- helpers
    def is_atom(self, n):
        return self.d.ops[n] == 'uf' or n in self.abstract

    def uf_nodes(self, roots, name=None):
        d = self.d
        return [n for n in d.topo(list(roots)) if d.ops[n] == 'uf' and (name is None or d.args[n][0] == name)]

    def atoms(self, roots):
        d = self.d
        out = set()
        # stop at uf nodes: a generalised uf node hides its argument
        seen = set()
        stack = list(roots)
        while stack:
            n = stack.pop()
            if n in seen:
                continue
            seen.add(n)
            op = d.ops[n]
            if op == 'uf' or n in self.abstract:
                out.add(n)
                continue
            if op == 'var':
                out.add(n)
                continue
            stack.extend(d.children(n))
        return out

    def generalise(self, formulas):
        d = self.d
        ufs = set()
        for f in formulas:
            ufs |= {n for n in self.atoms([f]) if self.is_atom(n)}
        for n in sorted(ufs):
            if n not in self.amap:
                self.amap[n] = self.t.fresh('g_' + (self.abstract[n] if n in self.abstract else d.args[n][0]), d.vals[n])
        return d.substitute(list(formulas), {n: self.amap[n] for n in ufs})

    def select(self, node, closed=False, rounds=2):
        """lemma selection.  closed: facts that only mention transcendental atoms of the statement;
        otherwise facts sharing a transcendental atom with it, transitively (two rounds)."""
        d = self.d
        want = {a for a in self.atoms([node]) if self.is_atom(a)}
        sel = []
        if closed:
            for f in self.facts:
                fa = {a for a in self.atoms([f]) if self.is_atom(a)}
                if fa <= want:
                    sel.append(f)
            return sel
        for _ in range(rounds):
            new = set()
            for f in self.facts:
                if f in sel:
                    continue
                fa = {a for a in self.atoms([f]) if self.is_atom(a)}
                if fa & want or not fa:
                    sel.append(f)
                    new |= fa
            want |= new
        return sel

    def prove(self, what, node, hyps=None, timeout=None):
        d = self.d
        if node == d.TRUE:
            return True
        if node == d.FALSE:
            self.failed.append((what, 'constant false'))
            return False
        timeout = timeout or self.timeout
        if hyps is None:
            wide = self.select(node)
            closed = self.select(node, closed=True)
            if len(wide) <= 40 or set(wide) == set(closed):
                attempts = [(wide, timeout)]
            else:
                attempts = [(closed, min(timeout, 10.0))]
                one = self.select(node, rounds=1)
                if set(one) not in (set(closed), set(wide)):
                    attempts.append((one, timeout))
                attempts.append((wide, timeout))
        else:
            attempts = [(list(hyps), timeout)]
        st = 'unknown'
        for k, (hs, to) in enumerate(attempts):
            forms = self.generalise([node] + self.base + hs)
            st, r, text = prove(d, forms[1:], forms[0], timeout=to, tr=self.tr, label=what, parallel=True)
            if self.verbose:
                print(f'   [{st:8s} {r.secs if r else 0:6.2f}s {r.solver if r else "":5s} {len(hs):3d} facts] {what}', flush=True)
            if st == 'proved':
                self.nproved += 1
                return True
        self.failed.append((what, st))
        return False

    def fact(self, node):
        if node != self.d.TRUE and node not in self.facts:
            self.facts.append(node)

    def lemma(self, what, node, hyps=None, timeout=None):
        ok = self.prove(what, node, hyps, timeout)
        if ok:
            self.fact(node)
        return ok

    # -- phases
    @staticmethod
    def close(a, b, tol=1e-9):
        return abs(a - b) <= tol * max(1.0, abs(a), abs(b))

    def sqrt_phase(self, roots):
        d = self.d
        reps = []
        for s in self.uf_nodes(roots, 'sqrt'):
            R = d.args[s][1]
            done = False
            for s0 in reps:
                R0 = d.args[s0][1]
                if self.close(d.vals[R], d.vals[R0]) and self.prove(f'sqrt arguments agree #{s}~#{s0}', d.eq(R, R0)):
                    self.fact(d.eq(s, s0))  # congruence
                    done = True
                    break
            if done:
                continue
            reps.append(s)
            if self.lemma(f'sqrt argument positive #{s}', d.lt(0, R)):
                self.fact(d.le(0, s))  # sqrt(x) >= 0
                self.fact(d.eq(d.mul(s, s), R))  # sqrt(x)^2 = x for x >= 0
                self.lemma(f'sqrt positive #{s}', d.lt(0, s))

    def exp_phase(self, roots):
        d = self.d
        reps = []
        seen = []
        nodes = self.uf_nodes(roots, 'exp')
        # canonical representatives: positive witness argument first, small DAG first
        nodes.sort(key=lambda n: (d.vals[d.args[n][1]] < 0, n))
        for e in nodes:
            a = d.args[e][1]
            done = False
            if abs(d.vals[a]) < 1e-12 and self.prove(f'exp argument zero #{e}', d.eq(a, 0)):
                self.fact(d.eq(e, 1))  # exp 0 = 1
                continue
            for e0 in reps:
                a0 = d.args[e0][1]
                if self.close(d.vals[a], d.vals[a0]) and self.prove(f'exp arguments agree #{e}~#{e0}', d.eq(a, a0)):
                    self.fact(d.eq(e, e0))  # congruence
                    done = True
                    break
                if self.close(d.vals[a], -d.vals[a0]) and self.prove(f'exp arguments opposite #{e}~#{e0}',
                                                                      d.eq(a, d.neg(a0))):
                    self.fact(d.eq(d.mul(e, e0), 1))  # exp(-x) exp(x) = 1
                    done = True
                    break
            if not done:
                # additive relations with two representatives: exp(x + y) = exp(x) exp(y)
                for i1, e1 in enumerate(seen):
                    for e2 in seen[i1 + 1:]:
                        a1, a2 = d.args[e1][1], d.args[e2][1]
                        va, v1, v2 = d.vals[a], d.vals[a1], d.vals[a2]
                        if self.close(va, v1 + v2) and self.prove(f'exp arguments add #{e}=#{e1}+#{e2}', d.eq(a, d.add(a1, a2))):
                            self.fact(d.eq(e, d.mul(e1, e2)))
                            done = True
                        elif self.close(va, -(v1 + v2)) and self.prove(f'exp arguments add #{e}=-#{e1}-#{e2}', d.eq(d.neg(a), d.add(a1, a2))):
                            self.fact(d.eq(d.mul(e, d.mul(e1, e2)), 1))
                            done = True
                        elif self.close(va, v1 - v2) and self.prove(f'exp arguments add #{e}=#{e1}-#{e2}', d.eq(a, d.sub(a1, a2))):
                            self.fact(d.eq(d.mul(e, e2), e1))
                            done = True
                        elif self.close(va, v2 - v1) and self.prove(f'exp arguments add #{e}=#{e2}-#{e1}', d.eq(a, d.sub(a2, a1))):
                            self.fact(d.eq(d.mul(e, e1), e2))
                            done = True
                        if done:
                            break
                    if done:
                        break
            if not done:
                reps.append(e)
            seen.append(e)
            self.fact(d.lt(0, e))  # exp > 0
            if d.vals[a] > 0 and self.prove(f'exp argument positive #{e}', d.lt(0, a)):
                self.fact(d.lt(1, e))  # x > 0 => exp x > 1
            elif d.vals[a] >= 0 and self.prove(f'exp argument non-negative #{e}', d.le(0, a)):
                self.fact(d.le(1, e))  # x >= 0 => exp x >= 1
            elif d.vals[a] < 0 and self.prove(f'exp argument negative #{e}', d.lt(a, 0)):
                self.fact(d.lt(e, 1))

    def sign(self, b, what, depth=2):
        """sign of node b as on the witness; on failure the signs of its operands are established first"""
        d = self.d
        if d.ops[b] == 'const':
            return True
        v = d.vals[b]
        if v != v:
            return False
        stmt = d.lt(0, b) if v > 0 else (d.lt(b, 0) if v < 0 else d.eq(b, 0))
        if stmt in self.facts or stmt == d.TRUE:
            return True
        sfx = '> 0' if v > 0 else ('< 0' if v < 0 else '= 0')
        for f in self.facts:  # equal to something whose sign is known
            if d.ops[f] == 'eq' and b in d.args[f]:
                other = d.args[f][0] if d.args[f][1] == b else d.args[f][1]
                known = d.lt(0, other) if v > 0 else d.lt(other, 0)
                if known in self.facts and self.lemma(f'{what} #{b} {sfx} (equals #{other})', stmt, hyps=[f, known]):
                    return True
        if self.lemma(f'{what} #{b} {sfx}', stmt):
            return True
        if depth <= 0 or d.ops[b] not in ('add', 'mul', 'div', 'ipow') or self.failed[-1][1] != 'refuted':
            return False
        for ch in d.children(b):
            if d.ops[ch] in ('add', 'mul', 'div', 'ipow'):
                self.sign(ch, 'operand', depth - 1)
        return self.lemma(f'{what} #{b} {sfx} (operand signs known)', stmt)

    def sign_phase(self, nodes, what='denominator'):
        """sign (as on the witness) of each node, children first."""
        ok = True
        for b in sorted(set(nodes)):
            if not self.sign(b, what):
                ok = False
        return ok

    def positive(self, g):
        return self.d.vals[g] > 0 and self.sign(g, 'log argument')

    def prove_product(self, what, node):
        """a relation between log arguments; when the chain rewrote the constants B_i (see `equal`), the laws of exp among the exp
        applications of the relation itself are instantiated first and the remaining B is generalised (the relation holds for
        every B)"""
        if getattr(self, 'b_atoms', None):
            self.exp_relations(node)
            return self.prove_generalising(what, node, self.b_atoms)
        return self.prove(what, node)

    def log_phase(self, I, O):
        """pair log applications of implementation and oracle on the witness; prove the pairing relation"""
        d = self.d
        li = self.uf_nodes([I], 'log')
        lo = self.uf_nodes([O], 'log')
        only_i = [n for n in li if n not in lo]
        only_o = [n for n in lo if n not in li]
        consts = [Fraction(1), Fraction(4), Fraction(2), Fraction(1, 4), Fraction(1, 2)]
        log4 = d.log(d.const(4))
        unpaired = []
        for L in only_i + only_o:
            g = d.args[L][1]
            if self.close(d.vals[g], 1.0) and self.prove(f'log argument #{g} is one', d.eq(g, 1)):
                self.fact(d.eq(L, 0))  # log 1 = 0
        for L1 in only_i:
            g1 = d.args[L1][1]
            v1 = d.vals[g1]
            found = False
            for L2 in only_o:
                g2 = d.args[L2][1]
                v2 = d.vals[g2]
                for c in consts:
                    cn = d.const(c)
                    if self.close(v1, float(c) * v2):  # g1 = c g2
                        if c == 1:
                            if self.prove_product(f'log arguments agree #{L1}~#{L2}', d.eq(g1, g2)):
                                self.fact(d.eq(L1, L2))  # congruence
                                found = True
                        elif c > 1:
                            if self.prove_product(f'log arguments: #{L1} = {c} * #{L2}', d.eq(g1, d.mul(cn, g2))) and self.positive(g2):
                                self.fact(d.eq(L1, d.add(d.log(cn), L2)))  # log(c x) = log c + log x, x > 0
                                found = True
                        else:
                            ci = d.const(1 / c)
                            if self.prove_product(f'log arguments: #{L2} = {1 / c} * #{L1}', d.eq(g2, d.mul(ci, g1))) and self.positive(g1):
                                self.fact(d.eq(L2, d.add(d.log(ci), L1)))
                                found = True
                    if self.close(v1 * v2, float(c)) and c >= 1:  # g1 g2 = c
                        if self.prove_product(f'log arguments: #{L1} * #{L2} = {c}', d.eq(d.mul(g1, g2), cn)) \
                                and self.positive(g1) and self.positive(g2):
                            self.fact(d.eq(d.add(L1, L2), d.log(cn) if c != 1 else 0))  # log x + log y = log(xy)
                            found = True
            if not found:
                unpaired.append(L1)
        # three-way relations (an event in an older epoch, the boundary term, the oracle's q): g1 gb g2 = 4
        tried = {}
        for L1 in list(unpaired):
            g1 = d.args[L1][1]
            found = False
            for Lb in only_i + getattr(self, 'aux_logs', []):
                if Lb == L1:
                    continue
                gb = d.args[Lb][1]
                for L2 in only_o:
                    g2 = d.args[L2][1]
                    key = frozenset((L1, Lb, L2))
                    if key in tried:
                        found = found or tried[key]
                        continue
                    if self.close(d.vals[g1] * d.vals[gb] * d.vals[g2], 4.0):
                        tried[key] = False
                        if self.prove_product(f'log arguments: #{L1} * #{Lb} * #{L2} = 4', d.eq(d.mul(d.mul(g1, gb), g2), d.const(4))) \
                                and self.positive(g1) and self.positive(gb) and self.positive(g2):
                            self.fact(d.eq(d.add(d.add(L1, Lb), L2), log4))  # log x + log y + log z = log(xyz)
                            found = True
                            tried[key] = True
            if found:
                unpaired.remove(L1)
        # four-way relations (two events of an older epoch when no lineage count multiplies the boundary term):
        # g1 o1 = g2 o2  =>  log g1 + log o1 = log g2 + log o2
        for k in range(1, len(unpaired)):
            L1, L2 = unpaired[0], unpaired[k]
            g1, g2 = d.args[L1][1], d.args[L2][1]
            for o1 in only_o:
                for o2 in only_o:
                    if o1 == o2:
                        continue
                    q1, q2 = d.args[o1][1], d.args[o2][1]
                    if self.close(d.vals[g1] * d.vals[q1], d.vals[g2] * d.vals[q2]) and d.vals[g1] > 0 and d.vals[g2] > 0:
                        if self.prove_product(f'log arguments: #{L1} * #{o1} = #{L2} * #{o2}', d.eq(d.mul(g1, q1), d.mul(g2, q2))) \
                                and self.positive(g1) and self.positive(g2) and self.positive(q1) and self.positive(q2):
                            self.fact(d.eq(d.add(L1, o1), d.add(L2, o2)))
        return unpaired

    def equal(self, I, O, signature, what, impl_end=None, p_impl=(), p_oracle=None, B_impl=(), c2_oracle=None):
        """the whole chain; returns a Goal for the Explorer (final linear step).
        impl_end: number of DAG nodes when the implementation had finished (before the oracle ran); log applications
        the implementation built but multiplied by a zero count are still available as auxiliary atoms.
        p_impl / p_oracle (two epochs with distinct rates): the extinction probabilities the implementation computed and the
        oracle's extinction probability at the epoch boundary.  When the solver PROVES the latter equal to one of the former, the
        oracle is rewritten with that equality and the shared quantity is generalised to a fresh variable (after its bounds were
        proved): the older epoch is then a one-epoch problem whose sampling probability at its recent end is that variable.
        B_impl / c2_oracle (two epochs): the constants B_i the implementation computed (most recent epoch first) and the oracle's
        constants c2 (one per epoch of the oracle).  When the solver PROVES a c2 equal to a B_i the oracle is rewritten with it; with
        the one-epoch oracle the older B_i are rewritten as Moebius images (proved); the B_i that remain are generalised inside the
        relations between log arguments.  Everything that was rewritten away is shown to be well
        defined through the proved equalities (`transfer`)."""
        d = self.d
        t = self.t
        # selections torch.where(c, a, b) whose condition is decided on the whole region are replaced by the selected
        # branch (the solver proves c or not c under the region's hypotheses); indicator factors ite(c, 1, 0) are kept, so a
        # term multiplied by a zero mask still has to be well defined
        sel = {}
        for n in d.topo([I]):
            if d.ops[n] == 'ite':
                c, a, b = d.args[n]
                if d.ops[a] == 'const' and d.ops[b] == 'const':
                    continue
                c2 = d.substitute([c], sel)[0] if sel else c
                holds = bool(d.vals[c2])
                if self.prove(f'selection #{n} takes the same branch on the whole region', c2 if holds else d.not_(c2), hyps=[]):
                    sel[n] = d.substitute([a if holds else b], sel)[0] if sel else (a if holds else b)
        if sel:
            I = d.substitute([I], sel)[0]
        goal = d.eq(I, O)
        cone = set(d.topo([goal]))  # sub-expressions the result actually depends on
        self.aux_logs = []
        if impl_end is not None:
            self.aux_logs = [n for n in range(impl_end) if d.ops[n] == 'uf' and d.args[n][0] == 'log' and n not in cone
                             and d.ops[d.args[n][1]] != 'var' and d.vals[d.args[n][1]] > 0]
        aux_cone = set(d.topo(self.aux_logs))
        self.sqrt_phase([goal] + self.aux_logs)
        self.exp_phase([goal] + self.aux_logs)
        cone0 = cone
        self.eqs = []
        self.b_atoms = []
        rw = {}
        if p_oracle is not None and d.ops[p_oracle] not in ('const', 'var'):
            for a in p_impl:
                if a != p_oracle and d.ops[a] not in ('const', 'var') and self.close(d.vals[a], d.vals[p_oracle]) and self.prove(
                        f'extinction probability at the epoch boundary: oracle #{p_oracle} = implementation #{a}', d.eq(p_oracle, a)):
                    rw[p_oracle] = a
                    self.eqs.append((p_oracle, a))
                    self.make_abstract(a)
                    break
        Bs = [b for b in B_impl if d.ops[b] not in ('const', 'var')]
        for c2 in (c2_oracle or []):
            c2r = d.substitute([c2], rw)[0] if rw else c2
            if d.ops[c2r] in ('const', 'var'):
                continue
            for b in Bs:
                if self.close(d.vals[c2r], d.vals[b]) and (c2r == b or self.prove(
                        f'the oracle\'s c2 #{c2r} = the implementation\'s B_i #{b}', d.eq(c2r, b))):
                    if c2r != b:
                        rw[c2] = b
                        self.note_eq(c2, c2r, b)
                    if b not in self.b_atoms:
                        self.b_atoms.append(b)
                    break
        if self.b_atoms and len(Bs) > len(self.b_atoms):  # identical rates across a boundary without rho-sampling
            rw = self.mobius_phase(list(B_impl), self.b_atoms, rw, [goal] + self.aux_logs)
        if rw:
            I, O = d.substitute([I, O], rw)
            goal = d.eq(I, O)
            cone = set(d.topo([goal]))
            self.aux_logs = [n for n in dict.fromkeys(d.substitute(self.aux_logs, rw)) if n not in cone]
            aux_cone = set(d.topo(self.aux_logs))
        self.sign_phase([b for b in t.denominators if b in aux_cone and b not in cone], 'auxiliary denominator')
        self.defined = self.sign_phase([b for b in t.denominators if b in cone])
        # log arguments that implementation and oracle share (up to a proved equality) first
        oside = set(d.topo([O]))
        for L1 in [n for n in self.uf_nodes([I], 'log') if n not in oside]:
            g1 = d.args[L1][1]
            for L2 in [n for n in self.uf_nodes([O], 'log')]:
                g2 = d.args[L2][1]
                if g1 != g2 and self.close(d.vals[g1], d.vals[g2]) and self.prove(f'log arguments agree #{L1}~#{L2}', d.eq(g1, g2)):
                    self.fact(d.eq(g1, g2))
                    self.fact(d.eq(L1, L2))  # congruence
                    break
        self.undefined = []
        doms = [(kind, x) for kind, x in t.domains if x in cone and d.ops[x] != 'var']
        doms.sort(key=lambda kx: (kx[1] not in oside, kx[1]))  # the oracle's (closed-form) arguments first
        for kind, x in doms:
            if not (d.vals[x] > 0 and self.sign(x, 'log argument' if kind == 'pos' else 'sqrt argument')):
                self.undefined.append(x)
        if rw:  # what implementation and oracle really computed (before the rewriting) has to be well defined too
            for b in [b for b in t.denominators if b in cone0 and b not in cone]:
                b_new = d.substitute([b], rw)[0]
                if not (self.transfer(b, b_new, 'denominator') if b_new != b else self.sign(b, 'denominator')):
                    self.defined = False
                    self.failed.append((f'denominator #{b} (rewritten: #{b_new}): sign not transferred', 'unknown'))
            for kind, x in [(k, x) for k, x in t.domains if x in cone0 and x not in cone and d.ops[x] != 'var']:
                x_new = d.substitute([x], rw)[0]
                what_ = 'log argument' if kind == 'pos' else 'sqrt argument'
                if not (d.vals[x] > 0 and (self.transfer(x, x_new, what_) if x_new != x else self.sign(x, what_))):
                    self.undefined.append(x)
        self.log_phase(I, O)
        hyps = [f for f in self.facts if any(d.ops[a] == 'uf' and d.args[a][0] == 'log' for a in self.atoms([f]))]
        forms = self.generalise([goal] + hyps)
        return Goal(what, forms[0], hyps=forms[1:], signature=signature)

    # -- relational use: two runs of the real code on shared symbols (refined skyline vs the skyline it refines)
    def select_branches(self, I):
        """torch.where selections whose condition is decided on the whole region are replaced by the selected branch"""
        d = self.d
        sel = {}
        for n in d.topo([I]):
            if d.ops[n] == 'ite':
                c, a, b = d.args[n]
                if d.ops[a] == 'const' and d.ops[b] == 'const':
                    continue
                c2 = d.substitute([c], sel)[0] if sel else c
                holds = bool(d.vals[c2])
                if self.prove(f'selection #{n} takes the same branch on the whole region', c2 if holds else d.not_(c2), hyps=[]):
                    sel[n] = d.substitute([a if holds else b], sel)[0] if sel else (a if holds else b)
        return d.substitute([I], sel)[0] if sel else I

    def make_abstract(self, x, name='p'):
        """an extinction probability both runs share: its bounds are PROVED on the expression itself, then it is generalised to a
        fresh real variable in every later lemma (a proof of the generalisation is a proof of the instance)"""
        d = self.d
        if d.ops[x] in ('const', 'var') or x in self.abstract:
            return
        self.lemma(f'extinction probability #{x} > 0', d.lt(0, x))
        self.lemma(f'extinction probability #{x} < 1', d.lt(x, 1))
        self.abstract[x] = name

    def prove_generalising(self, what, node, extra, hyps=None, name='B'):
        """one lemma in which the nodes `extra` are generalised to fresh variables as well (retried without, if that fails)"""
        d = self.d
        tmp = {x: name for x in extra if x not in self.abstract and d.ops[x] not in ('const', 'var')}
        self.abstract.update(tmp)
        try:
            ok = self.prove(what, node, hyps)
        finally:
            for x in tmp:
                del self.abstract[x]
        if not ok and tmp and hyps is None:
            ok = self.prove(what + ' (nothing else generalised)', node)
        return ok

    def note_eq(self, a, a2, b):
        """a2 (= a rewritten with the earlier equalities) == b was proved: a == b follows by congruence (one cheap lemma in which
        both sides of every earlier equality are generalised); the pair is kept for `transfer`"""
        d = self.d
        if a2 != a:
            hyps = [d.eq(a2, b)] + [d.eq(x, y) for x, y in self.eqs]
            if not self.prove_generalising(f'#{a} = #{b} (congruence)', d.eq(a, b), [z for xy in self.eqs for z in xy], hyps=hyps, name='t'):
                return
        self.eqs.append((a, b))

    def p_phase(self, p_fine, p_coarse, shared_B=()):
        """extinction probabilities p_i at the epoch boundaries, most recent first.  A p_i of the refined run that the coarse run
        computes too (same expression) is generalised; one that agrees with a p_j of the coarse run at the witness is PROVED equal
        to it and the refined result is rewritten with that equality, so that everything older becomes the same expression (the
        equality has then done its work and is not kept among the facts).  While such an equality is proved, constants B_i that both
        runs compute (same expression) are generalised as well: the semigroup property of the extinction probability holds for
        every initial condition.  Returns the rewriting {node of the refined run: node of the coarse run}."""
        d = self.d
        rw = {}
        for k, a in enumerate(p_fine):
            last = k == len(p_fine) - 1
            a2 = d.substitute([a], rw)[0] if rw else a
            if d.ops[a2] == 'const':
                continue
            if a2 in p_coarse:
                if not last:
                    self.make_abstract(a2)
                continue
            for b in p_coarse:
                if self.close(d.vals[a2], d.vals[b]) and self.prove_generalising(
                        f'extinction probabilities agree: refined #{a2} = coarse #{b}', d.eq(a2, b), shared_B):
                    rw[a] = b
                    self.note_eq(a, a2, b)
                    if not last:
                        self.make_abstract(b)
                    break
        return rw

    def mobius_phase(self, B_fine, B_coarse, rw, roots):
        """constants B_i of the refined run, most recent first.  Across a NEW boundary (rho = 0, same rates on both sides) B_i is
        the Moebius image (E (1 + B_{i+1}) - (1 - B_{i+1})) / (E (1 + B_{i+1}) + (1 - B_{i+1})) of B_{i+1}, E = exp(A_i dt) one of
        the exp applications of the run.  Candidates are found on the witness, the relation is PROVED, and the refined result is
        rewritten with it: the rates then no longer occur in B_i."""
        d = self.d
        exps = self.uf_nodes(roots, 'exp')
        prev = None
        for b1 in B_fine:
            b2 = d.substitute([b1], rw)[0] if rw else b1
            if prev is not None and b2 not in B_coarse and d.ops[b2] not in ('const', 'var'):
                bv = d.vals[prev]
                for e in exps:
                    ev = d.vals[e]
                    den = ev * (1.0 + bv) + (1.0 - bv)
                    if den == 0 or not self.close((ev * (1.0 + bv) - (1.0 - bv)) / den, d.vals[b2]):
                        continue
                    up, dn = d.mul(e, d.add(1, prev)), d.sub(1, prev)
                    M = d.div(d.sub(up, dn), d.add(up, dn))
                    if self.prove_generalising(f'B_i #{b2} is the Moebius image of B_(i+1) #{prev} under #{e}', d.eq(b2, M), [prev]):
                        rw[b1] = M
                        self.note_eq(b1, b2, M)
                        b2 = M
                        break
            prev = b2
        return rw

    def exp_relations(self, node):
        """the laws of exp between the exp applications that occur in `node` itself (their arguments are linear in the inputs):
        equal / opposite arguments and x = y + z, each PROVED before the law is instantiated.  exp_phase relates every application
        to earlier representatives; a lemma that mentions few applications is closed faster from the relations among just those."""
        d = self.d
        es = [a for a in sorted(self.atoms([node])) if d.ops[a] == 'uf' and d.args[a][0] == 'exp']
        done = getattr(self, '_exp_rel_done', None)
        if done is None:
            done = self._exp_rel_done = set()
        arg = lambda e: d.args[e][1]  # noqa: E731
        for x, y in itertools.combinations(es, 2):
            if (x, y) in done:
                continue
            done.add((x, y))
            if self.close(d.vals[arg(x)], d.vals[arg(y)]) and self.prove(f'exp arguments agree #{x}~#{y}', d.eq(arg(x), arg(y)), hyps=[]):
                self.fact(d.eq(x, y))
            elif self.close(d.vals[arg(x)], -d.vals[arg(y)]) and self.prove(f'exp arguments opposite #{x}~#{y}',
                                                                            d.eq(arg(x), d.neg(arg(y))), hyps=[]):
                self.fact(d.eq(d.mul(x, y), 1))
        for x in es:
            for y, z in itertools.combinations([e for e in es if e != x], 2):
                if (x, y, z) in done:
                    continue
                done.add((x, y, z))
                if self.close(d.vals[arg(x)], d.vals[arg(y)] + d.vals[arg(z)]) and abs(d.vals[arg(y)]) > 1e-12 and abs(d.vals[arg(z)]) > 1e-12 \
                        and self.prove(f'exp arguments add #{x}=#{y}+#{z}', d.eq(arg(x), d.add(arg(y), arg(z))), hyps=[]):
                    self.fact(d.eq(x, d.mul(y, z)))

    def transfer(self, x, x_new, what):
        """sign of a node of the refined run from the (proved) sign of its rewritten form and the (proved) equalities"""
        d = self.d
        v = d.vals[x]
        if v != v or v == 0:
            return False
        mk = (lambda z: d.lt(0, z)) if v > 0 else (lambda z: d.lt(z, 0))
        if mk(x_new) not in self.facts and mk(x_new) != d.TRUE and not self.sign(x_new, what + ' (rewritten form)'):
            return False
        hyps = [mk(x_new)] + [d.eq(a, b) for a, b in self.eqs]
        if self.prove_generalising(f'{what} #{x} {"> 0" if v > 0 else "< 0"} (as its rewritten form #{x_new})', mk(x),
                                   [z for ab in self.eqs for z in ab], hyps=hyps, name='t'):
            self.fact(mk(x))
            return True
        return False

    def log_phase_rel(self, I, O, b_atoms=()):
        """log applications of the refined run against those of the coarse run: log g2 = log g1 [+ log gb [+ log gc]] where
        g2 = g1 [gb [gc]] is proved (gb, gc: lineage-through-new-boundary terms) and every factor is proved positive.  While a
        product relation is proved the constants B_i that were not rewritten are generalised (the relation holds for every B)."""
        d = self.d
        li = self.uf_nodes([I], 'log')
        lo = self.uf_nodes([O], 'log')
        only_i = [n for n in li if n not in lo]
        only_o = [n for n in lo if n not in li]
        for L in only_i + only_o:
            g = d.args[L][1]
            if self.close(d.vals[g], 1.0) and self.prove(f'log argument #{g} is one', d.eq(g, 1)):
                self.fact(d.eq(L, 0))  # log 1 = 0
        pool = only_i + [n for n in self.aux_logs if n not in only_i and n not in lo]
        # twins: applications (of either run) whose arguments agree at the witness, e.g. a birth exactly on a boundary and the
        # lineage-through-boundary term, or two tips at the same height: congruence once the arguments are proved equal
        reps = []
        for L in only_o + pool:
            g = d.args[L][1]
            for R in reps:
                gr = d.args[R][1]
                if self.close(d.vals[g], d.vals[gr]):
                    self.exp_relations(d.eq(g, gr))
                    if self.prove_generalising(f'log arguments agree #{L}~#{R}', d.eq(g, gr), b_atoms):
                        self.fact(d.eq(L, R))  # congruence
                        break
            else:
                reps.append(L)
        unpaired = []
        for L2 in only_o:
            g2 = d.args[L2][1]
            v2 = d.vals[g2]
            found = False
            for L1 in only_i:
                g1 = d.args[L1][1]
                if self.close(d.vals[g1], v2) and self.prove(f'log arguments agree #{L1}~#{L2}', d.eq(g1, g2)):
                    self.fact(d.eq(L1, L2))  # congruence
                    found = True
                    break
            for k in (2, 3):
                if found:
                    break
                for combo in itertools.combinations(pool, k):
                    if not any(L in only_i for L in combo):
                        continue
                    gs = [d.args[L][1] for L in combo]
                    if not self.close(math.prod(d.vals[g] for g in gs), v2):
                        continue
                    prod_, sum_ = gs[0], combo[0]
                    for g, L in zip(gs[1:], combo[1:]):
                        prod_, sum_ = d.mul(prod_, g), d.add(sum_, L)
                    names = ' * '.join(f'#{L}' for L in combo)
                    self.exp_relations(d.eq(prod_, g2))
                    if self.prove_generalising(f'log arguments: {names} = #{L2}', d.eq(prod_, g2), b_atoms) \
                            and all(self.positive(g) for g in gs):
                        self.fact(d.eq(sum_, L2))  # log x + log y (+ log z) = log(xy(z)), all factors > 0
                        found = True
                        break
            if not found:
                unpaired.append(L2)
        return unpaired

    def equal_rel(self, I, O, signature, what, p_fine=(), p_coarse=(), B_fine=(), B_coarse=(), built=None):
        """I: refined run, O: coarse run (both the real code on shared symbols); p_* / B_*: the p_i and B_i each run computed, most
        recent epoch first (only used to choose lemmas; every lemma is proved by the solver); built: the DAG nodes the two runs built"""
        d = self.d
        I0 = self.select_branches(I)
        O = self.select_branches(O)
        goal0 = d.eq(I0, O)
        cone0 = set(d.topo([goal0]))
        # log applications the runs built but multiplied by a zero lineage count are still available as auxiliary atoms
        aux0 = [n for n in (built if built is not None else range(len(d.ops))) if d.ops[n] == 'uf' and d.args[n][0] == 'log' and n not in cone0
                and d.ops[d.args[n][1]] not in ('var', 'const') and d.vals[d.args[n][1]] > 0]
        self.sqrt_phase([goal0] + aux0)
        self.exp_phase([goal0] + aux0)
        self.eqs = []
        rw = self.p_phase(list(p_fine), list(p_coarse), [x for x in B_fine if x in B_coarse])
        rw = self.mobius_phase(list(B_fine), list(B_coarse), rw, [goal0] + aux0)
        I = d.substitute([I0], rw)[0] if rw else I0
        aux = d.substitute(aux0, rw) if rw else aux0
        goal = d.eq(I, O)
        cone = set(d.topo([goal]))
        self.aux_logs = [n for n in dict.fromkeys(aux) if n not in cone]
        aux_cone = set(d.topo(self.aux_logs))
        b_atoms = [x for x in dict.fromkeys(list(B_coarse) + (d.substitute([b for b in B_fine if b not in rw], rw) if rw else list(B_fine)))
                   if d.ops[x] not in ('const', 'var')]

        def denominators(nodes):  # every divisor below these nodes, and every divisor the engine recorded while folding x/x
            return list(dict.fromkeys([d.args[n][1] for n in sorted(nodes) if d.ops[n] == 'div' and d.ops[d.args[n][1]] != 'const']
                                      + [b for b in self.t.denominators if b in nodes]))

        def log_args(nodes):
            return [(d.args[n][0], d.args[n][1]) for n in sorted(nodes)
                    if d.ops[n] == 'uf' and d.args[n][0] in ('log', 'sqrt') and d.ops[d.args[n][1]] not in ('var', 'const')]

        self.sign_phase([b for b in denominators(aux_cone) if b not in cone], 'auxiliary denominator')
        self.defined = self.sign_phase(denominators(cone))
        self.undefined = []
        for kind, x in log_args(cone):
            if not (d.vals[x] > 0 and self.sign(x, kind + ' argument')):
                self.undefined.append(x)
        # what the refined run really computed (before the rewriting) has to be well defined too
        if rw:
            for b in denominators(cone0):
                if b not in cone:
                    b_new = d.substitute([b], rw)[0]
                    if not (self.transfer(b, b_new, 'denominator') if b_new != b else self.sign(b, 'denominator')):
                        self.defined = False
                        self.failed.append((f'denominator #{b} of the refined run (rewritten: #{b_new}): sign not transferred', 'unknown'))
            for kind, x in log_args(cone0):
                if x not in cone:
                    x_new = d.substitute([x], rw)[0]
                    if not (d.vals[x] > 0 and (self.transfer(x, x_new, kind + ' argument') if x_new != x else self.sign(x, kind + ' argument'))):
                        self.undefined.append(x)
        self.unpaired = self.log_phase_rel(I, O, b_atoms)
        hyps = [f for f in self.facts if any(d.ops[a] == 'uf' and d.args[a][0] == 'log' for a in self.atoms([f]))]
        forms = self.generalise([goal] + hyps)
        return Goal(what, forms[0], hyps=forms[1:], signature=signature)


# =============================================================== configurations
SIG_ONE = 'PiecewiseConstantBirthDeath.log_prob:one-epoch-differs-from-constant-rate-oracle'
SIG_REL = 'PiecewiseConstantBirthDeath.log_prob:relative_times:origin-multiplied-by-itself'
SIG_ALL0 = 'PiecewiseConstantBirthDeath.log_prob:all-tips-at-time-0-and-rho-0:psi-sampling-terms-omitted'
SIG_REFINE = 'PiecewiseConstantBirthDeath.log_prob:changes-when-an-epoch-is-split'
SIG_TIE = 'PiecewiseConstantBirthDeath.log_prob:serial-tip-exactly-on-epoch-boundary'
SIG_RM = 'PiecewiseConstantBirthDeath.log_prob:removal_probability-with-several-epochs:raises'
SIG_RHOB = 'PiecewiseConstantBirthDeath.log_prob:rho-sampling-at-an-inner-boundary-differs-from-two-epoch-oracle'
SIG_RHOB_REL = 'PiecewiseConstantBirthDeath.log_prob:rho-sampling-at-an-inner-boundary-with-relative-times-differs-from-two-epoch-oracle'
SIG_DISTINCT = 'PiecewiseConstantBirthDeath.log_prob:two-epochs-with-distinct-rates-differ-from-two-epoch-oracle'
SIG_REL_EDGE = 'PiecewiseConstantBirthDeath.log_prob:relative_times-with-root-edge:boundaries-not-relative-to-the-origin'
SIG_BD0 = 'BirthDeath.log_prob:differs-from-constant-rate-oracle:tips-at-time-0'
SIG_BD = 'BirthDeath.log_prob:differs-from-constant-rate-oracle'
SIG_NAN = 'PiecewiseConstantBirthDeath.log_prob:nan:minus-inf-times-zero-for-a-masked-rho-tip'


def cfg_label(c):
    return (f"{c['cls']} m={c['m']} n={c['n']} survival={c['survival']} removal={c['removal']} origin={c['origin']} "
            f"times={c['times']} rho={c['rho_shape']} split={c.get('split')}" + (f" cell={c['cell']}" if c.get('cell') else '')
            + (' rho-sampling at the inner boundary' if c.get('rhob') else '') + (' distinct rates' if c.get('distinct') else ''))


def var_names(c):
    n = c['n']
    names = ['lam', 'mu', 'psi', 'rho']
    if c['origin'] == 'given':
        names.append('origin')
    elif c['origin'] == 'root_edge':
        names.append('edge')
    if c['removal']:
        names.append('r')
    if c['m'] == 2 and c['times'] in ('abs', 'rel'):
        names.append('tb')
    if c.get('rhob'):
        names.append('rhob')
    if c.get('distinct'):
        names += ['lam0', 'mu0', 'psi0']
    return names + [f's{i}' for i in range(n)] + [f'c{j}' for j in range(n - 1)]


def initial_witness(c):
    n = c['n']
    W = {'lam': 1.7, 'mu': 0.6, 'psi': 0.4, 'rho': 0.3, 'origin': 3.1 + 0.7 * (n - 2), 'edge': 0.9, 'r': 0.45, 'rhob': 0.35,
         'lam0': 1.3, 'mu0': 0.8, 'psi0': 0.5}
    for i in range(n):
        W[f's{i}'] = 0.2 + 0.3 * i
    for j in range(n - 1):
        W[f'c{j}'] = 1.5 + 0.7 * j
    W['tb'] = 0.35 if c['times'] == 'rel' else 1.3
    sp = c.get('split') or {}
    if c.get('cell'):
        W.update(cell_witness(c))
    if sp.get('rho0') is True:
        W['rho'] = 0.0
    if sp.get('tip0') is True:
        W['s0'] = 0.0
    if sp.get('tip0') == 'all':
        for i in range(n):
            W[f's{i}'] = 0.0
    if sp.get('corner'):
        W['rho'], W['r'] = 1.0, 0.0
    return {k: W[k] for k in var_names(c)}


def parse_cell(cell):
    """'0=s0<s1<B<c0' -> (items, relations); B is the height of the epoch boundary."""
    import re

    toks = re.split(r'(<=|<|=)', cell.replace(' ', ''))
    return toks[0::2], toks[1::2]


def cell_witness(c):
    """generic heights realising the cell (distinct unless the cell says '=')"""
    items, rels = parse_cell(c['cell'])
    steps = [0.3125, 0.46875, 0.59375, 0.734375, 0.375, 0.53125, 0.671875, 0.4375]  # dyadic: sums are exact in float64
    vals = {}
    v = 0.0 if items[0] == '0' else 0.234375
    vals[items[0]] = v
    for k, (it, rel) in enumerate(zip(items[1:], rels)):
        if rel != '=':
            v = v + steps[k % len(steps)]
        vals[it] = v
    n = c['n']
    W = {k: x for k, x in vals.items() if k not in ('0', 'B')}
    root = W[f'c{n-2}']
    if c['origin'] == 'given':
        origin = max(vals.values()) + 0.828125
        W['origin'] = origin
    elif c['origin'] == 'root_edge':
        W['edge'] = max(vals.values()) + 0.828125 - root
        origin = root + W['edge']
    else:
        origin = root
    if 'B' in vals:
        W['tb'] = (origin - vals['B']) / origin if c['times'] == 'rel' else origin - vals['B']
    return W


def boundary_height(d, V, c):
    o = origin_node(d, V, c)
    if c['times'] == 'rel':
        return d.sub(o, d.mul(V['tb'], o))
    return d.sub(o, V['tb'])


def cell_constraints(c, d, V):
    items, rels = parse_cell(c['cell'])

    def node(it):
        if it == '0':
            return 0
        if it == 'B':
            return boundary_height(d, V, c)
        return V[it]

    cs = []
    for a, b, rel in zip(items, items[1:], rels):
        na, nb = node(a), node(b)
        cs.append(d.lt(na, nb) if rel == '<' else (d.le(na, nb) if rel == '<=' else d.eq(na, nb)))
    return cs


def origin_node(d, V, c):
    n = c['n']
    if c['origin'] == 'given':
        return V['origin']
    if c['origin'] == 'root_edge':
        return d.add(V['edge'], V[f'c{n-2}'])
    return V[f'c{n-2}']


def domain_for(c):
    n = c['n']

    def domain(d, V):
        lam, mu, psi, rho = V['lam'], V['mu'], V['psi'], V['rho']
        cs = [d.lt(0, lam), d.lt(0, mu), d.le(0, psi), d.le(0, rho), d.le(rho, 1),
              d.or_(d.lt(0, psi), d.not_(d.eq(lam, mu)))]
        if c.get('rhob'):
            cs += [d.lt(0, V['rhob']), d.lt(V['rhob'], 1)]
        if c.get('distinct'):
            cs += [d.lt(0, V['lam0']), d.lt(0, V['mu0']), d.lt(0, V['psi0']), d.lt(0, psi)]
        if c['removal']:
            cs += [d.le(0, V['r']), d.le(V['r'], 1)]
            if (c.get('split') or {}).get('corner'):
                cs += [d.eq(rho, 1), d.eq(V['r'], 0)]  # complete sampling at present, no removal
            else:
                cs.append(d.or_(d.lt(rho, 1), d.lt(0, V['r'])))
        for i in range(n):
            s = V[f's{i}']
            cs.append(d.le(0, s))
            cs.append(d.or_(d.lt(0, psi), d.and_(d.eq(s, 0), d.lt(0, rho))))  # a psi-sampled tip needs psi > 0
        # caterpillar ((0,1),2): every 2/3-taxon tree is one up to relabelling; the density only sees heights
        cs += [d.lt(V['s0'], V['c0']), d.lt(V['s1'], V['c0'])]
        for j in range(1, n - 1):
            cs += [d.le(V[f'c{j-1}'], V[f'c{j}']), d.lt(V[f's{j+1}'], V[f'c{j}'])]
        if c['origin'] == 'given':
            cs.append(d.le(V[f'c{n-2}'], V['origin']))
        elif c['origin'] == 'root_edge':
            cs.append(d.le(0, V['edge']))
        if 'tb' in V:
            if c['times'] == 'rel':
                cs += [d.lt(0, V['tb']), d.lt(V['tb'], 1)]
            else:
                cs += [d.lt(0, V['tb']), d.lt(V['tb'], origin_node(d, V, c))]
        sp = c.get('split') or {}
        if c.get('cell'):
            cs += cell_constraints(c, d, V)
        if sp.get('rho0') is True:
            cs.append(d.eq(rho, 0))
        elif sp.get('rho0') is False:
            cs.append(d.lt(0, rho))
        if sp.get('tip0') is True:
            cs.append(d.eq(V['s0'], 0))
        elif sp.get('tip0') is False:
            cs.append(d.lt(0, V['s0']))
        elif sp.get('tip0') == 'all':
            cs += [d.eq(V[f's{i}'], 0) for i in range(n)]
        return cs

    return domain


def build_dist(c, mk):
    """the distribution under test; mk(list of names / floats) -> 1-d tensor (symbolic or plain)"""
    m = c['m']
    if c['cls'] == 'BD':
        from torchtree.evolution.birth_death import BirthDeath

        return BirthDeath(mk(['lam']), mk(['mu']), mk(['psi']), mk(['rho']), mk(['origin']), survival=c['survival'],
                          validate_args=False)
    from torchtree.evolution.bdsk import PiecewiseConstantBirthDeath

    kw = dict(survival=c['survival'], validate_args=False)
    kw['rho'] = mk(['rho']) if c['rho_shape'] == 'short' else mk((['rhob'] if c.get('rhob') else [0.0] * (m - 1)) + ['rho'])
    if c['origin'] == 'given':
        kw['origin'] = mk(['origin'])
    elif c['origin'] == 'root_edge':
        kw['origin'] = mk(['edge'])
        kw['origin_is_root_edge'] = True
    if c['removal']:
        kw['removal_probability'] = mk(['r'] * m)
    if c['times'] != 'none':
        kw['times'] = mk([0.0] + (['tb'] if m == 2 else []))
        kw['relative_times'] = c['times'] == 'rel'
    if c.get('distinct'):  # epoch 0 is the older one (times run forward from the origin)
        return PiecewiseConstantBirthDeath(mk(['lam0', 'lam']), mk(['mu0', 'mu']), mk(['psi0', 'psi']), **kw)
    return PiecewiseConstantBirthDeath(mk(['lam'] * m), mk(['mu'] * m), mk(['psi'] * m), **kw)


def heights_names(c):
    n = c['n']
    return [f's{i}' for i in range(n)] + [f'c{j}' for j in range(n - 1)]


def oracle_args(c, get):
    """(x0, xs, tips) for the oracle; get(name) -> number"""
    n = c['n']
    ints = [get(f'c{j}') for j in range(n - 1)]
    tips = [get(f's{i}') for i in range(n)]
    if c['origin'] == 'given':
        x0 = get('origin')
    elif c['origin'] == 'root_edge':
        x0 = get('edge') + ints[-1]
    else:
        x0 = ints[-1]  # no origin: the process starts at the root (limit of a zero-length root edge)
    return x0, ints, tips


def two_epoch(c):
    return bool(c.get('rhob') or c.get('distinct'))


def numeric_oracle(c, vals):
    x0, xs, tips = oracle_args(c, lambda k: float(vals[k]))
    if two_epoch(c):
        f = lambda k: float(vals[k])  # noqa: E731
        rec = (f('lam'), f('mu'), f('psi'))
        old = (f('lam0'), f('mu0'), f('psi0')) if c.get('distinct') else rec
        hb = x0 - f('tb') * x0 if c['times'] == 'rel' else x0 - f('tb')
        return skyline2_oracle(rec, old, f('rho'), f('rhob') if c.get('rhob') else 0.0, hb, x0, xs, tips, c['survival'])
    return stadler_oracle(float(vals['lam']), float(vals['mu']), float(vals['psi']), float(vals['rho']), x0, xs, tips,
                          c['survival'], float(vals['r']) if c['removal'] else None)


def real_value(c, vals):
    def mk(items):
        return torch.tensor([float(vals[x]) if isinstance(x, str) else float(x) for x in items], dtype=torch.float64)

    dist = build_dist(c, mk)
    return float(dist.log_prob(mk(heights_names(c))))


def replay(c, vals):
    """plain float64 tensors through the real code against the numeric oracle"""
    vals = {k: float(v) for k, v in vals.items() if k in var_names(c)}
    if set(vals) != set(var_names(c)):
        return False, 'incomplete counterexample'
    try:
        ov = float(numeric_oracle(c, vals))
    except (ValueError, ZeroDivisionError, OverflowError) as e:
        return False, f'oracle undefined at this point ({e})'
    if math.isnan(ov) or math.isinf(ov):
        return False, 'oracle undefined at this point'
    try:
        rv = real_value(c, vals)
    except Exception as e:  # the real code raises on an in-domain input
        return True, f'real code raised {type(e).__name__}: {str(e)[:160]}; oracle={ov!r}'
    if not (abs(rv - ov) <= 1e-6 * max(1.0, abs(ov))):
        return True, f'real={rv!r} oracle={ov!r}'
    return False, f'real={rv!r} oracle={ov!r} agree'


def region_signature(c, W):
    n = c['n']
    tips = [W[f's{i}'] for i in range(n)]
    if c['cls'] == 'BD':
        return SIG_BD0 if any(s == 0 for s in tips) else SIG_BD
    if all(s == 0 for s in tips) and W['rho'] == 0:
        return SIG_ALL0
    if c.get('rhob'):
        return SIG_RHOB_REL if c['times'] == 'rel' else SIG_RHOB
    if c.get('distinct'):
        return SIG_DISTINCT
    if c['times'] == 'rel':
        return SIG_REL_EDGE if c['origin'] == 'root_edge' else SIG_REL
    if c['m'] == 1:
        return SIG_ONE
    if c['removal']:
        return SIG_RM
    if 'tb' in W:
        x0 = W['origin'] if c['origin'] == 'given' else (W['edge'] + W[f'c{n-2}'] if c['origin'] == 'root_edge' else W[f'c{n-2}'])
        if any(x0 - s == W['tb'] for s in tips):
            return SIG_TIE
    return SIG_REFINE


def make_body(c, tr, verbose=False):
    dom = domain_for(c)

    def body(t, V, W):
        d = t.dag

        def mk(items):
            from symtorch import from_ids

            return from_ids(torch.tensor([V[x] if isinstance(x, str) else d.const(float(x)) for x in items], dtype=torch.int64))

        sig = region_signature(c, W)
        what = f'{cfg_label(c)}: log_prob == Stadler constant-rate density'
        if verbose:
            print(f'-- region witness {W} [{time.strftime("%X")}]', flush=True)
        caught = []
        try:
            dist = build_dist(c, mk)
            if (two_epoch(c) or c['m'] == 2) and c['cls'] == 'PCBD':
                real_log_p = dist.log_p

                def log_p(*a, **k):  # the real method, unchanged; its result is only looked at to choose a lemma
                    caught.append(real_log_p(*a, **k))
                    return caught[-1]

                dist.log_p = log_p
            impl = dist.log_prob(mk(heights_names(c)))
        except Exception as e:
            from symtorch.expr import EngineError

            if isinstance(e, EngineError):
                raise
            return [Goal(f'{what} (the real code raised {type(e).__name__}: {str(e)[:100]})', d.FALSE, signature=sig)]
        impl_end = len(d.ops)
        x0, xs, tips = oracle_args(c, lambda k: mkfloat(V[k]))
        probe = {}
        if two_epoch(c):
            f = lambda k: mkfloat(V[k])  # noqa: E731
            rec = (f('lam'), f('mu'), f('psi'))
            older = (f('lam0'), f('mu0'), f('psi0')) if c.get('distinct') else rec
            orc = skyline2_oracle(rec, older, f('rho'), f('rhob') if c.get('rhob') else 0.0, mkfloat(boundary_height(d, V, c)),
                                  x0, xs, tips, c['survival'], M=_SymMath(), probe=probe)
        else:
            orc = stadler_oracle(mkfloat(V['lam']), mkfloat(V['mu']), mkfloat(V['psi']), mkfloat(V['rho']), x0, xs, tips,
                                 c['survival'], mkfloat(V['r']) if c['removal'] else None, M=_SymMath(), probe=probe)
        if impl._ids.numel() != 1:
            return [Goal(f'{what} (result has shape {tuple(impl.shape)})', d.FALSE, signature=sig)]
        I = int(impl._ids.reshape(-1)[0])
        O = SymFloat._id(orc)
        if math.isnan(d.vals[I]) or math.isinf(d.vals[I]):
            # the real code is not finite at this witness: which log argument vanishes, and does it on the whole region?
            chain = LemmaChain(t, dom(d, V) + list(t.pcs), tr, cfg_label(c), timeout=20.0, verbose=verbose)
            chain.sqrt_phase([I])
            chain.exp_phase([I])
            chain.sign_phase(t.denominators)
            zero = [x for kind, x in t.domains if kind == 'pos' and abs(d.vals[x]) < 1e-12 and chain.prove(f'log argument #{x} is zero', d.eq(x, 0))]
            return [Goal(f'{what}: the real code returns {d.vals[I]} (log arguments proved identically zero on this region: '
                         f'{[d.to_str(x, 3) for x in zero][:2]})', d.FALSE, signature=SIG_NAN)]
        vi, vo = d.vals[I], d.vals[O]
        if not abs(vi - vo) <= 1e-7 * max(1.0, abs(vo)):
            # implementation and oracle already differ at this region's witness: no proof to attempt, the witness
            # (and the solver's own point of the region) go to the replay on the real code
            return [Goal(f'{what} (at the region witness: implementation {vi!r}, oracle {vo!r})', d.FALSE, signature=sig)]
        hint = {}
        c2s = [SymFloat._id(x) for x in probe.get('c2', []) if isinstance(x, SymFloat)]
        if caught and two_epoch(c) and isinstance(probe.get('p_boundary'), SymFloat):
            hint = dict(p_impl=[int(x) for x in caught[0][0]._ids.reshape(-1).tolist()], p_oracle=SymFloat._id(probe['p_boundary']),
                        B_impl=[int(x) for x in caught[0][2]._ids.reshape(-1).tolist()][::-1], c2_oracle=c2s)
        elif caught and c['m'] == 2 and not c['removal'] and c2s:
            hint = dict(B_impl=[int(x) for x in caught[0][2]._ids.reshape(-1).tolist()][::-1], c2_oracle=c2s)
        chain = LemmaChain(t, dom(d, V) + list(t.pcs), tr, cfg_label(c), timeout=c.get('lemma_timeout', 30.0), verbose=verbose)
        g = chain.equal(I, O, sig, what, impl_end, **hint)
        open_lemmas = [w for w, st in chain.failed if st == 'unknown']
        if open_lemmas and chain.defined and not chain.undefined:
            # were the open lemmas needed at all?  (the final step is cheap to try)
            st, _, _ = prove(d, dom(d, V) + list(t.pcs) + g.hyps, g.node, timeout=20.0, tr=tr, label=what, parallel=True)
            if st == 'proved':
                open_lemmas = []
        if open_lemmas:  # one retry with a long timeout (machine load)
            chain = LemmaChain(t, dom(d, V) + list(t.pcs), tr, cfg_label(c), timeout=90.0, verbose=verbose)
            g = chain.equal(I, O, sig, what, impl_end, **hint)
            open_lemmas = [w for w, st in chain.failed if st == 'unknown']
        if open_lemmas:
            g.label += f' [lemmas the portfolio left open: {open_lemmas[:3]}]'
        goals = [g]
        # well-definedness on the whole region: every denominator non-zero, every log/sqrt argument in its domain
        bad = [f'#{x}' for x in chain.undefined] + ([] if chain.defined else ['a denominator'])
        if bad:
            goals.append(Goal(f'{cfg_label(c)}: well-defined (sign lemma failed for {bad[:3]})',
                              d.and_(*[d.lt(0, x) for x in chain.undefined]) if chain.undefined and chain.defined else d.FALSE,
                              signature=sig + ':well-defined'))
        if verbose:
            print('   lemmas proved', chain.nproved, 'failed', chain.failed, flush=True)
        return goals

    return body


def run_density_task(c, tr, verbose=False):
    from torchtree.evolution.bdsk import PiecewiseConstantBirthDeath as P
    from torchtree.evolution.birth_death import BirthDeath as B

    if c['cls'] == 'BD':
        tr.fn(B.log_prob, B.log_p, B.log_q)
    else:
        tr.fn(P.log_prob, P.log_p, P.log_q, P.p0)
    label = cfg_label(c)
    ex = Explorer(initial_witness(c), domain_for(c), make_body(c, tr, verbose), tr, max_regions=c.get('budget', 80),
                  timeout=c.get('timeout', 30.0), label=label, check_defined=False, deadline=time.time() + 800)
    out = ex.run()
    for s in out.region_samples[:1]:
        s['case'] = label
        tr.sample(s)
    triage(out, lambda vals: replay(c, vals), tr, label, {'cfg': c})
    return out


# ===================================================== refinement inside a skyline (relational)
# Two runs of the REAL PiecewiseConstantBirthDeath.log_prob on shared symbols: a skyline with `base` epochs (base = 2: DISTINCT
# symbolic rates lam0,mu0,psi0 in the older and lam,mu,psi in the recent epoch, boundary at forward time tb) and the skyline obtained
# by splitting one of its epochs at a symbolic new boundary (forward time tn; base = 1: two new boundaries tn < tm) and repeating
# that epoch's rates, rho = 0 at the new boundary.  No oracle is involved: the two results must be equal.
SIG_SKY = 'PiecewiseConstantBirthDeath.log_prob:changes-when-an-epoch-of-a-skyline-is-split'
SIG_RHO2 = 'PiecewiseConstantBirthDeath.log_prob:rho-sampled-tips-at-two-sampling-times:raises'
SIG_SKY_RAISES = 'PiecewiseConstantBirthDeath.log_prob:raises-on-a-two-epoch-skyline'


def refine_cfg(**kw):
    c = dict(kind='refine', cls='PCBD', base=2, split='old', n=2, survival=True, rhob=False, rho0=False, cell=None)
    c.update(kw)
    return c


def refine_label(c):
    how = {'old': 'older epoch split', 'recent': 'recent epoch split', 'both': 'split in three'}[c['split']]
    return (f"refinement inside a skyline: {c['base']} epoch(s){' with distinct rates' if c['base'] == 2 else ''} -> 3, {how}, "
            f"n={c['n']} survival={c['survival']} rho{'=0' if c['rho0'] else '>0'}"
            + (' rho-sampling at the old boundary' if c['rhob'] else '') + f" cell={c['cell']}")


def refine_var_names(c):
    n = c['n']
    names = ['lam', 'mu', 'psi', 'rho', 'origin']
    if c['base'] == 2:
        names += ['lam0', 'mu0', 'psi0', 'tb', 'tn']
        if c['rhob']:
            names.append('rhob')
    else:
        names += ['tn', 'tm']
    return names + [f's{i}' for i in range(n)] + [f'c{j}' for j in range(n - 1)]


REFINE_HEIGHT_OF = {'B': 'tb', 'N': 'tn', 'M': 'tm'}  # cell item -> forward time of that boundary (height = origin - time)


def refine_witness(c):
    W = {'lam': 1.7, 'mu': 0.6, 'psi': 0.4, 'rho': 0.0 if c['rho0'] else 0.3, 'rhob': 0.35, 'lam0': 1.3, 'mu0': 0.8, 'psi0': 0.5}
    items, rels = parse_cell(c['cell'])
    steps = [0.3125, 0.46875, 0.59375, 0.734375, 0.375, 0.53125, 0.671875, 0.4375]  # dyadic: sums are exact in float64
    vals = {}
    v = 0.0 if items[0] == '0' else 0.234375
    vals[items[0]] = v
    for k, (it, rel) in enumerate(zip(items[1:], rels)):
        if rel != '=':
            v = v + steps[k % len(steps)]
        vals[it] = v
    origin = max(vals.values()) + 0.828125
    W['origin'] = origin
    for it, x in vals.items():
        if it in REFINE_HEIGHT_OF:
            W[REFINE_HEIGHT_OF[it]] = origin - x
        elif it != '0':
            W[it] = x
    missing = [k for k in refine_var_names(c) if k not in W]
    if missing:
        raise ValueError(f'cell {c["cell"]} does not place {missing}')
    return {k: W[k] for k in refine_var_names(c)}


def refine_cell_constraints(c, d, V):
    items, rels = parse_cell(c['cell'])

    def node(it):
        if it == '0':
            return 0
        if it in REFINE_HEIGHT_OF:
            return d.sub(V['origin'], V[REFINE_HEIGHT_OF[it]])
        return V[it]

    cs = []
    for a, b, rel in zip(items, items[1:], rels):
        na, nb = node(a), node(b)
        cs.append(d.lt(na, nb) if rel == '<' else (d.le(na, nb) if rel == '<=' else d.eq(na, nb)))
    return cs


def refine_domain_for(c, with_cell=True):
    n = c['n']

    def domain(d, V):
        cs = [d.lt(0, V[k]) for k in ('lam', 'mu', 'psi', 'lam0', 'mu0', 'psi0') if k in V]
        cs += [d.eq(V['rho'], 0)] if c['rho0'] else [d.lt(0, V['rho']), d.le(V['rho'], 1)]
        if c['rhob']:
            cs += [d.lt(0, V['rhob']), d.lt(V['rhob'], 1)]
        for i in range(n):
            cs.append(d.le(0, V[f's{i}']))
        cs += [d.lt(V['s0'], V['c0']), d.lt(V['s1'], V['c0'])]
        for j in range(1, n - 1):
            cs += [d.le(V[f'c{j-1}'], V[f'c{j}']), d.lt(V[f's{j+1}'], V[f'c{j}'])]
        cs.append(d.le(V[f'c{n-2}'], V['origin']))
        order = {'old': ['tn', 'tb'], 'recent': ['tb', 'tn'], 'both': ['tn', 'tm']}[c['split']]
        cs += [d.lt(0, V[order[0]]), d.lt(V[order[0]], V[order[1]]), d.lt(V[order[1]], V['origin'])]
        if with_cell:
            cs += refine_cell_constraints(c, d, V)
        return cs

    return domain


def refine_stages(c):
    """the runs that are compared pairwise, coarse first"""
    return ['skyline', 'split at M', 'refined'] if c['base'] == 1 else ['skyline', 'refined']


def build_refine(c, mk, stage):
    """the skyline (stage 'skyline'), its refinement ('refined'), or for one epoch -> three the intermediate two-epoch skyline that
    has only the more recent of the two new boundaries ('split at M'); mk(list of names / floats) -> 1-d tensor"""
    from torchtree.evolution.bdsk import PiecewiseConstantBirthDeath

    kw = dict(survival=c['survival'], validate_args=False, origin=mk(['origin']))
    if c['base'] == 1:
        times = {'skyline': [0.0], 'split at M': [0.0, 'tm'], 'refined': [0.0, 'tn', 'tm']}[stage]
        reps = len(times)
        kw['rho'] = mk([0.0] * (reps - 1) + ['rho'])
        kw['times'] = mk(times)
        return PiecewiseConstantBirthDeath(mk(['lam'] * reps), mk(['mu'] * reps), mk(['psi'] * reps), **kw)
    rb = 'rhob' if c['rhob'] else 0.0
    if stage == 'skyline':
        which, kw['times'], kw['rho'] = [0, 1], mk([0.0, 'tb']), mk([rb, 'rho'])
    elif c['split'] == 'old':
        which, kw['times'], kw['rho'] = [0, 0, 1], mk([0.0, 'tn', 'tb']), mk([0.0, rb, 'rho'])
    else:
        which, kw['times'], kw['rho'] = [0, 1, 1], mk([0.0, 'tb', 'tn']), mk([rb, 0.0, 'rho'])
    rates = [[('lam0', 'lam')[e] for e in which], [('mu0', 'mu')[e] for e in which], [('psi0', 'psi')[e] for e in which]]
    return PiecewiseConstantBirthDeath(mk(rates[0]), mk(rates[1]), mk(rates[2]), **kw)


def refine_real_values(c, vals):
    def mk(items):
        return torch.tensor([float(vals[x]) if isinstance(x, str) else float(x) for x in items], dtype=torch.float64)

    return [float(build_refine(c, mk, stage).log_prob(mk(heights_names(c)))) for stage in ('skyline', 'refined')]


def refine_replay(c, vals):
    """plain float64 tensors through the real code, twice: the skyline and its refinement"""
    vals = {k: float(v) for k, v in vals.items() if k in refine_var_names(c)}
    if set(vals) != set(refine_var_names(c)):
        return False, 'incomplete counterexample'
    o = vals['origin']
    new_b = [o - vals[k] for k in (('tn', 'tm') if c['base'] == 1 else ('tn',))]
    if any(abs(vals[f's{i}'] - h) <= 1e-12 for i in range(c['n']) for h in new_b):
        return False, 'a tip is sampled exactly at the new boundary (excluded by the property)'
    try:
        coarse, fine = refine_real_values(c, vals)
    except Exception as e:  # the real code raises on an in-domain input
        return True, f'real code raised {type(e).__name__}: {str(e)[:160]}'
    if math.isnan(coarse) or math.isinf(coarse):
        if math.isnan(fine) or (math.isinf(fine) and fine == coarse):
            return False, f'both runs are not finite here ({coarse!r}, {fine!r})'
        return True, f'skyline={coarse!r} refinement={fine!r}'
    if not (abs(fine - coarse) <= 1e-6 * max(1.0, abs(coarse))):
        return True, f'skyline={coarse!r} refinement={fine!r}'
    return False, f'skyline={coarse!r} refinement={fine!r} agree'


def refine_signature(c):
    return SIG_SKY + {'old': ':older-epoch-of-two', 'recent': ':recent-epoch-of-two', 'both': ':one-epoch-in-three'}[c['split']]


def make_refine_body(c, tr, verbose=False):
    dom = refine_domain_for(c)
    sig = refine_signature(c)

    def body(t, V, W):
        d = t.dag

        def mk(items):
            from symtorch import from_ids

            return from_ids(torch.tensor([V[x] if isinstance(x, str) else d.const(float(x)) for x in items], dtype=torch.int64))

        what = f'{refine_label(c)}: log_prob(refined skyline) == log_prob(skyline)'
        if verbose:
            print(f'-- region witness {W} [{time.strftime("%X")}]', flush=True)
        caught = {}

        def run(stage):
            dist = build_refine(c, mk, stage)
            real_log_p = dist.log_p

            def log_p(*a, **k):  # the real method, unchanged; its results (p, A, B) are only looked at to choose lemmas
                caught[stage] = real_log_p(*a, **k)
                return caught[stage]

            dist.log_p = log_p
            return dist.log_prob(mk(heights_names(c)))

        stages = refine_stages(c)
        res = {}
        built = {}
        st = None
        try:
            for st in stages:
                n0 = len(d.ops)
                res[st] = run(st)
                built[st] = range(n0, len(d.ops))
        except Exception as e:
            from symtorch.expr import EngineError

            if isinstance(e, EngineError):
                raise
            rsig = sig
            if st == 'skyline':  # the skyline itself cannot be evaluated here: not a matter of refinement
                n = c['n']
                two = (c['rhob'] and W['rho'] > 0 and any(W[f's{i}'] == 0 for i in range(n))
                       and any(W[f's{i}'] == W['origin'] - W['tb'] for i in range(n)))
                rsig = SIG_RHO2 if two else SIG_SKY_RAISES
            return [Goal(f'{what} (the real code raised {type(e).__name__} on the {st}: {str(e)[:100]})', d.FALSE, signature=rsig)]
        if any(r._ids.numel() != 1 for r in res.values()):
            return [Goal(f'{what} (results have shapes {[tuple(r.shape) for r in res.values()]})', d.FALSE, signature=sig)]
        ids = {st: int(r._ids.reshape(-1)[0]) for st, r in res.items()}
        vo = d.vals[ids[stages[0]]]
        for st in stages:
            vi = d.vals[ids[st]]
            if math.isnan(vi) or math.isinf(vi) or not abs(vi - vo) <= 1e-7 * max(1.0, abs(vo)):
                # the runs already differ (or are not finite) at this region's witness: nothing to prove, the witness and the
                # solver's own point of the region go to the replay on the real code
                return [Goal(f'{what} (at the region witness: skyline {vo!r}, {st} {vi!r})', d.FALSE, signature=sig)]

        def ps(stage, k=0):  # p_i (k = 2: B_i) in the order the recursion computed them (most recent epoch first)
            if stage not in caught:
                return []
            return [int(x) for x in caught[stage][k]._ids.reshape(-1).tolist()][::-1]

        base = dom(d, V) + list(t.pcs)
        goals = []
        for coarse, fine in zip(stages, stages[1:]):  # each step splits one epoch once; equality is transitive
            step = what if len(stages) == 2 else f'{what} [step: {coarse} -> {fine}]'
            I, O = ids[fine], ids[coarse]
            chain = LemmaChain(t, base, tr, refine_label(c), timeout=c.get('lemma_timeout', 30.0), verbose=verbose)
            g = chain.equal_rel(I, O, sig, step, ps(fine), ps(coarse), ps(fine, 2), ps(coarse, 2), list(built[coarse]) + list(built[fine]))
            open_lemmas = [w for w, st in chain.failed if st == 'unknown']
            if open_lemmas and chain.defined and not chain.undefined:
                st, _, _ = prove(d, base + g.hyps, g.node, timeout=20.0, tr=tr, label=step, parallel=True)
                if st == 'proved':
                    open_lemmas = []
            if open_lemmas:  # one retry with a long timeout (machine load)
                chain = LemmaChain(t, base, tr, refine_label(c), timeout=90.0, verbose=verbose)
                g = chain.equal_rel(I, O, sig, step, ps(fine), ps(coarse), ps(fine, 2), ps(coarse, 2), list(built[coarse]) + list(built[fine]))
                open_lemmas = [w for w, st in chain.failed if st == 'unknown']
            if open_lemmas:
                g.label += f' [lemmas the portfolio left open: {open_lemmas[:3]}]'
            goals.append(g)
            bad = [f'#{x}' for x in chain.undefined] + ([] if chain.defined else ['a denominator'])
            if bad:
                goals.append(Goal(f'{refine_label(c)}: well-defined (sign lemma failed for {bad[:3]})',
                                  d.and_(*[d.lt(0, x) for x in chain.undefined]) if chain.undefined and chain.defined else d.FALSE,
                                  signature=sig + ':well-defined'))
            if verbose:
                print('   lemmas proved', chain.nproved, 'failed', chain.failed, 'unpaired logs', chain.unpaired, flush=True)
        return goals

    return body


def _weak_orderings(items):
    if not items:
        yield []
        return
    first, rest = items[0], items[1:]
    for wo in _weak_orderings(rest):
        for i in range(len(wo)):
            yield wo[:i] + [wo[i] + [first]] + wo[i + 1:]
        for i in range(len(wo) + 1):
            yield wo[:i] + [[first]] + wo[i:]


def refine_cells(n, split):
    """every ordering (ties included) of 0, the tip heights, the internal heights of the caterpillar and the heights of the epoch
    boundaries (B: boundary of the skyline, N / M: new boundaries) that the domain admits: boundaries strictly between 0 and the
    origin and in the order the split fixes, NO TIP EXACTLY ON A NEW BOUNDARY (the property's exclusion; births may sit on it,
    and tips may sit on the skyline's own boundary B).  Deterministic order."""
    tips = [f's{i}' for i in range(n)]
    ints = [f'c{j}' for j in range(n - 1)]
    bounds = {'old': ['B', 'N'], 'recent': ['N', 'B'], 'both': ['M', 'N']}[split]  # increasing height
    out = []
    for wo in _weak_orderings(['0'] + tips + ints + bounds):
        pos = {x: k for k, blk in enumerate(wo) for x in blk}
        ok = pos['0'] == 0 and all(pos[b] > 0 for b in bounds) and pos[bounds[0]] < pos[bounds[1]]
        ok = ok and pos['s0'] < pos['c0'] and pos['s1'] < pos['c0']
        for j in range(1, n - 1):
            ok = ok and pos[f'c{j-1}'] <= pos[f'c{j}'] and pos[f's{j+1}'] < pos[f'c{j}']
        ok = ok and not any(pos[b] == pos[s] for b in bounds if b != 'B' for s in tips)
        if ok:
            out.append('<'.join('='.join(sorted(blk, key=lambda x: (x != '0', x))) for blk in wo))
    return sorted(out)


def run_refine_cover_task(spec, tr):
    """the cells of the relational refinement tasks cover the stated domain (one solver query per split)"""
    c = refine_cfg(n=spec['n'], split=spec['split'], base=1 if spec['split'] == 'both' else 2, cell=spec['cells'][0])
    with tracing() as t:
        d = t.dag
        V = {nm: d.var(nm, v) for nm, v in refine_witness(c).items()}
        dom = refine_domain_for(c, with_cell=False)(d, V)
        for k in (('tn', 'tm') if c['base'] == 1 else ('tn',)):  # no tip exactly on a new boundary
            dom += [d.not_(d.eq(V[f's{i}'], d.sub(V['origin'], V[k]))) for i in range(c['n'])]
        cells = [d.and_(*refine_cell_constraints(dict(c, cell=cell), d, V)) for cell in spec['cells']]
        st, r, _ = prove(d, dom, d.or_(*cells), timeout=120.0, tr=tr, label='refinement cells cover the domain', parallel=True)
        if st == 'proved':
            tr.closures += 1
        else:
            tr.inconc(f'relational refinement, n={spec["n"]} split={spec["split"]}: coverage of the domain by the cells not certified ({st})')


def run_refine_task(c, tr, verbose=False):
    from torchtree.evolution.bdsk import PiecewiseConstantBirthDeath as P

    tr.fn(P.log_prob, P.log_p, P.log_q)
    label = refine_label(c)
    ex = Explorer(refine_witness(c), refine_domain_for(c), make_refine_body(c, tr, verbose), tr, max_regions=c.get('budget', 12),
                  timeout=c.get('timeout', 30.0), label=label, check_defined=False, deadline=time.time() + c.get('deadline', 1500))
    out = ex.run()
    for s in out.region_samples[:1]:
        s['case'] = label
        tr.sample(s)
    triage(out, lambda vals: refine_replay(c, vals), tr, label, {'refine_cfg': c})
    return out


# ================================================================ JSON plumbing
SIG_RP = 'BDSKModel.from_json:removal_probability-read-from-relative_times'
SIG_TLIST = 'BDSKModel.from_json:times-given-as-list:not-converted-to-tensor'
SIG_NOORIGIN = 'BDSKModel._call:origin-omitted:raises-AttributeError'
SIG_BDM = 'BirthDeathModel._call:raises-AttributeError'
SIG_PLUMB = 'from_json:option-does-not-select-the-behaviour-it-names'

PARAM_VALUES = {'R': [1.5], 'delta': [1.2], 's': [0.3], 'rho': [0.2], 'origin': [5.0], 'times': [0.0],
                'removal_probability': [0.7], 'lambda': [1.8], 'mu': [0.9], 'psi': [0.4]}

PLUMB_VARIANTS = {
    # name: (model, optional Parameter keys, plain options)
    'bdsk origin': ('BDSKModel', ['origin'], {}),
    'bdsk origin rho': ('BDSKModel', ['origin', 'rho'], {}),
    'bdsk origin survival=False': ('BDSKModel', ['origin'], {'survival': False}),
    'bdsk origin survival=True': ('BDSKModel', ['origin', 'rho'], {'survival': True}),
    'bdsk origin_is_root_edge=True': ('BDSKModel', ['origin'], {'origin_is_root_edge': True}),
    'bdsk origin_is_root_edge=False': ('BDSKModel', ['origin'], {'origin_is_root_edge': False}),
    'bdsk times parameter': ('BDSKModel', ['origin', 'times'], {}),
    'bdsk removal_probability': ('BDSKModel', ['origin', 'removal_probability'], {}),
    'bdsk relative_times=True': ('BDSKModel', ['origin', 'times'], {'relative_times': True}),
    'bdsk relative_times=False': ('BDSKModel', ['origin', 'times'], {'relative_times': False}),
    'bdsk times list': ('BDSKModel', ['origin'], {'times': [0.0]}),
    'bdsk no origin': ('BDSKModel', ['rho'], {}),
    'bd': ('BirthDeathModel', [], {}),
    'bd survival=False': ('BirthDeathModel', [], {'survival': False}),
}

# every documented BDSKModel option once more with TWO epochs (R, delta, s, rho, removal_probability of length 2, one inner
# boundary).  BirthDeathModel is the constant-rate model: no epochs to repeat it with.
PARAM_VALUES_2 = {'R': [1.5, 2.1], 'delta': [1.2, 0.9], 's': [0.3, 0.45], 'rho': [0.15, 0.2], 'origin': [5.0], 'times': [0.0, 3.6],
                  'removal_probability': [0.7, 0.6]}
PLUMB_VARIANTS_2 = {
    'bdsk origin': ('BDSKModel', ['origin'], {}),  # times omitted: two epochs of equal length
    'bdsk origin rho': ('BDSKModel', ['origin', 'rho'], {}),
    'bdsk origin survival=False': ('BDSKModel', ['origin'], {'survival': False}),
    'bdsk origin survival=True': ('BDSKModel', ['origin', 'rho'], {'survival': True}),
    'bdsk origin_is_root_edge=True': ('BDSKModel', ['origin', 'times'], {'origin_is_root_edge': True}),
    'bdsk origin_is_root_edge=False': ('BDSKModel', ['origin', 'times'], {'origin_is_root_edge': False}),
    'bdsk times parameter': ('BDSKModel', ['origin', 'times', 'rho'], {}),
    'bdsk removal_probability': ('BDSKModel', ['origin', 'times', 'removal_probability'], {}),
    'bdsk relative_times=True': ('BDSKModel', ['origin', 'times'], {'relative_times': True}, {'times': [0.0, 0.7]}),
    'bdsk relative_times=False': ('BDSKModel', ['origin', 'times'], {'relative_times': False}),
    'bdsk times list': ('BDSKModel', ['origin'], {'times': [0.0, 3.6]}),
    'bdsk no origin': ('BDSKModel', ['rho'], {}),
    # the epoch boundaries move with the tree: regular grid / relative times over (root edge + root height)
    'bdsk origin_is_root_edge=True grid': ('BDSKModel', ['origin', 'rho'], {'origin_is_root_edge': True}),
    'bdsk origin_is_root_edge=True relative_times=True': ('BDSKModel', ['origin', 'times'],
                                                          {'origin_is_root_edge': True, 'relative_times': True}, {'times': [0.0, 0.7]}),
}
TWO = ' [2 epochs]'


def plumb_spec(variant):
    """(model, optional Parameter keys, plain options, parameter values)"""
    if variant.endswith(TWO):
        spec = PLUMB_VARIANTS_2[variant[:-len(TWO)]]
        return spec[0], spec[1], spec[2], dict(PARAM_VALUES_2, **(spec[3] if len(spec) > 3 else {}))
    return PLUMB_VARIANTS[variant] + (PARAM_VALUES,)


def plumb_variants():
    return list(PLUMB_VARIANTS) + [v + TWO for v in PLUMB_VARIANTS_2]


def plumb_json(variant):
    model, keys, opts, values = plumb_spec(variant)

    def P(k):
        return {'id': 'p_' + k, 'type': 'Parameter', 'tensor': list(values[k])}

    tree = dict(cm.time_tree_json(((0, 1), 2), 3), taxa=cm.taxa_json(3, [0.5, 0.0, 0.2]))
    js = {'id': 'model', 'type': model, 'tree_model': tree}
    req = ['R', 'delta', 's'] if model == 'BDSKModel' else ['lambda', 'mu', 'psi', 'rho', 'origin']
    for k in req + list(keys):
        js[k] = P(k)
    js.update(opts)
    return js, req + list(keys)


def plumb_expected(variant, get, heights):
    """the density the JSON options name, built directly (documented meaning of each key)"""
    from torchtree.evolution.bdsk import PiecewiseConstantBirthDeath
    from torchtree.evolution.birth_death import BirthDeath

    model, keys, opts, _ = plumb_spec(variant)
    if model == 'BirthDeathModel':
        return BirthDeath(get('lambda'), get('mu'), get('psi'), get('rho'), get('origin'), survival=opts.get('survival', True),
                          validate_args=False).log_prob(heights)
    R, delta, s = get('R'), get('delta'), get('s')
    if 'removal_probability' in keys:
        r = get('removal_probability')
        lam = R * delta
        psi = s * delta / (1.0 + (r - 1.0) * s)
        mu = delta - psi * r
    else:
        r = None
        lam, mu, psi = R * delta, delta - s * delta, s * delta
    kw = dict(survival=opts.get('survival', True), origin_is_root_edge=opts.get('origin_is_root_edge', False),
              relative_times=opts.get('relative_times', False), removal_probability=r, validate_args=False)
    kw['rho'] = get('rho') if 'rho' in keys else torch.zeros(1, dtype=lam.dtype)
    if 'origin' in keys:
        kw['origin'] = get('origin')
    if 'times' in keys:
        kw['times'] = get('times')
    elif 'times' in opts:
        kw['times'] = torch.tensor(opts['times'], dtype=lam.dtype)
    return PiecewiseConstantBirthDeath(lam, mu, psi, **kw).log_prob(heights)


ATTR_OF = {'lambda': 'lambda_'}


def plumb_replay(variant, which):
    """concrete run (plain tensors, no engine): (reproduced, detail)"""
    import torchtree.evolution.bdsk  # noqa: F401  (registers the classes)
    import torchtree.evolution.birth_death  # noqa: F401

    js, keys = plumb_json(variant)
    try:
        model, dic = cm.build(js)
    except Exception as e:
        return True, f'from_json raised {type(e).__name__}: {e}'
    _, _, opts, values = plumb_spec(variant)
    if which.startswith('attr:'):
        k = which[5:]
        got = getattr(model, ATTR_OF.get(k, k), None)
        if k in keys:
            ok = got is dic.get('p_' + k, 'never built')
        else:
            ok = got == opts.get(k, got)
        return (not ok), f'JSON key {k!r}: attribute {ATTR_OF.get(k, k)} is {got!r}'
    try:
        out = model()
    except Exception as e:
        return True, f'calling the model raised {type(e).__name__}: {e}'
    exp = plumb_expected(variant, lambda k: dic['p_' + k].tensor if 'p_' + k in dic else torch.tensor(values[k]),
                         model.tree_model.node_heights)
    if not torch.allclose(out.reshape(-1).double(), exp.reshape(-1).double(), rtol=1e-5, atol=1e-5):
        return True, f'model() = {out.tolist()} but the options name a density of {exp.tolist()}'
    return False, f'model() = {out.tolist()} as named'


def plumb_signature(variant, which, detail=''):
    model, keys, opts, _ = plumb_spec(variant)
    if model == 'BirthDeathModel':
        return SIG_BDM if which == 'call' else SIG_PLUMB + ':BirthDeathModel:' + which
    if variant.endswith(TWO) and 'removal_probability' in keys and which == 'call':
        return SIG_RM  # the density itself raises with a removal probability and several epochs (whatever built it)
    if 'removal_probability' in keys or 'relative_times' in opts:
        if which in ('call', 'attr:removal_probability'):
            return SIG_RP
    if isinstance(opts.get('times'), list) and which in ('call', 'attr:times'):
        return SIG_TLIST
    if 'origin' not in keys and which == 'call':
        return SIG_NOORIGIN
    return SIG_PLUMB + ':BDSKModel:' + which


def run_plumbing_task(variant, tr):
    from torchtree.evolution.bdsk import BDSKModel, epidemiology_to_birth_death
    from torchtree.evolution.birth_death import BirthDeathModel

    tr.fn(BDSKModel.from_json, BDSKModel._call, BirthDeathModel.from_json, BirthDeathModel._call, epidemiology_to_birth_death)
    model_name, okeys, opts, values = plumb_spec(variant)
    js, keys = plumb_json(variant)
    label = f'plumbing [{variant}]'
    with tracing() as t:
        d = t.dag
        model, dic = cm.build(js)
        V = {}
        sym = {}
        goals = []
        for k in keys:  # one distinct symbol per documented key (and per epoch)
            if 'p_' + k not in dic:  # from_json never looked at the key
                sym[k] = new_vars(k, torch.tensor(values[k], dtype=torch.float64))
            else:
                sym[k] = cm.symbolize(dic['p_' + k], k, torch.tensor(values[k], dtype=torch.float64))
            for i, x in enumerate(sym[k]._ids.reshape(-1).tolist()):
                V[f'{k}[{i}]'] = int(x)
        for k in keys:
            got = getattr(model, ATTR_OF.get(k, k), None)
            ids = getattr(getattr(got, 'tensor', None), '_ids', None)
            want = [V[f'{k}[{i}]'] for i in range(len(values[k]))]
            node = d.and_(*[d.eq(int(a), b) for a, b in zip(ids.reshape(-1).tolist(), want)]) \
                if ids is not None and ids.numel() == len(want) else d.FALSE
            goals.append((f'attr:{k}', f'the symbol(s) given under JSON key {k!r} are what attribute {ATTR_OF.get(k, k)!r} holds', node))
        for k, v in opts.items():
            if isinstance(v, bool):
                goals.append((f'attr:{k}', f'option {k}={v} is stored', d.bconst(getattr(model, k, None) is v)))
        try:
            out = model()
            exp = plumb_expected(variant, lambda k: sym[k], model.tree_model.node_heights)
            if tuple(out.shape) != tuple(exp.shape) or not isinstance(out, SymTensor):
                node = d.FALSE
            else:
                oi = out._ids.reshape(-1).tolist()
                ei = exp._ids.reshape(-1).tolist() if isinstance(exp, SymTensor) else [d.const(float(x)) for x in exp.reshape(-1)]
                node = d.and_(*[d.eq(a, b) for a, b in zip(oi, ei)])
                used = set(d.variables([oi[0]]))
                tr.sample({'case': label, 'symbols reaching the result': sorted(used)})
            goals.append(('call', 'model() is the density named by the options (built directly from the same symbols)', node))
        except Exception as e:
            from symtorch.expr import EngineError

            if isinstance(e, EngineError):
                raise
            goals.append(('call', f'model() evaluates (it raised {type(e).__name__}: {str(e)[:80]})', d.FALSE))
        tr.witness_runs += 1
        tr.regions += 1
        tr.ops_checked += t.nchecked
        hyps = list(t.pcs) + [d.lt(0, i) for i in V.values()]
        for which, text, node in goals:
            cm.discharge(tr, d, hyps + ground_axioms(d, [node]), [(f'{label}: {text}', node, [], plumb_signature(variant, which))], label,
                         replay=lambda vals, w=which: plumb_replay(variant, w), timeout=5.0, varnodes=V, defined=False)


# ========================================================= histories on ONE object
# Every task above evaluates a freshly built object once.  Here ONE PiecewiseConstantBirthDeath object (resp. ONE BDSKModel /
# BirthDeathModel object) goes through a history - log_prob(tree A); log_prob(tree B) with fresh symbolic node heights; log_prob(tree A)
# again; for the models also fresh symbols assigned to R / delta / s / rho / origin / times between calls - and every value must be the
# value of a freshly built object for the same symbols.  Relational on shared symbols: identical expressions close syntactically
# (hash-consed DAG); anything that still mentions the symbols of an earlier call is a solver counterexample that is replayed on plain
# tensors.  Vacuity guard: the second tree CAN change the value (solver: sat expected; and the two values differ at the witness).
SIG_HIST = 'PiecewiseConstantBirthDeath.log_prob:value-depends-on-earlier-calls-on-the-same-object'


def vacuity_guard(d, hyps, x, y, tr):
    """can the two values differ?  (sat expected.)  The exp/log/sqrt applications are generalised to real variables, which keeps the
    query polynomial; the caller additionally requires that the two values DO differ at the witness (a point of the true semantics)."""
    ufs = sorted({n for n in d.topo([x, y] + list(hyps)) if d.ops[n] == 'uf'})
    forms = cm.abstracted(d, ufs, [d.eq(x, y)] + list(hyps))
    st, _, _ = prove(d, forms[1:], forms[0], timeout=5.0, tr=tr, label='vacuity guard', parallel=True)
    return st
SIG_HIST_MODEL = ':value-after-a-history-differs-from-a-freshly-built-model'


def hist_cfg(**kw):
    c = density_cfg(**kw)
    c['kind'] = 'hist'
    c['distinct'] = c['m'] == 2
    return c


def hist_label(c):
    return (f"history on one distribution object: m={c['m']}{' (distinct rates)' if c['m'] == 2 else ''} n={c['n']} survival={c['survival']} "
            f"origin={c['origin']} times={c['times']}")


def hist_var_names(c):
    hs = heights_names(c)
    return [v for v in var_names(c) if v not in hs] + [h + tree for tree in 'AB' for h in hs]


def hist_witness(c):
    n = c['n']
    W0 = initial_witness(c)
    W = {k: v for k, v in W0.items() if k not in heights_names(c)}
    for h in heights_names(c):
        W[h + 'A'] = W0[h]
    for i in range(n):
        W[f's{i}B'] = 0.35 - 0.125 * i if i < 2 else 0.6
    for j in range(n - 1):
        W[f'c{j}B'] = 2.3 + 0.6 * j  # a different root height: grids that hang on the root move
    return {k: W[k] for k in hist_var_names(c)}


def hist_domain_for(c):
    dom = domain_for(c)
    hs = heights_names(c)

    def domain(d, V):
        cs = []
        for tree in 'AB':
            Vt = dict(V)
            for h in hs:
                Vt[h] = V[h + tree]
            for x in dom(d, Vt):
                if x not in cs:
                    cs.append(x)
        return cs

    return domain


def hist_values(c, mk):
    """the history on ONE object and the values of freshly built objects: [(call, tree, value on the one object, fresh value)]"""
    hs = heights_names(c)

    def heights(tree):
        return mk([h + tree for h in hs])

    one = build_dist(c, mk)
    hist = [one.log_prob(heights(tree)) for tree in 'ABA']
    fresh = {tree: build_dist(c, mk).log_prob(heights(tree)) for tree in 'AB'}
    return [(k + 1, tree, hist[k], fresh[tree]) for k, tree in enumerate('ABA')]


def hist_replay(c, vals):
    vals = {k: float(v) for k, v in vals.items() if k in hist_var_names(c)}
    if set(vals) != set(hist_var_names(c)):
        return False, 'incomplete counterexample'

    def mk(items):
        return torch.tensor([float(vals[x]) if isinstance(x, str) else float(x) for x in items], dtype=torch.float64)

    try:
        rows = hist_values(c, mk)
    except Exception as e:
        return True, f'real code raised {type(e).__name__}: {str(e)[:160]}'
    for k, tree, a, b in rows:
        a, b = float(a), float(b)
        if (math.isnan(a) or math.isinf(a)) and (math.isnan(b) or math.isinf(b)):
            continue
        if not abs(a - b) <= 1e-9 * max(1.0, abs(b)):
            return True, f'call {k} (tree {tree}) on the one object returns {a!r}, a freshly built object {b!r}'
    return False, 'every call agrees with a freshly built object: ' + ', '.join(f'{float(a)!r}' for _, _, a, _ in rows)


def make_hist_body(c, tr, state):
    dom = hist_domain_for(c)
    lab = hist_label(c)

    def body(t, V, W):
        d = t.dag

        def mk(items):
            from symtorch import from_ids

            return from_ids(torch.tensor([V[x] if isinstance(x, str) else d.const(float(x)) for x in items], dtype=torch.int64))

        try:
            rows = hist_values(c, mk)
        except Exception as e:
            from symtorch.expr import EngineError

            if isinstance(e, EngineError):
                raise
            return [Goal(f'{lab}: the history evaluates (the real code raised {type(e).__name__}: {str(e)[:100]})', d.FALSE, signature=SIG_HIST)]
        goals = []
        ids = {}
        for k, tree, a, b in rows:
            what = f'{lab}: call {k} (tree {tree}) on the one object == the value of a freshly built object'
            if a._ids.numel() != 1 or b._ids.numel() != 1:
                goals.append(Goal(what + f' (shapes {tuple(a.shape)}, {tuple(b.shape)})', d.FALSE, signature=SIG_HIST))
                continue
            I, O = int(a._ids.reshape(-1)[0]), int(b._ids.reshape(-1)[0])
            ids[tree] = O
            vi, vo = d.vals[I], d.vals[O]
            finite = not (math.isnan(vi) or math.isinf(vi) or math.isnan(vo) or math.isinf(vo))
            if I != O and finite and not abs(vi - vo) <= 1e-9 * max(1.0, abs(vo)):
                goals.append(Goal(what + f' (at the region witness: {vi!r} vs {vo!r})', d.FALSE, signature=SIG_HIST))
            else:
                if I == O:
                    state['syntactic'] = state.get('syntactic', 0) + 1
                goals.append(Goal(what, d.eq(I, O), signature=SIG_HIST))
        if not state.get('guard') and len(ids) == 2:  # vacuity guard, once per task (first region = the generic witness)
            state['guard'] = True
            st = vacuity_guard(d, dom(d, V) + list(t.pcs), ids['A'], ids['B'], tr)
            differ = abs(d.vals[ids['A']] - d.vals[ids['B']]) > 1e-9
            if st == 'proved' or not differ:
                tr.inconc(f'{lab}: vacuous - the second tree does not change the value (solver: {st}; at the witness: '
                          f'{d.vals[ids["A"]]!r}, {d.vals[ids["B"]]!r})')
        return goals

    return body


def run_hist_task(c, tr):
    from torchtree.evolution.bdsk import PiecewiseConstantBirthDeath as P

    tr.fn(P.log_prob, P.log_p, P.log_q)
    label = hist_label(c)
    state = {}
    ex = Explorer(hist_witness(c), hist_domain_for(c), make_hist_body(c, tr, state), tr, max_regions=c.get('budget', 2),
                  timeout=20.0, label=label, check_defined=False, require_closure=False, deadline=time.time() + 300)
    out = ex.run()
    for s_ in out.region_samples[:1]:
        s_['case'] = label
        s_['calls closed syntactically (same expression as a fresh object)'] = state.get('syntactic', 0)
        tr.sample(s_)
    triage(out, lambda vals: hist_replay(c, vals), tr, label, {'hist_cfg': c})
    return out


# ---- the model wrappers
def model_hist_variants():
    return [v for v in plumb_variants() if not (v.endswith(TWO) and 'removal_probability' in v)]


MODEL_HIST_HEIGHTS = {'A': [1.0, 2.0], 'B': [0.75, 2.6]}  # internal heights of ((0,1),2), tips at 0.5, 0, 0.2
UPDATED = {'R': 1.25, 'delta': 0.8, 's': 1.2, 'rho': 0.5, 'origin': 1.3, 'lambda': 0.9, 'mu': 1.1, 'psi': 0.7, 'removal_probability': 0.9}


def model_history(variant, T):
    """T(name, values) -> 1-d tensor standing for that group of inputs (symbolic or plain).
    Returns [(step, value of the ONE model object, value of a freshly built model given the same inputs)]."""
    import torchtree.evolution.bdsk  # noqa: F401  (registers the classes)
    import torchtree.evolution.birth_death  # noqa: F401

    _, _, opts, values = plumb_spec(variant)
    js, keys = plumb_json(variant)
    state = {k: T(k, values[k]) for k in keys}
    trees = {tree: T('heights' + tree, MODEL_HIST_HEIGHTS[tree]) for tree in 'AB'}
    newer = {k: T(k + "'", [x * UPDATED[k] for x in values[k]]) for k in keys if k in UPDATED}

    def assign(dic, which, tree):
        for k in keys:
            if 'p_' + k in dic:
                dic['p_' + k].tensor = which[k]
        dic['tree.heights'].tensor = trees[tree]

    def fresh(which, tree):
        m, dic = cm.build(js)
        assign(dic, which, tree)
        return m()

    model, dic = cm.build(js)
    rows = []
    assign(dic, state, 'A')
    rows.append(('first call, tree A', model(), fresh(state, 'A')))
    dic['tree.heights'].tensor = trees['B']
    rows.append(('after the tree changed to B', model(), fresh(state, 'B')))
    dic['tree.heights'].tensor = trees['A']
    rows.append(('after the tree changed back to A', model(), fresh(state, 'A')))
    cur_ = dict(state)
    for k in keys:  # one parameter at a time, evaluating after each update
        if k in newer and 'p_' + k in dic:
            dic['p_' + k].tensor = newer[k]
            cur_[k] = newer[k]
            rows.append((f'after {k} was updated', model(), fresh(cur_, 'A')))
    dic['tree.heights'].tensor = trees['B']
    rows.append(('after every update, tree B', model(), fresh(cur_, 'B')))
    return rows


def model_hist_names(variant):
    _, _, _, values = plumb_spec(variant)
    _, keys = plumb_json(variant)
    groups = {k: len(values[k]) for k in keys}
    groups.update({k + "'": len(values[k]) for k in keys if k in UPDATED})
    groups.update({'heightsA': 2, 'heightsB': 2})
    return groups


def model_hist_replay(variant, vals):
    groups = model_hist_names(variant)
    need = [f'{g}[{i}]' for g, n_ in groups.items() for i in range(n_)]
    if any(k not in vals for k in need):
        return False, 'incomplete counterexample'

    def T(name, values):
        return torch.tensor([float(vals[f'{name}[{i}]']) for i in range(len(values))], dtype=torch.float64)

    try:
        rows = model_history(variant, T)
    except Exception as e:
        return True, f'real code raised {type(e).__name__}: {str(e)[:160]}'
    for step, a, b in rows:
        a, b = a.reshape(-1).double(), b.reshape(-1).double()
        if a.shape != b.shape or not torch.allclose(a, b, rtol=1e-9, atol=1e-9, equal_nan=True):
            return True, f'{step}: the one model object returns {a.tolist()}, a freshly built model {b.tolist()}'
    return False, 'every step agrees with a freshly built model'


def run_model_hist_task(variant, tr):
    from torchtree.evolution.bdsk import BDSKModel
    from torchtree.evolution.birth_death import BirthDeathModel
    from torchtree.core.model import CallableModel

    tr.fn(BDSKModel._call, BirthDeathModel._call, CallableModel.__call__, CallableModel.handle_model_changed,
          CallableModel.handle_parameter_changed)
    model_name = plumb_spec(variant)[0]
    label = f'history on one {model_name} object [{variant}]'
    sig = model_name + SIG_HIST_MODEL
    with tracing() as t:
        d = t.dag
        V = {}

        def T(name, values):
            st = new_vars(name, torch.tensor(values, dtype=torch.float64))
            for i, x in enumerate(st._ids.reshape(-1).tolist()):
                V[f'{name}[{i}]'] = int(x)
            return st

        goals = []
        try:
            rows = model_history(variant, T)
        except Exception as e:
            from symtorch.expr import EngineError

            if isinstance(e, EngineError):
                raise
            rows = []
            goals.append((f'the history evaluates (it raised {type(e).__name__}: {str(e)[:80]})', d.FALSE))
        nsyn = 0
        for step, a, b in rows:
            if not isinstance(a, SymTensor) or not isinstance(b, SymTensor) or tuple(a.shape) != tuple(b.shape):
                goals.append((f'{step}: model() of the one object is a value of the shape a freshly built model returns', d.FALSE))
                continue
            ai, bi = a._ids.reshape(-1).tolist(), b._ids.reshape(-1).tolist()
            nsyn += ai == bi
            text = f'{step}: model() of the one object == model() of a freshly built model given the same symbols'
            apart = [(d.vals[int(x)], d.vals[int(y)]) for x, y in zip(ai, bi)
                     if x != y and not abs(d.vals[int(x)] - d.vals[int(y)]) <= 1e-9 * max(1.0, abs(d.vals[int(y)]))]
            if apart:  # already different at the witness: nothing to prove, the solver's point and the witness go to the replay
                goals.append((text + f' (at the witness: {apart[0][0]!r} vs {apart[0][1]!r})', d.FALSE))
            else:
                goals.append((text, d.and_(*[d.eq(int(x), int(y)) for x, y in zip(ai, bi)])))
        if t.concretized:
            tr.inconc(f'{label}: symbolic value concretised: {t.concretized[:3]}')
            return
        tr.witness_runs += 1
        tr.regions += 1
        tr.ops_checked += t.nchecked
        tr.sample({'case': label, 'steps': [r[0] for r in rows], 'steps closed syntactically': int(nsyn)})
        hyps = list(t.pcs)
        if len(rows) >= 2:  # vacuity guard: the tree (step 2) and the parameters (last steps) CAN change the value
            for i, j, whatg in ((0, 1, 'the second tree'), (2, len(rows) - 2, 'the updated parameters')):
                x, y = int(rows[i][2]._ids.reshape(-1)[0]), int(rows[j][2]._ids.reshape(-1)[0])
                st = vacuity_guard(d, hyps, x, y, tr)
                if st == 'proved' or not abs(d.vals[x] - d.vals[y]) > 1e-9:
                    tr.inconc(f'{label}: vacuous - {whatg} do(es) not change the value (solver: {st}; witness {d.vals[x]!r}, {d.vals[y]!r})')
        for text, node in goals:
            cm.discharge(tr, d, hyps + ground_axioms(d, [node]), [(f'{label}: {text}', node, [], sig)], label,
                         replay=lambda vals: model_hist_replay(variant, vals), timeout=10.0, varnodes=V, defined=False)


def hist_tasks(tier):
    H = hist_cfg
    ts = []
    combos = [('given', 'none'), ('given', 'abs'), ('given', 'rel'), ('root_edge', 'none'), ('root_edge', 'abs'), ('root_edge', 'rel'),
              ('none', 'none')]  # times without an origin are not accepted by the class
    for n in ((2,) if tier == 'quick' else (2, 3)):
        for m in (1, 2):
            for org, tm in combos:
                for surv in (True, False):
                    ts.append(('hist', H(m=m, n=n, origin=org, times=tm, survival=surv, budget=4 if tier == 'quick' else 12)))
    ts += [('model-hist', v) for v in model_hist_variants()]
    return ts


# ===================================================================== tasks
def density_cfg(**kw):
    c = dict(cls='PCBD', m=1, n=2, survival=True, removal=False, origin='given', times='none', rho_shape='full')
    c.update(kw)
    return c


CELLS_N2 = ['0<s0<=s1<c0<B', '0<s0<=s1<B=c0', '0<s0<=s1<B<c0', '0<s0<s1=B<c0', '0<s0<B<s1<c0', '0<B=s0<s1<c0', '0<B<s0<=s1<c0',
            '0<s1<B<s0<c0', '0<s1<s0=B<c0', '0<s0=B=s1<c0']
CELLS_N2_TIP0 = ['0=s0<s1<c0<B', '0=s0<s1<B<c0', '0=s0<B<s1<c0', '0=s0<s1=B<c0', '0=s1<B<s0<c0', '0=s1<s0<B<c0', '0=s0=s1<B<c0',
                 '0=s0=s1<c0<B', '0=s0<s1<B=c0', '0=s0=s1<B=c0', '0=s1<s0=B<c0', '0=s1<s0<c0<B', '0=s1<s0<B=c0', '0<s1<s0<c0<B',
                 '0<s1<s0<B=c0', '0<s1<=s0<B<c0', '0<B=s1<s0<c0', '0<B<s1<=s0<c0']
CELLS_N3 = ['0<s0<=s1<c0<s2<c1<B', '0<s0<=s1<c0<s2<B<c1', '0<s0<=s1<c0<B<s2<c1', '0<s0<=s1<B<c0<s2<c1', '0<B<s0<=s1<c0<s2<c1',
            '0<s2<s0<B<s1<c0<c1', '0=s0<s1<B<c0<s2<c1', '0<s0<=s1<c0<s2=B<c1', '0<s0<=s1<B=c0<s2<c1']


QUICK_CELLS = ['0<s0<=s1<c0<B', '0<s0<=s1<B=c0', '0<s0<=s1<B<c0', '0<s0<s1=B<c0', '0<s0<B<s1<c0']


def tasks_for(tier):
    D = density_cfg
    ts = []
    # ---- refinement: two epochs, identical rates, no sampling at the new boundary (one task per cell of the
    #      ordering of the boundary among the node heights; the Explorer certifies that a cell is one path region)
    for cell in (QUICK_CELLS if tier == 'quick' else CELLS_N2):
        ts.append(('density', D(m=2, times='abs', cell=cell, split={'rho0': False})))
    ts.append(('density', D(m=2, times='abs', rho_shape='short', survival=False, cell='0<s0<B<s1<c0', split={'rho0': False})))
    ts.append(('density', D(m=2, times='abs', cell='0<s0<=s1<B<c0', removal=True, split={'rho0': False})))
    # ---- rho-sampling (no tip sampled) at the inner boundary of two epochs with identical rates, against the two-epoch
    #      oracle composed from the constant-rate solution; 1, 2 and 0 lineages cross the boundary
    RB = dict(m=2, rhob=True, survival=False, split={'rho0': False}, lemma_timeout=60.0)
    ts.append(('density', D(times='abs', cell='0<s0<=s1<B<c0', **RB)))  # two lineages cross
    # relative times together with a root edge: boundary = fraction x (root height + edge)
    ts.append(('density', D(times='rel', origin='root_edge', cell='0<s0<=s1<B<c0', **RB)))
    if tier != 'quick':
        ts.append(('density', D(times='abs', cell='0<s0<=s1<c0<B', **RB)))  # one
        ts.append(('density', D(times='abs', cell='0<B<s0<=s1<c0', **RB)))  # none
        ts.append(('density', D(m=2, times='rel', origin='root_edge', cell='0<s0<=s1<B<c0', split={'rho0': False})))
        ts.append(('density', D(n=3, times='abs', cell='0<s2<s0<=s1<B<c0<c1', **RB)))  # three lineages cross
    # ---- one epoch against the constant-rate oracle (the Explorer enumerates tip-at-0 / rho = 0 / searchsorted regions)
    ts.append(('density', D(survival=True, removal=True)))
    ts.append(('density', D(survival=True, removal=False)))
    ts.append(('density', D(survival=False, removal=False)))
    ts.append(('density', D(origin='root_edge')))
    ts.append(('density', D(times='rel')))
    ts.append(('density', D(removal=True, split={'corner': True})))
    # ---- the constant-model class
    ts.append(('density', D(cls='BD')))
    if tier != 'quick':
        ts.append(('density', D(survival=False, removal=True)))
        ts.append(('density', D(origin='none', removal=True)))
        ts.append(('density', D(cls='BD', survival=False)))
        ts.append(('density', D(times='abs', survival=False)))
        ts.append(('density', D(rho_shape='short')))
        for surv in (False, True):
            for rem in (False, True):
                for r0 in (False, True):
                    ts.append(('density', D(n=3, survival=surv, removal=rem, split={'rho0': r0})))
        for org in ('root_edge', 'none'):
            for r0 in (False, True):
                ts.append(('density', D(n=3, removal=True, origin=org, split={'rho0': r0})))
        ts.append(('density', D(n=3, times='abs', rho_shape='short', split={'rho0': False})))
        ts.append(('density', D(n=3, removal=True, split={'corner': True})))
        ts.append(('density', D(cls='BD', n=3)))
        for cell in CELLS_N2_TIP0:
            ts.append(('density', D(m=2, times='abs', cell=cell, survival=cell.startswith('0<'), split={'rho0': False})))
        for cell in QUICK_CELLS[1:3]:
            ts.append(('density', D(m=2, times='abs', cell=cell, split={'rho0': True})))
            ts.append(('density', D(m=2, times='abs', cell=cell, origin='root_edge', survival=False, split={'rho0': False})))
        ts.append(('cover', dict(n=2, cells=CELLS_N2 + CELLS_N2_TIP0, tips='any')))
        for cell in CELLS_N3[:4]:
            ts.append(('density', D(m=2, n=3, times='abs', cell=cell, split={'rho0': False})))
    else:
        ts.append(('cover', dict(n=2, cells=QUICK_CELLS, tips='positive', half=True, strict=True)))
    ts += refine_tasks(tier) + distinct_tasks(tier) + hist_tasks(tier)
    ts += [('plumb', v) for v in plumb_variants()]
    ts.append(('beast', None))
    return ts


QUICK_REFINE = [
    # (split, cell, options): births on the new boundary, tips at 0 and on the skyline's own boundary, 0 / 1 / 2 lineages through it
    ('old', '0<s0<B<s1<N=c0', {}), ('old', '0<s0<s1<B<N<c0', {}), ('old', '0=s0<B=s1<c0<N', {}), ('old', '0<B<N<s0<s1<c0', {}),
    ('old', '0<s0<B<s1<N<c0', {'rhob': True}), ('old', '0<s0<s1<B<c0<N', {'rho0': True, 'survival': False}),
    ('old', '0=s0<B=s1<c0<N', {'rhob': True}),  # tips at both rho-sampling times
    ('recent', '0<s0<s1<N=c0<B', {}), ('recent', '0<s0<N<s1<B<c0', {}), ('recent', '0=s0<N<s1<B=c0', {}), ('recent', '0<N<s0<s1<B<c0', {}),
    ('recent', '0<s0<N<s1<B<c0', {'rhob': True}), ('recent', '0<s1<N<B=s0<c0', {'rho0': True}),
    ('both', '0<s0<M<s1<N=c0', {}), ('both', '0<s0<s1<M=c0<N', {}), ('both', '0=s0<M<N<s1<c0', {}),
    ('both', '0<M<s0<s1<N<c0', {'rho0': True, 'survival': False}),
]
REFINE_N3_STEP = {'old': 46, 'recent': 37, 'both': 32}  # thorough: every k-th of the 1836 / 1488 / 1274 cells of three taxa


def refine_n3_cells(split):
    return refine_cells(3, split)[5::REFINE_N3_STEP[split]]


def refine_tasks(tier):
    """relational refinement inside a skyline (two / three runs of the real code on shared symbols)"""
    R = refine_cfg
    base = {'old': 2, 'recent': 2, 'both': 1}
    if tier == 'quick':
        return [('refine', R(split=sp, base=base[sp], cell=cell, **opt)) for sp, cell, opt in QUICK_REFINE]
    ts = []
    for sp in ('old', 'recent', 'both'):
        cells = refine_cells(2, sp)
        ts += [('refine', R(split=sp, base=base[sp], cell=cell)) for cell in cells]
        ts.append(('refine-cover', dict(n=2, split=sp, cells=cells)))
        if sp != 'both':  # rho-sampling at the skyline's own boundary, every second cell (tips on that boundary included)
            ts += [('refine', R(split=sp, base=2, cell=cell, rhob=True)) for cell in cells[::2]]
        ts += [('refine', R(split=sp, base=base[sp], cell=cell, rho0=True)) for cell in cells[1::3]]
        ts += [('refine', R(split=sp, base=base[sp], cell=cell, survival=False)) for cell in cells[2::3]]
        ts += [('refine', R(split=sp, base=base[sp], n=3, cell=cell)) for cell in refine_n3_cells(sp)]
    return ts


def has_tip_on_boundary(cell):
    items, rels = parse_cell(cell)
    blocks, blk_ = [], [items[0]]
    for it, rel in zip(items[1:], rels):
        if rel == '=':
            blk_.append(it)
        else:
            blocks.append(blk_)
            blk_ = [it]
    blocks.append(blk_)
    return any('B' in blk and any(x.startswith('s') for x in blk) for blk in blocks)


def distinct_tasks(tier):
    """two epochs with DISTINCT rates against the two-epoch oracle composed from the constant-rate solution"""
    D = density_cfg
    X = dict(m=2, distinct=True, times='abs', split={'rho0': False})
    if tier == 'quick':
        ts = [('density', D(cell=cell, **X)) for cell in QUICK_CELLS]
        ts.append(('density', D(cell='0=s0<B<s1<c0', survival=False, **X)))
        ts.append(('density', D(cell='0<s0<=s1<B<c0', rhob=True, **X)))  # rho at the boundary together with survival conditioning
        return ts
    ts = []
    for cell in CELLS_N2 + CELLS_N2_TIP0:
        for surv in (False, True):
            ts.append(('density', D(cell=cell, survival=surv, **X)))
            if not has_tip_on_boundary(cell):  # the oracle has no tip sampled at the inner boundary
                ts.append(('density', D(cell=cell, survival=surv, rhob=True, **X)))
    ts += [('density', D(n=3, cell=cell, **X)) for cell in CELLS_N3]
    ts.append(('density', D(n=3, cell='0<s2<s0<=s1<B<c0<c1', rhob=True, **X)))
    ts.append(('density', D(m=2, distinct=True, times='rel', origin='root_edge', cell='0<s0<=s1<B<c0', split={'rho0': False})))
    ts.append(('density', D(m=2, distinct=True, times='rel', cell='0<s0<B<s1<c0', split={'rho0': False})))
    ts.append(('density', D(m=2, distinct=True, times='abs', cell='0<s0<=s1<B<c0', split={'rho0': True})))
    ts.append(('density', D(m=2, distinct=True, times='abs', origin='root_edge', survival=False, cell='0<s0<=s1<B=c0', split={'rho0': False})))
    return ts


def run_cover_task(spec, tr):
    """the cells of the refinement tasks cover the stated domain (one solver query)"""
    c = density_cfg(m=2, n=spec['n'], times='abs')
    with tracing() as t:
        d = t.dag
        V = {nm: d.var(nm, v) for nm, v in initial_witness(c).items()}
        dom = domain_for(c)(d, V)
        dom.append(d.lt(0, V['rho']))
        if spec['tips'] == 'positive':
            dom += [d.lt(0, V[f's{i}']) for i in range(spec['n'])]
        if spec.get('half'):
            dom.append(d.le(V['s0'], V['s1']))
        if spec.get('strict'):  # quick tier: the boundary lies above the lower tip (thorough covers the rest)
            dom.append(d.lt(V['s0'], boundary_height(d, V, c)))
        cells = [d.and_(*cell_constraints(dict(c, cell=cell), d, V)) for cell in spec['cells']]
        st, r, _ = prove(d, dom, d.or_(*cells), timeout=60.0, tr=tr, label='cells cover the domain', parallel=True)
        if st == 'proved':
            tr.closures += 1
        else:
            tr.inconc(f'refinement cells n={spec["n"]}: coverage of the domain by the cells not certified ({st})')


def run_task(task, tr):
    import os

    t0 = time.time()
    try:
        return _run_task(task, tr)
    finally:
        if os.environ.get('VERIF_TIMING'):
            print(f'TIMING {time.time() - t0:7.1f}s regions={tr.regions} {str(task)[:230]}', flush=True)


def _run_task(task, tr):
    kind, arg = task
    if kind == 'plumb':
        return run_plumbing_task(arg, tr)
    if kind == 'beast':
        bad = oracle_reproduces_beast()
        tr.witness_runs += len(BEAST_LITERALS)
        for b in bad:
            tr.inconc('the oracle does not reproduce a BEAST2 literal of test_bdsky.py: ' + b)
        tr.sample({'oracle vs BEAST2 literals (test_bdsky.py, single-epoch cases)': [x[0] for x in BEAST_LITERALS], 'all reproduced': not bad})
        return
    if kind == 'cover':
        return run_cover_task(arg, tr)
    if kind == 'refine':
        return run_refine_task(arg, tr)
    if kind == 'refine-cover':
        return run_refine_cover_task(arg, tr)
    if kind == 'hist':
        return run_hist_task(arg, tr)
    if kind == 'model-hist':
        return run_model_hist_task(arg, tr)
    run_density_task(arg, tr)


def body(chk):
    chk.explanation = ('symbolic execution of the real birth-death(-skyline) log_prob on symbolic rates, sampling parameters, origin, '
                       'epoch boundary and node heights; path regions enumerated with a coverage certificate; on each region '
                       'impl == independently written Stadler-2010 density is decided by a chain of solver lemmas (exp/log/sqrt '
                       'applications generalised to real variables, their laws instantiated only after the solver proved the '
                       'premises); refinement inside a skyline is relational: the skyline (two epochs, distinct symbolic rates) and '
                       'its refinement (one epoch split at a symbolic new boundary) are both executed by the real code on shared '
                       'symbols and the equality of the two results is decided by the same kind of chain, in which extinction '
                       'probabilities shared by the two runs are generalised to fresh variables after their bounds were proved and '
                       'proved equalities are used as rewrite rules (well-definedness of what was rewritten away is transferred back '
                       'through the proved equalities); histories on ONE distribution / model object (second tree with fresh symbols, '
                       'parameter updates between calls) are compared call by call with freshly built objects on shared symbols: the '
                       'same expression closes syntactically, a value that still depends on an earlier call is a solver counterexample '
                       'replayed on plain tensors; JSON plumbing decided on the expression DAG with one distinct symbol per '
                       'documented key and epoch')
    chk.total.assumptions |= {
        'exp/log/sqrt are uninterpreted; only ground instances of their laws are used (congruence, exp(x+y)=exp(x)exp(y), exp(0)=1, '
        'x>0 => exp(x)>1, log(xy)=log x+log y for x,y>0, log 1=0, sqrt(x)^2=x and sqrt(x)>=0 for x>=0), each instantiated only after '
        'the solver proved its premises on the whole region',
        'domain: lambda>0, mu>0, psi>=0 (psi>0 when some tip is psi-sampled), 0<=rho<=1, 0<=r<=1, not (psi=0 and lambda=mu) '
        '[removable singularity of the closed form: the real code returns nan there], internal heights above their tips and at most '
        'the origin, 0 < boundary < origin',
        'a tip at height 0 is a rho-sample when rho>0 and a psi-sample when rho=0 (BEAST2 convention, reproduced by the literals of '
        'test_bdsky.py); with a removal probability the density is that of the labelled tree (+(n-1) log 2, as BEAST2 bdsky)',
        'origin omitted: the process starts at the root (limit of a zero-length root edge)',
        'log 2 enters through its float64 value on both sides',
        'agreement with numerical integration of the master equations and 4-8 epochs: not decidable with this technique, not claimed',
        'relational refinement: rates of both epochs > 0 (psi > 0 in particular), 0 < new boundary, boundaries strictly ordered and '
        'strictly inside (0, origin), origin given, absolute times, internal heights <= origin; no tip exactly on a NEW boundary (the '
        'property excludes a sampling event there); births on it and tips on the skyline\'s own boundary are included',
        'generalisation of a sub-expression (an extinction probability p_i, a constant B_i) to a fresh real variable inside a lemma is '
        'sound for proving: the lemma is then proved for every value of that quantity within the bounds that were proved for it',
        'one epoch -> three epochs is decided as two single splits (the real code is also run on the intermediate two-epoch skyline); '
        'equality is transitive',
        'removal probability with r=0 and rho=1 is examined in a separate task (corner): the general tasks assume r>0 or rho<1',
    }
    quick = chk.tier == 'quick'
    chk.total.bounds.update({
        'taxa': 'n = 2' if quick else 'n <= 3 (one epoch); n = 2 and selected n = 3 cells (two and three epochs)',
        'tree': 'the density sees the tree through node heights only: heights of a caterpillar ((0,1),2) with unconstrained tip '
                'order cover every 2/3-taxon tree up to relabelling; serial and contemporaneous tips, ties included',
        'one epoch': 'symbolic lambda, mu, psi, rho, r, origin, heights; with/without survival conditioning and removal probability; '
                     + ('origin given / root edge; times omitted / [0] relative' if quick else
                        'origin given / root edge / omitted; times omitted / [0] absolute / [0] relative')
                     + '; every path region (coverage certified by the solver)',
        'two epochs': ('identical rates, rho=0 at the new boundary, symbolic boundary, absolute times; cells of the boundary position: '
                       + ', '.join(QUICK_CELLS if quick else CELLS_N2 + CELLS_N2_TIP0)
                       + ('; quick: serial tips, rho>0, s0<=s1, boundary above the lower tip (cells certified to cover this)' if quick else
                          '; rho>0 (cells certified to cover the n=2 domain); rho=0 and root-edge variants on selected cells; n=3: ' + ', '.join(CELLS_N3[:6])
                          + ' (no coverage claim for n=3)')),
        'rho at the inner boundary': ('two epochs, identical rates, 0<rho_1<1 at the boundary where no tip is sampled, no survival '
                                      'conditioning, serial tips, rho>0: a cell with 2 crossing lineages (n=2)'
                                      + ('' if quick else ', cells with 0, 1 (n=2) and 3 (n=3) crossing lineages')
                                      + '; relative times with a root edge on one cell; oracle = constant-rate solution restarted at the '
                                      'boundary with 1-rho_eff = (1-rho_1) p(boundary), validated on the two-epoch BEAST2 literals'),
        'refinement inside a skyline (relational)': (
            'two epochs with DISTINCT symbolic rates (lambda, mu, psi of each epoch), symbolic rho, boundary, new boundary, origin and '
            'heights vs the three-epoch skyline with the older / the recent epoch split and its rates repeated, rho = 0 at the new '
            'boundary; one epoch vs the same epoch split in three (two new boundaries).  Cells = orderings (ties included) of 0, tip '
            'heights, internal heights and boundary heights (B: the skyline\'s boundary, N, M: new boundaries); every cell was one path '
            'region (coverage certificate per cell).  '
            + ('quick: n = 2, selected cells only (no coverage claim): ' + '; '.join(
                f"{sp}: {cell}" + (' [' + ', '.join(f'{k}={v}' for k, v in opt.items()) + ']' if opt else '') for sp, cell, opt in QUICK_REFINE)
               if quick else
               f'thorough: n = 2: ALL {len(refine_cells(2, "old"))} + {len(refine_cells(2, "recent"))} + {len(refine_cells(2, "both"))} cells '
               '(older epoch split / recent epoch split / one epoch in three) with rho > 0 and survival conditioning, certified by the '
               'solver to cover the domain (no tip exactly on a new boundary); with 0 < rho_1 < 1 at the skyline\'s own boundary: every '
               'second cell of the two-epoch splits; rho = 0 and no survival conditioning: every third cell each; n = 3: every '
               f'{REFINE_N3_STEP["old"]}th / {REFINE_N3_STEP["recent"]}th / {REFINE_N3_STEP["both"]}th of the 1836 / 1488 / 1274 cells '
               f'({len(refine_n3_cells("old"))} + {len(refine_n3_cells("recent"))} + {len(refine_n3_cells("both"))} cells, no coverage '
               'claim for n = 3)')),
        'two epochs with distinct rates vs the two-epoch oracle': (
            'symbolic rates of both epochs, rho, boundary, origin, heights; oracle = constant-rate solution of Stadler 2010 in each epoch, '
            'restarted at the boundary with 1 - rho_eff = (1 - rho_1) p(boundary) (reproduces the two-epoch BEAST2 literals '
            'test_1rho2times and test_likelihood_calculation4 of test_bdsky.py in plain floats); '
            + ('quick: n = 2, cells ' + ', '.join(QUICK_CELLS) + ' with survival conditioning, 0=s0<B<s1<c0 without, and one cell with '
               '0 < rho_1 < 1 at the boundary together with survival conditioning' if quick else
               'thorough: n = 2: all cells ' + ', '.join(CELLS_N2 + CELLS_N2_TIP0) + ' with and without survival conditioning (these cells '
               'are certified to cover the two-epoch domain with rho > 0), each also with 0 < rho_1 < 1 at the boundary unless a tip sits '
               'on the boundary; n = 3: ' + ', '.join(CELLS_N3) + '; relative times (with and without a root edge), root edge, rho = 0 on '
               'single cells')),
        'histories on one object': (
            'ONE PiecewiseConstantBirthDeath object: log_prob(tree A); log_prob(tree B), fresh symbolic node heights (all tip and internal '
            'heights, so the root height, the root-edge origin, a regular grid and relative boundaries move); log_prob(tree A) again; each '
            'value == the value of a freshly built object for the same symbols.  1 and 2 epochs (2: distinct symbolic rates) x origin '
            'given / root edge / omitted x times omitted (regular grid) / absolute / relative (times without an origin are not accepted '
            'by the class) x survival on / off, '
            + ('n = 2, up to 4 path regions per configuration (the generic witness first)' if quick else
               'n = 2 and n = 3, up to 12 path regions per configuration')
            + ' (explored regions only, no coverage certificate: the regions of two trees multiply).  ONE BDSKModel / BirthDeathModel '
              'object built from JSON, tree ((0,1),2) with symbolic internal heights: model(); tree changed to B; back to A; then fresh '
              'symbols assigned to R / delta / s / rho / origin / times / removal probability (lambda / mu / psi / rho / origin) one at a '
              'time with an evaluation after each; tree B again; each value == model() of a freshly built model given the same symbols; '
              'every plumbing variant (one and two epochs, incl. root edge with a regular grid and with relative times) except the '
              'two-epoch removal probability (raises: known finding).  Vacuity guards: the second tree / the updated parameters can '
              'change the value (solver sat, and the values differ at the witness)'),
        'JSON plumbing': 'every documented key of BDSKModel / BirthDeathModel with one epoch, and every key of BDSKModel once more with two '
                         'epochs (R, delta, s, rho, removal_probability of length 2, times [0, t1] given as parameter / list / omitted, '
                         'relative or absolute, origin given / root edge / omitted, survival on / off); BirthDeathModel is the constant-rate '
                         'model (no epochs)',
        'not covered': 'more than three epochs; three epochs only relationally (against the two-epoch skyline they refine), no independent '
                       'oracle for three epochs; refinement of a skyline with relative times, a root edge or an omitted origin; n = 3 '
                       'relational refinement on a sample of cells only; a tip sampled exactly at an inner boundary that carries '
                       'rho-sampling is outside the two-epoch oracle (the relational tasks include it, also together with rho-sampled '
                       'tips at the present); the identical-rate refinement tasks cannot see a '
                       'misplaced boundary (the density does not depend on it), the distinct-rate tasks can; removal probability with '
                       'several epochs (raises: known finding); batched parameters; numerical integration of the master equations',
    })
    chk.total.stubs |= {'exp', 'log', 'sqrt (uninterpreted, generalised to real variables inside every lemma)'}
    pmap(run_task, tasks_for(chk.tier), chk.total, workers=12)


def replay_file(path):
    r = json.load(open(path))['replay']
    if 'cfg' in r:
        ok, detail = replay(r['cfg'], r['values'])
    elif 'refine_cfg' in r:
        ok, detail = refine_replay(r['refine_cfg'], r['values'])
    elif 'hist_cfg' in r:
        ok, detail = hist_replay(r['hist_cfg'], r['values'])
    elif r.get('label', '').startswith('history on one '):
        lab = r['label']
        ok, detail = model_hist_replay(lab[lab.index('[') + 1:lab.rindex(']')], r['values'])
    else:
        lab = r.get('label', '')
        variant = lab[lab.index('[') + 1:lab.rindex(']')]
        ok, detail = False, 'no failing goal'
        for which in ['call'] + ['attr:' + k for k in ('removal_probability', 'times', 'origin', 'rho', 'relative_times', 'survival')]:
            ok, detail = plumb_replay(variant, which)
            if ok:
                break
    print(('REPRODUCED ' if ok else 'NOT REPRODUCED ') + detail)
    return 1 if ok else 0


if __name__ == '__main__':
    if '--replay' in sys.argv:
        sys.exit(replay_file(sys.argv[sys.argv.index('--replay') + 1]))
    sys.exit(main_for(PID, body))
