"""C11 Cached values never go stale.

A composite model graph containing every parameter kind (plain, view, concatenated,
transformed with and without parametric transform) and the cached model classes is
built from JSON.  Histories of update operations (each assignment writes FRESH
symbols) interleaved with evaluations are enumerated; after every operation each
model value / derived tensor must equal the value of a freshly built copy holding
the same symbols, for all values (a stale cache still mentions the old symbols).
"A parameter update never raises" is part of every run.

Observer-subset histories: only one observer (thorough: also two) is evaluated before /
between / after the updates.  In the `variational` graph the observers are the variational
objectives, which read their variational distribution through rsample() / sample() /
entropy() and not (or not only) through __call__: the models in the middle of the
notification chain (Distribution, JointDistributionModel, DeterministicNormal) then hold an
invalid cache - never called since construction - while the objective listening to them
holds a valid one, and every notification has to pass through them all the same.  Draws use
common random numbers (one tensor of noise symbols per result shape), so that a cached
objective and the value of a freshly built copy are comparable.

Real-loop histories: the update is made by the REAL torchtree loop running on SymTensors - Optimizer.run
(Optimizer._run with torch.optim.SGD / Adam, Optimizer._run_closure with LBFGS) maximising the joint / an ELBO,
MCMC.run with Scaler / SlidingWindow / HMC operators (both decisions, the uniform draw is a symbol).  The parameter
values a loop leaves are expressions (x - lr * dJ/dx, s * x, x + eps * M^-1 p ...); the freshly built copy receives the
same expression ids, so a cache that was not invalidated still mentions the pre-step symbols.  A logger hook compares
after every iteration of the loop as well.

Further graphs (`unrooted`, `epidemic`, `module`) hold the parameter classes and cached model classes the first four do
not (see bounds['classes'] in body()); cpu() / to(dtype) of every parameter class are operations that must not raise.
A raise met on the symbolic run is reported only after the same history raised on plain tensors.
"""
from __future__ import annotations

import contextlib
import io
import itertools
import math
import os
import sys
import warnings

import torch

import common as cm
from symtorch import SymMath, SymTensor, cur, from_ids, new_vars, tracing
from vlib.core import main_for, pmap

PID = 'C11'
N = 3
SEQS = {'t0': 'ACRA', 't1': 'CG-C', 't2': 'GTNG'}


# ------------------------------------------------------------------ scenarios
def scenario_phylo():
    taxa = cm.taxa_json(N)
    tree = cm.ratio_tree_json(((0, 1), 2), N)
    tree['taxa'] = taxa
    spec = [
        {'id': 'kk', 'type': 'Parameter', 'tensor': [2.0, 5.0]},
        {'id': 'kappa', 'type': 'ViewParameter', 'parameter': 'kk', 'indices': '0:1'},
        {'id': 'theta_unc', 'type': 'Parameter', 'tensor': [0.3]},
        {'id': 'theta', 'type': 'TransformedParameter', 'transform': 'torch.distributions.ExpTransform', 'x': 'theta_unc'},
        {'id': 'like', 'type': 'TreeLikelihoodModel', 'tree_model': tree,
         'site_model': {'id': 'site', 'type': 'WeibullSiteModel', 'categories': 2,
                        'shape': {'id': 'shape', 'type': 'Parameter', 'tensor': [0.7]},
                        'invariant': {'id': 'pinv', 'type': 'Parameter', 'tensor': [0.2]}},
         'substitution_model': {'id': 'subst', 'type': 'HKY', 'kappa': 'kappa',
                                'frequencies': {'id': 'freqs', 'type': 'Parameter', 'tensor': [0.1, 0.2, 0.3, 0.4]}},
         'branch_model': {'id': 'clock', 'type': 'StrictClockModel', 'tree_model': 'tree',
                          'rate': {'id': 'rate', 'type': 'Parameter', 'tensor': [0.01]}},
         'site_pattern': {'id': 'sp', 'type': 'SitePattern', 'alignment': cm.alignment_json(SEQS, taxa='taxa')}},
        {'id': 'coal', 'type': 'ConstantCoalescentModel', 'theta': 'theta', 'tree_model': 'tree'},
        {'id': 'prior_kappa', 'type': 'Distribution', 'distribution': 'torch.distributions.LogNormal', 'x': 'kappa',
         'parameters': {'loc': {'id': 'pk_mean', 'type': 'Parameter', 'tensor': [1.0]},
                        'scale': {'id': 'pk_scale', 'type': 'Parameter', 'tensor': [1.25]}}},
        {'id': 'q_theta', 'type': 'Distribution', 'distribution': 'torch.distributions.Normal', 'x': 'theta_unc',
         'parameters': {'loc': {'id': 'q_loc', 'type': 'Parameter', 'tensor': [0.1]},
                        'scale': {'id': 'q_scale', 'type': 'Parameter', 'tensor': [0.5]}}},
        {'id': 'prior_kk', 'type': 'Distribution', 'distribution': 'torch.distributions.Gamma', 'x': 'kk',
         'parameters': {'concentration': {'id': 'pkk_c', 'type': 'Parameter', 'tensor': [2.0]},
                        'rate': {'id': 'pkk_r', 'type': 'Parameter', 'tensor': [0.5]}}},
        {'id': 'kk_exp', 'type': 'TransformedParameter', 'transform': 'torch.distributions.ExpTransform', 'x': 'kk'},
        {'id': 'joint', 'type': 'JointDistributionModel', 'distributions': ['like', 'coal', 'prior_kappa', 'prior_kk', 'tree']},
    ]
    base = {'kk': [2.0, 5.0], 'pkk_c': [2.0], 'pkk_r': [0.5], 'theta_unc': [0.3], 'shape': [0.7], 'pinv': [0.2], 'freqs': [0.1, 0.2, 0.3, 0.4],
            'rate': [0.01], 'tree.ratios': [0.5], 'tree.root_height': [10.0], 'pk_mean': [1.0], 'pk_scale': [1.25],
            'q_loc': [0.1], 'q_scale': [0.5]}
    evaluators = {
        'joint()': lambda D: D['joint'](),
        'like()': lambda D: D['like'](),
        'coal()': lambda D: D['coal'](),
        'prior_kappa()': lambda D: D['prior_kappa'](),
        'tree() [node-height log-Jacobian]': lambda D: D['tree'](),
        'tree.node_heights': lambda D: D['tree'].node_heights,
        'tree.branch_lengths()': lambda D: D['tree'].branch_lengths(),
        'site.rates()': lambda D: D['site'].rates(),
        'site.probabilities()': lambda D: D['site'].probabilities(),
        'theta.tensor': lambda D: D['theta'].tensor,
        'theta() [log-Jacobian]': lambda D: D['theta'](),
        'kappa.tensor': lambda D: D['kappa'].tensor,
        'q_theta()': lambda D: D['q_theta'](),
        'clock.rates': lambda D: D['clock'].rates,
        'prior_kk() [prior on the parent of the kappa view]': lambda D: D['prior_kk'](),
        'kk_exp.tensor [transform of the parent of the kappa view]': lambda D: D['kk_exp'].tensor,
    }
    ops = {
        'assign ratios': ('assign', 'tree.ratios', (0.05, 0.95)),
        'assign root_height': ('assign', 'tree.root_height', (2.0, 30.0)),
        'assign kk (parent of the kappa view)': ('assign', 'kk', (0.5, 9.0)),
        'assign through the kappa view': ('assign', 'kappa', (0.5, 9.0)),
        'assign theta_unc (under the Exp transform)': ('assign', 'theta_unc', (-1.0, 1.0)),
        'assign through the transformed theta': ('assign', 'theta', (0.2, 4.0)),
        'assign shape': ('assign', 'shape', (0.2, 3.0)),
        'assign pinv': ('assign', 'pinv', (0.05, 0.6)),
        'assign clock rate': ('assign', 'rate', (0.001, 0.1)),
        'assign prior hyper-parameter pk_scale': ('assign', 'pk_scale', (0.5, 2.0)),
        'in-place write into ratios + fire_parameter_changed': ('inplace', 'tree.ratios', (0.05, 0.95)),
        'in-place write into rate + fire_parameter_changed': ('inplace', 'rate', (0.001, 0.1)),
        'rsample of q_theta into theta_unc': ('rsample', 'q_theta', (-1.0, 1.0)),
        'scaler-operator step on rate then reject': ('op_reject', 'rate', (0.001, 0.1)),
    }
    return spec, base, evaluators, ops


def scenario_smoothing():
    spec = [
        {'id': 'field_a', 'type': 'Parameter', 'tensor': [0.1, 0.4]},
        {'id': 'field_b', 'type': 'Parameter', 'tensor': [0.9]},
        {'id': 'field', 'type': 'CatParameter', 'parameters': ['field_a', 'field_b'], 'dim': -1},
        {'id': 'pop', 'type': 'TransformedParameter', 'transform': 'torch.distributions.ExpTransform', 'x': 'field'},
        {'id': 'gmrf', 'type': 'GMRF', 'x': 'field', 'precision': {'id': 'tau', 'type': 'Parameter', 'tensor': [1.5]}},
        {'id': 'skygrid', 'type': 'PiecewiseConstantCoalescentGridModel', 'theta': 'pop', 'grid': [1.2, 2.5],
         'times': [0.0, 0.0, 0.0, 1.0, 3.0], 'events': [1, 1, 1, 0, 0]},
        {'id': 'mg94', 'type': 'MG94', 'data_type': {'id': 'dt', 'type': 'CodonDataType', 'genetic_code': 'Universal'},
         'alpha': {'id': 'alpha', 'type': 'Parameter', 'tensor': [1.0]},
         'beta': {'id': 'beta', 'type': 'Parameter', 'tensor': [1.0]},
         'kappa': {'id': 'mkappa', 'type': 'Parameter', 'tensor': [2.0]},
         'frequencies': {'id': 'cfreqs', 'type': 'Parameter', 'tensor': [1.0 / 61] * 61}},
        {'id': 'joint', 'type': 'JointDistributionModel', 'distributions': ['gmrf', 'skygrid']},
    ]
    base = {'field_a': [0.1, 0.4], 'field_b': [0.9], 'tau': [1.5], 'alpha': [1.0], 'beta': [1.0], 'mkappa': [2.0]}
    evaluators = {
        'joint()': lambda D: D['joint'](),
        'gmrf()': lambda D: D['gmrf'](),
        'skygrid()': lambda D: D['skygrid'](),
        'field.tensor [cat]': lambda D: D['field'].tensor,
        'pop.tensor [exp of cat]': lambda D: D['pop'].tensor,
        'mg94.q()[0, 1:4]': lambda D: D['mg94'].q()[0, 1:4],
    }
    ops = {
        'assign field_a (member of the concatenation)': ('assign', 'field_a', (-1.0, 1.0)),
        'assign through the concatenated field': ('assign', 'field', (-1.0, 1.0)),
        'assign through the transformed pop (exp of the concatenation)': ('assign', 'pop', (0.3, 3.0)),
        'assign precision': ('assign', 'tau', (0.2, 5.0)),
        'assign MG94 kappa': ('assign', 'mkappa', (0.5, 5.0)),
        'assign MG94 beta': ('assign', 'beta', (0.5, 5.0)),
        'in-place write into field_b + fire_parameter_changed': ('inplace', 'field_b', (-1.0, 1.0)),
    }
    return spec, base, evaluators, ops


def scenario_timetree():
    """plain TimeTreeModel (internal heights as the parameter), per-branch clock, CTMC scale prior, skyride"""
    taxa = cm.taxa_json(N)
    tree = cm.time_tree_json(((0, 1), 2), N)
    tree['taxa'] = taxa
    spec = [
        {'id': 'like', 'type': 'TreeLikelihoodModel', 'tree_model': tree,
         'site_model': {'id': 'site', 'type': 'InvariantSiteModel', 'invariant': {'id': 'pinv', 'type': 'Parameter', 'tensor': [0.2]},
                        'mu': {'id': 'mu', 'type': 'Parameter', 'tensor': [1.3]}},
         'substitution_model': {'id': 'subst', 'type': 'HKY', 'kappa': {'id': 'kappa', 'type': 'Parameter', 'tensor': [2.0]},
                                'frequencies': {'id': 'freqs', 'type': 'Parameter', 'tensor': [0.1, 0.2, 0.3, 0.4]}},
         'branch_model': {'id': 'clock', 'type': 'SimpleClockModel', 'tree_model': 'tree',
                          'rate': {'id': 'rate', 'type': 'Parameter', 'tensor': [0.01, 0.02, 0.015, 0.03]}},
         'site_pattern': {'id': 'sp', 'type': 'SitePattern', 'alignment': cm.alignment_json(SEQS, taxa='taxa')}},
        {'id': 'coal', 'type': 'PiecewiseConstantCoalescentModel', 'theta': {'id': 'theta', 'type': 'Parameter', 'tensor': [2.0, 3.0]},
         'tree_model': 'tree'},
        {'id': 'ctmc', 'type': 'CTMCScale', 'x': 'rate', 'tree_model': 'tree'},
        {'id': 'joint', 'type': 'JointDistributionModel', 'distributions': ['like', 'coal', 'ctmc']},
    ]
    base = {'tree.heights': [1.0, 2.5], 'pinv': [0.2], 'mu': [1.3], 'kappa': [2.0], 'freqs': [0.1, 0.2, 0.3, 0.4],
            'rate': [0.01, 0.02, 0.015, 0.03], 'theta': [2.0, 3.0]}
    evaluators = {
        'joint()': lambda D: D['joint'](),
        'like()': lambda D: D['like'](),
        'coal()': lambda D: D['coal'](),
        'ctmc()': lambda D: D['ctmc'](),
        'tree.node_heights': lambda D: D['tree'].node_heights,
        'tree.branch_lengths()': lambda D: D['tree'].branch_lengths(),
        'site.probabilities()': lambda D: D['site'].probabilities(),
        'site.rates()': lambda D: D['site'].rates(),
        'subst.kappa': lambda D: D['subst'].kappa,
        'clock.rates': lambda D: D['clock'].rates,
    }
    ops = {
        'assign internal heights': ('assign', 'tree.heights', (0.5, 6.0)),
        'in-place write into internal heights + fire_parameter_changed': ('inplace', 'tree.heights', (0.5, 6.0)),
        'assign per-branch clock rates': ('assign', 'rate', (0.001, 0.1)),
        'assign theta': ('assign', 'theta', (0.2, 5.0)),
        'assign pinv': ('assign', 'pinv', (0.05, 0.6)),
        'assign mu': ('assign', 'mu', (0.3, 3.0)),
        'assign kappa': ('assign', 'kappa', (0.5, 9.0)),
    }
    return spec, base, evaluators, ops


SEQS4 = {'t0': 'ACRAT', 't1': 'CG-CT', 't2': 'GTNGA', 't3': 'ATGCA'}


def _par(id_, tensor):
    return {'id': id_, 'type': 'Parameter', 'tensor': tensor}


def scenario_unrooted():
    """classes no earlier scenario holds: UnRootedTreeModel (branch lengths as the parameter), GTR, ConstantSiteModel with mu,
    the compound gamma-Dirichlet tree prior, the shrinkage priors (BayesianBridge in both forms, ScaleMixtureNormal with slab)
    and the precision-integrated GMRF (weighted)"""
    n = 4
    taxa = cm.taxa_json(n)
    tree = cm.unrooted_tree_json(((0, 1), (2, 3)), n)
    tree['taxa'] = taxa
    spec = [
        {'id': 'like', 'type': 'TreeLikelihoodModel', 'tree_model': tree,
         'site_model': {'id': 'site', 'type': 'ConstantSiteModel', 'mu': _par('mu', [1.3])},
         'substitution_model': {'id': 'subst', 'type': 'GTR', 'rates': _par('gtr_rates', [1.0, 2.0, 0.5, 0.7, 3.0, 1.0]),
                                'frequencies': _par('freqs', [0.1, 0.2, 0.3, 0.4])},
         'site_pattern': {'id': 'sp', 'type': 'SitePattern', 'alignment': cm.alignment_json(SEQS4, taxa='taxa')}},
        {'id': 'cgd', 'type': 'CompoundGammaDirichletPrior', 'tree_model': 'tree', 'alpha': _par('cgd_alpha', [1.5]),
         'c': _par('cgd_c', [0.8]), 'shape': _par('cgd_shape', [2.0]), 'rate': _par('cgd_rate', [0.5])},
        _par('coef', [0.4, -0.7, 1.1]),
        {'id': 'bridge', 'type': 'BayesianBridge', 'x': 'coef', 'scale': _par('b_scale', [0.9]), 'alpha': _par('b_alpha', [0.5])},
        {'id': 'bridge_local', 'type': 'BayesianBridge', 'x': 'coef', 'scale': 'b_scale',
         'local_scale': _par('b_local', [0.6, 1.2, 0.8]), 'slab': _par('b_slab', [2.0])},
        {'id': 'horseshoe', 'type': 'ScaleMixtureNormal', 'x': 'coef', 'loc': 0.0, 'global_scale': _par('h_global', [0.7]),
         'local_scale': _par('h_local', [0.5, 1.5, 0.9]), 'slab': _par('h_slab', [1.7])},
        {'id': 'gint', 'type': 'GMRFGammaIntegrated', 'x': 'coef', 'shape': 1.5, 'rate': 2.0},
        {'id': 'joint', 'type': 'JointDistributionModel', 'distributions': ['like', 'cgd', 'bridge', 'bridge_local', 'horseshoe', 'gint']},
    ]
    base = {'tree.blens': [0.1, 0.11, 0.12, 0.13, 0.14], 'mu': [1.3], 'gtr_rates': [1.0, 2.0, 0.5, 0.7, 3.0, 1.0],
            'freqs': [0.1, 0.2, 0.3, 0.4], 'cgd_alpha': [1.5], 'cgd_c': [0.8], 'cgd_shape': [2.0], 'cgd_rate': [0.5],
            'coef': [0.4, -0.7, 1.1], 'b_scale': [0.9], 'b_alpha': [0.5], 'b_local': [0.6, 1.2, 0.8], 'b_slab': [2.0],
            'h_global': [0.7], 'h_local': [0.5, 1.5, 0.9], 'h_slab': [1.7]}
    evaluators = {
        'joint()': lambda D: D['joint'](),
        'like()': lambda D: D['like'](),
        'cgd() [compound gamma-Dirichlet prior]': lambda D: D['cgd'](),
        'bridge()': lambda D: D['bridge'](),
        'bridge_local()': lambda D: D['bridge_local'](),
        'horseshoe()': lambda D: D['horseshoe'](),
        'gint()': lambda D: D['gint'](),
        'tree.branch_lengths()': lambda D: D['tree'].branch_lengths(),
        'site.rates()': lambda D: D['site'].rates(),
        'subst.rates': lambda D: D['subst'].rates,
    }
    ops = {
        'assign branch lengths': ('assign', 'tree.blens', (0.02, 0.5)),
        'in-place write into the branch lengths + fire_parameter_changed': ('inplace', 'tree.blens', (0.02, 0.5)),
        'assign mu': ('assign', 'mu', (0.3, 3.0)),
        'assign GTR rates': ('assign', 'gtr_rates', (0.3, 3.0)),
        'assign cgd alpha': ('assign', 'cgd_alpha', (1.1, 3.0)),
        'assign cgd c': ('assign', 'cgd_c', (0.3, 2.0)),
        'assign cgd shape': ('assign', 'cgd_shape', (1.0, 3.0)),
        'in-place write into cgd rate + fire_parameter_changed': ('inplace', 'cgd_rate', (0.2, 2.0)),
        'assign coef': ('assign', 'coef', (0.2, 2.0)),
        'assign bridge scale (shared by both bridges)': ('assign', 'b_scale', (0.3, 2.0)),
        'assign bridge exponent': ('assign', 'b_alpha', (0.25, 1.0)),
        'assign bridge local scales': ('assign', 'b_local', (0.3, 2.0)),
        'assign bridge slab': ('assign', 'b_slab', (1.0, 3.0)),
        'assign horseshoe global scale': ('assign', 'h_global', (0.3, 2.0)),
        'in-place write into horseshoe local scales + fire_parameter_changed': ('inplace', 'h_local', (0.3, 2.0)),
        'assign horseshoe slab': ('assign', 'h_slab', (1.0, 3.0)),
    }
    return spec, base, evaluators, ops


def scenario_epidemic():
    """time trees with the remaining tree priors and parameter kinds: BirthDeathModel and BDSKModel (one epoch), exponential,
    piecewise-linear-grid and theta-integrated coalescents, the Poisson tree likelihood and the time-aware precision-integrated
    GMRF on a plain TimeTreeModel; a FlexibleTimeTreeModel whose internal heights are a TransformedParameter
    (DifferenceNodeHeightTransform of the tree itself).  RootParameter is not part of any graph: the class cannot be
    instantiated (it does not implement the abstract requires_grad setter of AbstractParameter)."""
    taxa = cm.taxa_json(N)
    tree = cm.time_tree_json(((0, 1), 2), N)
    tree['taxa'] = taxa
    ftree = {'id': 'ftree', 'type': 'torchtree.evolution.tree_model_flexible.FlexibleTimeTreeModel', 'newick': cm.to_newick(((0, 1), 2)),
             'taxa': 'taxa',
             'internal_heights': {'id': 'ftree.heights', 'type': 'TransformedParameter',
                                  'transform': 'torchtree.evolution.tree_height_transform.DifferenceNodeHeightTransform',
                                  'parameters': {'tree_model': 'ftree'}, 'x': _par('differences', [0.3, 0.8])}}
    spec = [
        tree,
        {'id': 'bd', 'type': 'BirthDeathModel', 'tree_model': 'tree', 'lambda': _par('bd_lambda', [2.0]), 'mu': _par('bd_mu', [0.5]),
         'psi': _par('bd_psi', [0.3]), 'rho': _par('bd_rho', [0.6]), 'origin': _par('bd_origin', [6.0])},
        {'id': 'bdsk', 'type': 'BDSKModel', 'tree_model': 'tree', 'R': _par('R', [1.8]), 'delta': _par('delta', [0.9]),
         's': _par('s', [0.4]), 'rho': _par('sk_rho', [0.5]), 'origin': _par('sk_origin', [7.0])},
        {'id': 'expo', 'type': 'ExponentialCoalescentModel', 'theta': _par('e_theta', [3.0]), 'growth': _par('growth', [0.4]),
         'tree_model': 'tree'},
        {'id': 'plin', 'type': 'PiecewiseLinearCoalescentGridModel', 'theta': _par('l_theta', [2.0, 3.0, 1.5]), 'grid': [1.5, 4.0],
         'tree_model': 'tree'},
        {'id': 'cint', 'type': 'ConstantCoalescentIntegratedModel', 'alpha': 2.0, 'beta': 1.5, 'tree_model': 'tree'},
        {'id': 'poisson', 'type': 'PoissonTreeLikelihood', 'tree_model': 'tree',
         'branch_model': {'id': 'clock', 'type': 'StrictClockModel', 'tree_model': 'tree', 'rate': _par('rate', [2.5])},
         'edge_lengths': [3, 1, 4, 2]},
        {'id': 'gint_t', 'type': 'GMRFGammaIntegrated', 'x': _par('field', [0.2, 0.9]), 'shape': 1.5, 'rate': 2.0, 'tree_model': 'tree'},
        ftree,
        {'id': 'fcoal', 'type': 'ConstantCoalescentModel', 'theta': _par('f_theta', [1.5]), 'tree_model': 'ftree'},
        {'id': 'joint', 'type': 'JointDistributionModel',
         'distributions': ['bd', 'bdsk', 'expo', 'plin', 'cint', 'poisson', 'gint_t', 'fcoal', 'ftree.heights']},
    ]
    base = {'tree.heights': [1.0, 2.5], 'bd_lambda': [2.0], 'bd_mu': [0.5], 'bd_psi': [0.3], 'bd_rho': [0.6], 'bd_origin': [6.0],
            'R': [1.8], 'delta': [0.9], 's': [0.4], 'sk_rho': [0.5], 'sk_origin': [7.0], 'e_theta': [3.0], 'growth': [0.4],
            'l_theta': [2.0, 3.0, 1.5], 'rate': [2.5], 'field': [0.2, 0.9], 'differences': [0.3, 0.8], 'f_theta': [1.5]}
    evaluators = {
        'joint()': lambda D: D['joint'](),
        'bd() [BirthDeathModel]': lambda D: D['bd'](),
        'bdsk()': lambda D: D['bdsk'](),
        'expo()': lambda D: D['expo'](),
        'plin()': lambda D: D['plin'](),
        'cint()': lambda D: D['cint'](),
        'poisson()': lambda D: D['poisson'](),
        'gint_t()': lambda D: D['gint_t'](),
        'fcoal()': lambda D: D['fcoal'](),
        'tree.node_heights': lambda D: D['tree'].node_heights,
        'tree.branch_lengths()': lambda D: D['tree'].branch_lengths(),
        'ftree.node_heights': lambda D: D['ftree'].node_heights,
        'ftree.branch_lengths()': lambda D: D['ftree'].branch_lengths(),
        'ftree.heights.tensor [transformed]': lambda D: D['ftree.heights'].tensor,
    }
    ops = {
        'assign internal heights': ('assign', 'tree.heights', (0.5, 5.0)),
        'in-place write into internal heights + fire_parameter_changed': ('inplace', 'tree.heights', (0.5, 5.0)),
        'assign birth rate': ('assign', 'bd_lambda', (1.0, 3.0)),
        'assign sampling proportion rho of the birth-death model': ('assign', 'bd_rho', (0.2, 0.9)),
        'assign origin of the birth-death model': ('assign', 'bd_origin', (5.5, 9.0)),
        'assign R': ('assign', 'R', (1.1, 3.0)),
        'assign delta': ('assign', 'delta', (0.5, 2.0)),
        'assign origin of the skyline model': ('assign', 'sk_origin', (5.5, 9.0)),
        'assign growth': ('assign', 'growth', (0.1, 1.0)),
        'assign theta of the exponential coalescent': ('assign', 'e_theta', (1.0, 5.0)),
        'assign theta of the piecewise-linear coalescent': ('assign', 'l_theta', (1.0, 4.0)),
        'assign clock rate of the Poisson likelihood': ('assign', 'rate', (1.0, 4.0)),
        'assign field': ('assign', 'field', (-1.0, 1.0)),
        'assign differences (under the node-height transform of the flexible tree)': ('assign', 'differences', (0.1, 2.0)),
        'assign through the transformed internal heights of the flexible tree': ('assign', 'ftree.heights', (0.5, 5.0)),
    }
    return spec, base, evaluators, ops


class TinyNet(torch.nn.Module):
    """the torch.nn.Module behind the Module / ModuleParameter scenario: forward() is a function of the two tensors the module
    was CONSTRUCTED with (torchtree.nn.Module hands it parameter.tensor once)"""

    def __init__(self, weight, bias):
        super().__init__()
        self.weight, self.bias = weight, bias

    def forward(self):
        return torch.cat(((self.weight * self.weight).sum(-1, keepdim=True) + self.bias, self.weight.sum(-1, keepdim=True) * self.bias), -1)


# parameters whose tensor object is owned by a torch.nn.Module: only in-place updates (+ notification) reach the module, so the
# initial symbolic state and the state of a freshly built copy are written in place as well
INPLACE_ONLY = {'module': {'w', 'b'}}


def scenario_module():
    """torchtree.nn.Module (a CallableModel around a torch.nn.Module that owns the tensors of its parameters, listening to them
    through a Container) and ModuleParameter (a parameter whose tensor is the output of that module), read by a Distribution"""
    spec = [
        _par('w', [0.5, -1.5]), _par('b', [0.25]),
        {'id': 'net', 'type': 'torchtree.nn.module.Module', 'module': 'C11.TinyNet', 'parameters': {'weight': 'w', 'bias': 'b'}},
        {'id': 'mp', 'type': 'ModuleParameter', 'module': 'net'},
        {'id': 'prior', 'type': 'Distribution', 'distribution': 'torch.distributions.Normal', 'x': 'mp',
         'parameters': {'loc': _par('p_loc', [0.5]), 'scale': _par('p_scale', [2.0])}},
        {'id': 'joint', 'type': 'JointDistributionModel', 'distributions': ['prior']},
    ]
    base = {'w': [0.5, -1.5], 'b': [0.25], 'p_loc': [0.5], 'p_scale': [2.0]}
    evaluators = {
        'joint()': lambda D: D['joint'](),
        'prior()': lambda D: D['prior'](),
        'net() [Module]': lambda D: D['net'](),
        'mp.tensor [ModuleParameter]': lambda D: D['mp'].tensor,
    }
    ops = {
        'in-place write into w + fire_parameter_changed': ('inplace', 'w', (-2.0, 2.0)),
        'in-place write into b + fire_parameter_changed': ('inplace', 'b', (-1.0, 1.0)),
        'assign p_loc': ('assign', 'p_loc', (-1.0, 1.0)),
        'assign p_scale': ('assign', 'p_scale', (0.5, 3.0)),
    }
    return spec, base, evaluators, ops


S_DRAWS = 2  # Monte-Carlo sample count of the objectives


def scenario_variational():
    """Models that are read through something else than __call__: the variational objectives read their variational
    distribution through rsample()/sample()/entropy() (ELBO with entropy=True never calls q()), a JointDistributionModel
    used as variational distribution forwards rsample()/entropy() to its members, DeterministicNormal draws from a
    noise tensor fixed at construction.  A model in the middle of the notification chain can therefore hold an INVALID
    cache (never called since construction / since the last update) while the objective listening to it holds a valid
    one; every later notification has to pass through it all the same.  The variational parameters are reached
    through views (q_loc, q2_loc of `locs`) and through an Exp-transformed scale (as the CLI emits them)."""
    S = S_DRAWS

    def normal(id_, x, loc, scale):
        return {'id': id_, 'type': 'Distribution', 'distribution': 'torch.distributions.Normal', 'x': x,
                'parameters': {'loc': loc, 'scale': scale}}

    def objective(id_, type_, samples, q='var', p='joint', **kw):
        o = {'id': id_, 'type': type_, 'samples': samples, 'variational': q, 'joint': p}
        o.update(kw)
        return o

    spec = [
        {'id': 'locs', 'type': 'Parameter', 'tensor': [0.1, 0.2, -0.3]},
        {'id': 'q_loc', 'type': 'ViewParameter', 'parameter': 'locs', 'indices': '0:2'},
        {'id': 'q2_loc', 'type': 'ViewParameter', 'parameter': 'locs', 'indices': '2:3'},
        {'id': 'q_logscale', 'type': 'Parameter', 'tensor': [-0.2, 0.3]},
        {'id': 'q_scale', 'type': 'TransformedParameter', 'transform': 'torch.distributions.ExpTransform', 'x': 'q_logscale'},
        {'id': 'x', 'type': 'Parameter', 'tensor': [0.5, 1.5]},
        {'id': 'z_unc', 'type': 'Parameter', 'tensor': [0.3]},
        {'id': 'z', 'type': 'TransformedParameter', 'transform': 'torch.distributions.ExpTransform', 'x': 'z_unc'},
        normal('q', 'x', 'q_loc', 'q_scale'),
        normal('q2', 'z_unc', 'q2_loc', {'id': 'q2_scale', 'type': 'Parameter', 'tensor': [0.7]}),
        {'id': 'var', 'type': 'JointDistributionModel', 'distributions': ['q', 'q2']},
        normal('prior_x', 'x', {'id': 'p_loc', 'type': 'Parameter', 'tensor': [0.0]}, {'id': 'p_scale', 'type': 'Parameter', 'tensor': [3.0]}),
        {'id': 'prior_z', 'type': 'Distribution', 'distribution': 'torch.distributions.LogNormal', 'x': 'z',
         'parameters': {'loc': {'id': 'pz_loc', 'type': 'Parameter', 'tensor': [0.4]},
                        'scale': {'id': 'pz_scale', 'type': 'Parameter', 'tensor': [1.25]}}},
        {'id': 'joint', 'type': 'JointDistributionModel', 'distributions': ['prior_x', 'prior_z', 'z']},
        objective('elbo', 'ELBO', [S]),
        objective('elbo_ent', 'ELBO', [S], entropy=True),
        objective('elbo_ms', 'ELBO', [S, 2]),
        objective('elbo_score', 'ELBO', [S], score=True),
        objective('klpq', 'KLpq', [S]),
        objective('klpqi', 'KLpqImportance', [S]),
        objective('vr', 'VR', [S], alpha=0.5),
        objective('cubo', 'CUBO', [S], n=2.0),
        # a single Distribution (not a joint) as variational distribution: same variational parameters (view, transformed
        # scale) and prior hyper-parameters, its own variable u (drawing x without z_unc would mix sample shapes in `var`)
        normal('qu', {'id': 'u', 'type': 'Parameter', 'tensor': [0.4, -0.6]}, 'q_loc', 'q_scale'),
        normal('prior_u', 'u', 'p_loc', 'p_scale'),
        objective('elbo_q', 'ELBO', [S], q='qu', p='prior_u', entropy=True),
        # DeterministicNormal: noise fixed at construction
        {'id': 'dq', 'type': 'DeterministicNormal', 'x': {'id': 'w', 'type': 'Parameter', 'tensor': [0.2]}, 'shape': [S],
         'loc': {'id': 'dn_loc', 'type': 'Parameter', 'tensor': [0.1]},
         'scale': {'id': 'dn_scale', 'type': 'Parameter', 'tensor': [0.6]}},
        normal('prior_w', 'w', {'id': 'pw_loc', 'type': 'Parameter', 'tensor': [0.0]}, {'id': 'pw_scale', 'type': 'Parameter', 'tensor': [2.0]}),
        objective('elbo_dn', 'ELBO', [S], q='dq', p='prior_w'),
        objective('elbo_dn_ent', 'ELBO', [S], q='dq', p='prior_w', entropy=True),
    ]
    base = {'locs': [0.1, 0.2, -0.3], 'q_logscale': [-0.2, 0.3], 'q2_scale': [0.7], 'x': [0.5, 1.5], 'z_unc': [0.3],
            'p_loc': [0.0], 'p_scale': [3.0], 'pz_loc': [0.4], 'pz_scale': [1.25], 'w': [0.2], 'dn_loc': [0.1], 'dn_scale': [0.6],
            'pw_loc': [0.0], 'pw_scale': [2.0], 'u': [0.4, -0.6]}
    evaluators = {
        # accessor observers first: they see the state the update left; every objective re-draws x, z_unc, w
        'var.entropy()': lambda D: D['var'].entropy(),
        'q.entropy()': lambda D: D['q'].entropy(),
        'q.log_prob(x)': lambda D: D['q'].log_prob(D['x']),
        'var()': lambda D: D['var'](),
        'q()': lambda D: D['q'](),
        'joint()': lambda D: D['joint'](),
        'q_scale.tensor': lambda D: D['q_scale'].tensor,
        'q_loc.tensor [view]': lambda D: D['q_loc'].tensor,
        'x.tensor': lambda D: D['x'].tensor,
        'elbo()': lambda D: D['elbo'](),
        'elbo_ent() [entropy=True]': lambda D: D['elbo_ent'](),
        'elbo_ms() [multi-sample]': lambda D: D['elbo_ms'](),
        'elbo_score() [score=True]': lambda D: D['elbo_score'](),
        'klpq()': lambda D: D['klpq'](),
        'klpqi()': lambda D: D['klpqi'](),
        'vr()': lambda D: D['vr'](),
        'cubo()': lambda D: D['cubo'](),
        'elbo_q() [entropy=True, single Distribution]': lambda D: D['elbo_q'](),
        'elbo_dn() [DeterministicNormal]': lambda D: D['elbo_dn'](),
        'elbo_dn_ent() [DeterministicNormal, entropy=True]': lambda D: D['elbo_dn_ent'](),
    }
    ops = {
        'assign locs (parent of the q_loc / q2_loc views)': ('assign', 'locs', (-1.0, 1.0)),
        'assign through the q_loc view': ('assign', 'q_loc', (-1.0, 1.0)),
        'assign through the q2_loc view': ('assign', 'q2_loc', (-1.0, 1.0)),
        'assign q_logscale (under the Exp transform)': ('assign', 'q_logscale', (-1.0, 0.7)),
        'assign through the transformed q_scale': ('assign', 'q_scale', (0.3, 2.0)),
        'in-place write into q_logscale + fire_parameter_changed': ('inplace', 'q_logscale', (-1.0, 0.7)),
        'in-place write into locs + fire_parameter_changed': ('inplace', 'locs', (-1.0, 1.0)),
        'assign q2_scale': ('assign', 'q2_scale', (0.3, 2.0)),
        'assign prior hyper-parameter p_scale': ('assign', 'p_scale', (0.5, 4.0)),
        'assign prior hyper-parameter pz_loc': ('assign', 'pz_loc', (-1.0, 1.0)),
        'assign dn_loc': ('assign', 'dn_loc', (-1.0, 1.0)),
        'in-place write into dn_scale + fire_parameter_changed': ('inplace', 'dn_scale', (0.3, 2.0)),
        'assign x (the sampled variable)': ('assign', 'x', (-2.0, 2.0)),
        'var.rsample([3]) (draw by the joint variational distribution)': ('draw', 'var', ('rsample', (3,))),
        'var.sample([4]) (draw by the joint variational distribution)': ('draw', 'var', ('sample', (4,))),
    }
    return spec, base, evaluators, ops


# which base parameters an observed value of the variational scenario depends on (the sampled variables x, z_unc, w
# are re-drawn by every objective, so an objective does not depend on their current value).  Used for the vacuity
# guard of the single-observer histories: an update of a parameter in DEPENDS[observer] must be able to change the value.
_MAIN = {'locs[q]', 'locs[q2]', 'q_logscale', 'q2_scale', 'p_scale', 'pz_loc'}
DEPENDS = {
    'elbo()': _MAIN, 'elbo_ent() [entropy=True]': _MAIN, 'elbo_ms() [multi-sample]': _MAIN,
    'elbo_score() [score=True]': _MAIN, 'klpq()': _MAIN, 'klpqi()': _MAIN, 'vr()': _MAIN, 'cubo()': _MAIN,
    'elbo_q() [entropy=True, single Distribution]': {'locs[q]', 'q_logscale', 'p_scale'},
    'elbo_dn() [DeterministicNormal]': {'dn_loc', 'dn_scale'},
    'elbo_dn_ent() [DeterministicNormal, entropy=True]': {'dn_loc', 'dn_scale'},
    'var.entropy()': {'q_logscale', 'q2_scale'}, 'q.entropy()': {'q_logscale'},
    'q.log_prob(x)': {'locs[q]', 'q_logscale', 'x'}, 'q()': {'locs[q]', 'q_logscale', 'x'},
    'var()': {'locs[q]', 'locs[q2]', 'q_logscale', 'q2_scale', 'x'}, 'joint()': {'p_scale', 'pz_loc', 'x'},
    'q_scale.tensor': {'q_logscale'}, 'q_loc.tensor [view]': {'locs[q]'}, 'x.tensor': {'x'},
}
WRITES = {  # operation target -> parameters written
    'locs': {'locs[q]', 'locs[q2]'}, 'q_loc': {'locs[q]'}, 'q2_loc': {'locs[q2]'}, 'q_logscale': {'q_logscale'},
    'q_scale': {'q_logscale'}, 'q2_scale': {'q2_scale'}, 'p_scale': {'p_scale'}, 'pz_loc': {'pz_loc'}, 'dn_loc': {'dn_loc'},
    'dn_scale': {'dn_scale'}, 'x': {'x'}, 'var': {'x'}, 'q': {'x'},
}

SCENARIOS = {'phylo': scenario_phylo, 'smoothing': scenario_smoothing, 'timetree': scenario_timetree,
             'variational': scenario_variational, 'unrooted': scenario_unrooted, 'epidemic': scenario_epidemic,
             'module': scenario_module}
STOCHASTIC = {'variational'}  # scenarios whose observers draw: sampler stub installed
# scenarios whose expressions (birth-death densities: exp / log / sqrt towers) make the sat side of a general query slow: what is
# false or different AT THE WITNESS is put to the solver at the witness point first (see _run_task)
WITNESS_FIRST = {'epidemic', 'unrooted'}


# ------------------------------------------------------------------ real loops (Optimizer.run, MCMC.run) as update operations
def _opt(algo, iters, groups, loss='joint', hook=False, tier='quick', **options):
    return ('optimizer', {'algo': algo, 'iters': iters, 'groups': groups, 'loss': loss, 'hook': hook, 'tier': tier,
                          'options': options}, None)


def _mcmc(operators, plan, joint='joint', hook=False, tier='quick'):
    """operators: [(kind, [parameter ids])], kind in scaler / slide / hmc; plan: [(operator index, 'accept' | 'reject')]"""
    return ('mcmc', {'ops': operators, 'plan': plan, 'joint': joint, 'hook': hook, 'tier': tier}, None)


HOOK = ' [every observer read after each iteration, through a logger]'


def loop_ops(scen):
    """Update operations in which a REAL torchtree loop does the update.  Kept apart from the operations of the scenario
    functions: the enumeration of the earlier histories is unchanged."""
    ops = {}
    if scen == 'phylo':
        g2 = [['tree.ratios', 'tree.root_height', 'rate'], ['kk', 'theta_unc', 'shape', 'pinv']]
        g1 = [['tree.ratios', 'tree.root_height', 'rate', 'kk', 'theta_unc', 'shape']]
        gt = [['theta', 'tree.ratios', 'kk']]  # theta: a Parametric (TransformedParameter) -> its base parameter theta_unc
        ops['Optimizer.run SGD, 1 iteration, one group, maximising joint'] = _opt('SGD', 1, g1)
        ops['Optimizer.run SGD, 2 iterations, two groups (own learning rates), maximising joint'] = _opt('SGD', 2, g2)
        ops['Optimizer.run SGD, 2 iterations, two groups (own learning rates), maximising joint' + HOOK] = _opt('SGD', 2, g2, hook=True)
        ops['Optimizer.run SGD (momentum, weight decay), 2 iterations, parameters given through the transformed theta, maximising joint'] = \
            _opt('SGD', 2, gt, momentum=0.5, weight_decay=0.125)
        ops['Optimizer.run Adam, 1 iteration, two groups, maximising joint'] = _opt('Adam', 1, g2)
        ops['Optimizer.run Adam, 2 iterations, one group, maximising joint' + HOOK] = _opt('Adam', 2, g1, hook=True, tier='thorough')
        ops['Optimizer.run LBFGS (max_iter=1), 1 iteration, maximising joint'] = _opt('LBFGS', 1, g1, max_iter=1)
        ops['Optimizer.run LBFGS (max_iter=2), 2 iterations, maximising joint'] = _opt('LBFGS', 2, g1, max_iter=2, tier='thorough')
        for dec in ('accept', 'reject'):
            ops[f'MCMC.run 1 iteration, ScalerOperator on tree.root_height, {dec}'] = _mcmc([('scaler', ['tree.root_height'])], [(0, dec)])
            ops[f'MCMC.run 1 iteration, SlidingWindowOperator on tree.ratios, {dec}'] = _mcmc([('slide', ['tree.ratios'])], [(0, dec)])
            ops[f'MCMC.run 1 iteration, ScalerOperator on the kappa view, {dec}'] = _mcmc([('scaler', ['kappa'])], [(0, dec)])
            ops[f'MCMC.run 1 iteration, ScalerOperator on the transformed theta, {dec}'] = _mcmc([('scaler', ['theta'])], [(0, dec)])
            ops[f'MCMC.run 1 iteration, HMCOperator (1 leapfrog step) on ratios, rate, theta_unc, {dec}'] = \
                _mcmc([('hmc', ['tree.ratios', 'rate', 'theta_unc'])], [(0, dec)])
        for d1, d2 in itertools.product(('accept', 'reject'), repeat=2):
            ops[f'MCMC.run 2 iterations, Scaler(root_height) {d1} then Slide(ratios) {d2}' + HOOK] = \
                _mcmc([('scaler', ['tree.root_height']), ('slide', ['tree.ratios'])], [(0, d1), (1, d2)], hook=True,
                      tier='quick' if d1 != d2 else 'thorough')
            ops[f'MCMC.run 2 iterations, Scaler(kappa view) {d1} then Scaler(kappa view) {d2}'] = \
                _mcmc([('scaler', ['kappa'])], [(0, d1), (0, d2)], tier='quick' if d1 != d2 else 'thorough')
        ops['MCMC.run 2 iterations, HMC(ratios, rate, theta_unc) reject then Scaler(root_height) accept' + HOOK] = \
            _mcmc([('hmc', ['tree.ratios', 'rate', 'theta_unc']), ('scaler', ['tree.root_height'])], [(0, 'reject'), (1, 'accept')],
                  hook=True, tier='thorough')
    elif scen == 'timetree':
        g = [['tree.heights', 'rate'], ['theta', 'kappa', 'mu', 'pinv']]
        ops['Optimizer.run SGD, 2 iterations, two groups, maximising joint'] = _opt('SGD', 2, g)
        ops['Optimizer.run SGD, 2 iterations, two groups, maximising joint' + HOOK] = _opt('SGD', 2, g, hook=True)
        ops['Optimizer.run Adam, 1 iteration, two groups, maximising joint'] = _opt('Adam', 1, g)
        ops['Optimizer.run LBFGS (max_iter=1), 1 iteration, maximising joint'] = _opt('LBFGS', 1, [g[0] + g[1]], max_iter=1, tier='thorough')
        for dec in ('accept', 'reject'):
            ops[f'MCMC.run 1 iteration, SlidingWindowOperator on the internal heights, {dec}'] = _mcmc([('slide', ['tree.heights'])], [(0, dec)])
            ops[f'MCMC.run 1 iteration, ScalerOperator on the per-branch rates, {dec}'] = _mcmc([('scaler', ['rate'])], [(0, dec)])
            ops[f'MCMC.run 1 iteration, HMCOperator (1 leapfrog step) on heights, theta, {dec}'] = \
                _mcmc([('hmc', ['tree.heights', 'theta'])], [(0, dec)], tier='quick' if dec == 'reject' else 'thorough')
    elif scen == 'smoothing':
        g = [['field_a', 'field_b'], ['tau']]
        ops['Optimizer.run SGD, 2 iterations, members of the concatenation + precision, maximising joint'] = _opt('SGD', 2, g)
        ops['Optimizer.run SGD, 2 iterations, members of the concatenation + precision, maximising joint' + HOOK] = _opt('SGD', 2, g, hook=True)
        ops['Optimizer.run Adam, 1 iteration, parameters given through the transformed pop (exp of the concatenation)'] = \
            _opt('Adam', 1, [['pop', 'tau']])
        for dec in ('accept', 'reject'):
            ops[f'MCMC.run 1 iteration, SlidingWindowOperator on the concatenated field, {dec}'] = _mcmc([('slide', ['field'])], [(0, dec)])
            ops[f'MCMC.run 1 iteration, ScalerOperator on the transformed pop, {dec}'] = _mcmc([('scaler', ['pop'])], [(0, dec)])
            ops[f'MCMC.run 1 iteration, HMCOperator (1 leapfrog step) on field_a, field_b, {dec}'] = \
                _mcmc([('hmc', ['field_a', 'field_b'])], [(0, dec)], tier='quick' if dec == 'reject' else 'thorough')
    elif scen == 'variational':
        g = [['locs', 'q_logscale'], ['q2_scale']]
        ops['Optimizer.run SGD, 2 iterations, variational parameters, maximising the ELBO'] = _opt('SGD', 2, g, loss='elbo')
        ops['Optimizer.run SGD, 2 iterations, variational parameters, maximising the ELBO' + HOOK] = _opt('SGD', 2, g, loss='elbo', hook=True)
        ops['Optimizer.run Adam, 1 iteration, variational parameters, maximising the ELBO (entropy=True)'] = \
            _opt('Adam', 1, g, loss='elbo_ent')
        ops['Optimizer.run SGD, 1 iteration, parameters given through the transformed q_scale, minimising KLpq'] = \
            _opt('SGD', 1, [['q_scale', 'locs']], loss='klpq', tier='thorough')
    elif scen == 'unrooted':
        # (the hyper-parameters of the compound gamma-Dirichlet prior are moved by the assignment operations of the scenario)
        g = [['tree.blens', 'mu'], ['coef', 'b_scale', 'h_local', 'gtr_rates']]
        ops['Optimizer.run SGD, 2 iterations, two groups, maximising joint'] = _opt('SGD', 2, g)
        ops['Optimizer.run Adam, 1 iteration, two groups, maximising joint' + HOOK] = _opt('Adam', 1, g, hook=True)
        for dec in ('accept', 'reject'):
            ops[f'MCMC.run 1 iteration, ScalerOperator on the branch lengths, {dec}'] = _mcmc([('scaler', ['tree.blens'])], [(0, dec)])
            ops[f'MCMC.run 1 iteration, HMCOperator (1 leapfrog step) on coef, b_scale, {dec}'] = \
                _mcmc([('hmc', ['coef', 'b_scale'])], [(0, dec)], tier='quick' if dec == 'reject' else 'thorough')
    elif scen == 'epidemic':
        # (the internal heights of the plain tree are moved by the assignment operations of the scenario)
        g = [['bd_lambda', 'R', 'growth', 'rate'], ['differences', 'field', 'l_theta']]
        ops['Optimizer.run SGD, 2 iterations, two groups, maximising joint'] = _opt('SGD', 2, g)
        ops['Optimizer.run Adam, 1 iteration, two groups, maximising joint' + HOOK] = _opt('Adam', 1, g, hook=True, tier='thorough')
        for dec in ('accept', 'reject'):
            ops[f'MCMC.run 1 iteration, ScalerOperator on the transformed heights of the flexible tree, {dec}'] = \
                _mcmc([('scaler', ['ftree.heights'])], [(0, dec)])
            ops[f'MCMC.run 1 iteration, SlidingWindowOperator on R, {dec}'] = _mcmc([('slide', ['R'])], [(0, dec)],
                                                                                  tier='quick' if dec == 'reject' else 'thorough')
    elif scen == 'module':
        ops['Optimizer.run SGD, 2 iterations, the tensors owned by the torch.nn.Module, maximising joint'] = _opt('SGD', 2, [['w', 'b']])
        ops['Optimizer.run SGD, 2 iterations, the tensors owned by the torch.nn.Module, maximising joint' + HOOK] = \
            _opt('SGD', 2, [['w', 'b']], hook=True)
        ops['Optimizer.run Adam, 1 iteration, parameters given through the Module, maximising joint'] = _opt('Adam', 1, [['net'], ['p_loc']])
    return ops


def convert_ops(scen):
    """device / dtype conversion through the parameter interface (AbstractParameter.cpu / .to): no value changes, nothing may
    raise and every observer still equals a fresh rebuild (cuda() needs a device and is outside)"""
    table = {
        'phylo': [('theta', 'cpu', 'TransformedParameter'), ('theta', 'to', 'TransformedParameter'), ('kappa', 'cpu', 'ViewParameter'),
                  ('kk', 'to', 'Parameter')],
        'smoothing': [('field', 'cpu', 'CatParameter'), ('field', 'to', 'CatParameter'),
                      ('pop', 'cpu', 'TransformedParameter of a concatenation')],
        'epidemic': [('ftree.heights', 'cpu', 'TransformedParameter with a parametric transform')],
        'module': [('mp', 'cpu', 'ModuleParameter')],
    }
    return {f'{t}.{m}({"torch.float64" if m == "to" else ""}) [{what}]': ('convert', t, m) for t, m, what in table.get(scen, [])}


def ops_kind(scen, oname):
    o = loop_ops(scen).get(oname) or convert_ops(scen).get(oname)
    return o[0] if o else 'base'


def all_ops(scen, ops):
    out = dict(ops)
    out.update(loop_ops(scen))
    out.update(convert_ops(scen))
    return out


def loop_name(op):
    if op[0] == 'optimizer':
        return 'Optimizer._run_closure (LBFGS)' if op[1]['algo'] == 'LBFGS' else 'Optimizer._run'
    kinds = sorted({OPCLS[k] for k, _ in op[1]['ops']})
    return 'MCMC.run with ' + '+'.join(kinds)


class Retry(Exception):
    """the requested accept / reject decision is not reachable at this witness: the task is re-run with other draws"""


XI_WITNESS = (0.3, 0.8, 0.12, 0.62, 0.93, 0.45, 0.05, 0.71, 0.38, 0.55)


class Hook:
    """logger handed to the real loop: Optimizer._run calls logger(epoch), MCMC.run calls logger.log(sample=epoch)"""

    def __init__(self, fn, who):
        self.fn, self.who = fn, who

    def initialize(self):
        pass

    def close(self):
        pass

    def __call__(self, epoch=None, **kw):
        self.fn(f'inside {self.who}, after iteration {epoch}')

    def log(self, *a, **kw):
        sample = kw.get('sample', a[0] if a else None)
        if sample:  # sample 0 = before the first iteration
            self.fn(f'inside {self.who}, after iteration {sample}')


def _clamp(v, lo, hi):
    return min(max(float(v), lo), hi)


class Num:
    """source of the scalar inputs of a loop (learning rate, tuning parameters, draws): symbols with a witness in the
    symbolic run (constrained to [lo, hi] / (lo, hi)), clamped numbers of the counterexample in the replay"""

    def __init__(self, k, dom=None, vals=None, attempt=0):
        self.k, self.dom, self.vals, self.sym, self.attempt = k, dom, vals, vals is None, attempt

    def vary(self, witness, lo, hi):
        """another witness for another attempt (a planned accept / reject decision was not reachable at the previous one)"""
        w = witness * (1.0 + 0.31 * self.attempt) if self.attempt % 2 == 0 else witness / (1.0 + 0.43 * self.attempt)
        return w if lo < w < hi else witness

    def name(self, nm):
        return f'v{self.k}_{nm}'

    def node(self, nm, witness, lo, hi, strict=True):
        d = cur().dag
        n = d.var(self.name(nm), witness)
        cmp_ = d.lt if strict else d.le
        self.dom += [cmp_(d.const(lo), n), d.lt(n, d.const(hi))]
        return n

    def scalar(self, nm, witness, lo, hi, strict=True):
        if self.sym:
            from symtorch.tensor import mkfloat

            return mkfloat(self.node(nm, self.vary(witness, lo, hi), lo, hi, strict))
        eps = (hi - lo) * 1e-6
        return _clamp(self.vals.get(self.name(nm), witness), lo + (eps if strict else 0.0), hi - eps)

    def tensor1(self, nm, witness, lo, hi, strict=False):
        if self.sym:
            return from_ids(torch.tensor([self.node(nm, witness, lo, hi, strict)], dtype=torch.int64))
        return torch.tensor([self.scalar(nm, witness, lo, hi, strict)], dtype=torch.float64)

    def vector(self, nm, witness):
        if self.sym:
            return new_vars(self.name(nm), torch.tensor(witness, dtype=torch.float64))
        names = cm.names_shaped(self.name(nm), (len(witness),))
        return torch.tensor([_clamp(self.vals.get(n, w), -3.0, 3.0) for n, w in zip(names, witness)], dtype=torch.float64)


def run_optimizer(dic, cfg, num, checkpoint):
    """the real torchtree Optimizer (from_json -> run) on the objects of `dic`"""
    from torchtree.optim.optimizer import Optimizer

    if num.sym:
        from chk.c17_resume import install_handlers

        install_handlers()  # lerp_/addcmul_/addcdiv_/add(alpha=) of torch.optim's single-tensor update rules
    lr = num.scalar('lr', 2e-5 if cfg['algo'] != 'LBFGS' else 1e-3, 0.0, 0.01)
    options = dict(cfg['options'], lr=lr)
    groups = []
    for i, g in enumerate(cfg['groups']):
        grp = {'params': list(g)}
        if i:
            grp['lr'] = lr * 0.5  # per-group hyper-parameter
        groups.append(grp)
    spec = {'id': num.name('optimizer'), 'type': 'Optimizer', 'algorithm': 'torch.optim.' + cfg['algo'], 'options': options,
            'maximize': True, 'loss': cfg['loss'], 'iterations': cfg['iters'], 'checkpoint': False, 'parameters': groups}
    opt = Optimizer.from_json(spec, dic)
    if cfg['hook']:
        opt.loggers = [Hook(checkpoint, 'Optimizer.run')]
    import torch.optim.lbfgs as lbfgs

    if num.sym and cfg['algo'] == 'LBFGS':
        # torch.optim.LBFGS converts the loss with float(): only its control flow uses the number; the conversion keeps the
        # expression (SymFloat), so the decisions taken on it are recorded as path conditions
        from symtorch.ext_c15 import as_scalar

        lbfgs.float = as_scalar
    try:
        with contextlib.redirect_stdout(io.StringIO()), warnings.catch_warnings():
            warnings.simplefilter('ignore')
            opt.run()
    finally:
        lbfgs.__dict__.pop('float', None)
    return opt


OPCLS = {'scaler': 'ScalerOperator', 'slide': 'SlidingWindowOperator', 'hmc': 'HMCOperator'}


def run_mcmc(dic, cfg, num, checkpoint, attempt=0):
    """the real MCMC.run with real operators on the objects of `dic`; every random draw is an input: the operator index
    is the planned one, the proposal draw xi_i and the momentum are symbols / replayed numbers, and the uniform draw u_i
    of the acceptance test is a symbol whose witness is placed below / above the acceptance probability of the
    witness run according to the planned decision."""
    import torchtree.inference.hmc.integrator  # noqa (class registration)
    import torchtree.inference.hmc.operator as hmcop
    from torchtree.core.utils import process_object
    from torchtree.inference.mcmc import mcmc as mcmod
    from torchtree.inference.mcmc import operator as opmod

    sym = num.sym
    joint = dic[cfg['joint']]
    operators = []
    for j, (kind, pids) in enumerate(cfg['ops']):
        js = {'id': num.name(f'operator{j}'), 'type': OPCLS[kind], 'parameters': list(pids), 'weight': 1.0 + j}
        if kind == 'scaler':
            js['scaler'] = num.scalar(f'scaler{j}', 0.8, 0.5, 1.0)
        elif kind == 'slide':
            js['width'] = num.scalar(f'width{j}', 0.1, 0.0, 0.2)
        else:
            dim = sum(dic[p].tensor.shape[-1] for p in pids)
            js.update({'joint': cfg['joint'], 'disable_adaptation': True,
                       'integrator': {'id': num.name(f'integrator{j}'), 'type': 'LeapfrogIntegrator', 'steps': 1,
                                      'step_size': num.scalar(f'eps{j}', 4e-3, 0.0, 0.01)},
                       'mass_matrix': {'id': num.name(f'mass{j}'), 'type': 'Parameter', 'tensor': [1.0] * dim}})
        op = process_object(js, dic)
        if kind == 'hmc':
            op._hamiltonian.sample_momentum = (lambda jj, dd: (lambda mm: num.vector(
                f'momentum{jj}_{st["it"]}', [round((0.3 - 0.25 * i) * (-1) ** (attempt * (i + 1)) + 0.11 * attempt, 3)
                                             for i in range(dd)])))(j, dim)
        operators.append(op)
    st = {'it': -1, 'in_step': False, 'lj': None, 'ljp': None, 'h': None, 'decisions': []}
    loggers = [Hook(checkpoint, 'MCMC.run')] if cfg['hook'] else ()
    mc = mcmod.MCMC(num.name('mcmc'), joint, operators, len(cfg['plan']), loggers=loggers, every=0, checkpoint=None)

    def witness(x):
        if isinstance(x, SymTensor):
            return float(x._v.reshape(-1)[0])
        return float(x.reshape(-1)[0]) if isinstance(x, torch.Tensor) else float(x)

    def rec_joint(*a, **k):
        v = joint(*a, **k)
        if st['lj'] is None:
            st['lj'] = witness(v)
        else:
            st['ljp'] = witness(v)
        return v

    mc.joint = rec_joint
    for op in operators:
        def wrap(op):
            real_step, real_accept, real_reject = op.step, op.accept, op.reject

            def step():
                st['in_step'] = True
                try:
                    h = real_step()
                finally:
                    st['in_step'] = False
                st['h'] = witness(h)
                st['pending'] = real_reject
                return h

            def accept():
                st['decisions'].append('accept')
                st['lj'] = st['ljp']
                st['pending'] = None
                real_accept()

            def reject():
                st['decisions'].append('reject')
                st['pending'] = None
                real_reject()

            op.step, op.accept, op.reject = step, accept, reject

        wrap(op)

    def fake_rand(*size, **kw):
        it = st['it']
        if st['in_step']:
            return num.tensor1(f'xi{it}', XI_WITNESS[(attempt + it) % len(XI_WITNESS)], 0.0, 1.0)
        la = (st['ljp'] - st['lj']) + st['h']
        acc = math.exp(min(0.0, la)) if la == la else float('nan')
        want = cfg['plan'][it][1]
        if not (acc == acc) or (want == 'accept' and acc <= 1e-12) or (want == 'reject' and acc >= 1.0 - 1e-9):
            raise Retry(f'iteration {it + 1}: acceptance probability {acc} at the witness, decision "{want}" not reachable')
        u = acc / 2 if want == 'accept' else (acc + 1.0) / 2
        if sym:
            return num.tensor1(f'u{it}', u, 0.0, 1.0)
        return torch.tensor([u], dtype=torch.float64)  # the replay places the draw the same way (decision = part of the operation)

    def fake_randint(lo, hi, size, **kw):
        return torch.zeros(size, dtype=torch.int64) + lo

    def fake_categorical_sample(self_, *a, **k):
        st['it'] += 1
        return torch.tensor(cfg['plan'][st['it']][0])

    saved = (torch.rand, torch.randint, torch.distributions.Categorical.sample, opmod.math, hmcop.math)
    torch.rand, torch.randint, torch.distributions.Categorical.sample = fake_rand, fake_randint, fake_categorical_sample
    if sym:
        opmod.math = hmcop.math = SymMath()
    try:
        with contextlib.redirect_stdout(io.StringIO()), warnings.catch_warnings():
            warnings.simplefilter('ignore')
            mc.run()
    except Retry:
        if st.get('pending'):
            st['pending']()  # (replay) the proposal whose decision could not be placed is taken back by the real reject()
        raise
    finally:
        torch.rand, torch.randint, torch.distributions.Categorical.sample, opmod.math, hmcop.math = saved
    planned = [p[1] for p in cfg['plan']]
    if st['decisions'] != planned:
        raise Retry(f'MCMC.run took the decisions {st["decisions"]}, planned {planned}')
    return mc


# ------------------------------------------------------------------ sampler stub (common random numbers)
def _generic_noise(shape, tag):
    n = 1
    for s in shape:
        n *= s
    off = 0.11 * len(tag) + 0.07 * len(shape)
    return torch.tensor([round(-1.1 + 2.3 * (((i + 1) * 0.6180339887 + off + 0.013 * n) % 1.0), 2) for i in range(n)],
                        dtype=torch.float64).reshape(shape)


def _noise_name(shape, tag):
    return f'{tag}_' + 'x'.join(map(str, shape))


def symbolic_noise(shape, tag='eps'):
    """ONE tensor of symbols per (tag, shape) and trace: every draw of that shape uses the same base noise, in the
    model under test and in the freshly built copy alike, so that a cached objective and a recomputed one are
    comparable; the noise itself is universally quantified."""
    t = cur()
    store = t.__dict__.setdefault('_c11_noise', {})
    key = (tag, tuple(shape))
    if key not in store:
        store[key] = new_vars(_noise_name(shape, tag), _generic_noise(tuple(shape), tag))
    return store[key]


def concrete_noise(vals):
    def f(shape, tag='eps'):
        g = _generic_noise(tuple(shape), tag).reshape(-1).tolist()
        names = cm.names_shaped(_noise_name(shape, tag), tuple(shape))
        return torch.tensor([vals.get(nm, dflt) for nm, dflt in zip(names, g)], dtype=torch.float64).reshape(tuple(shape))

    return f


@contextlib.contextmanager
def sampler_stub(noise):
    """torch.distributions.Normal.rsample / .sample = loc + noise(shape) * scale (sample: under no_grad)."""
    N = torch.distributions.Normal
    saved = {m: N.__dict__.get(m) for m in ('rsample', 'sample')}

    def rsample(self, sample_shape=torch.Size()):
        shape = tuple(self._extended_shape(torch.Size(sample_shape)))
        return self.loc + noise(shape) * self.scale

    def sample(self, sample_shape=torch.Size()):
        shape = tuple(self._extended_shape(torch.Size(sample_shape)))
        with torch.no_grad():
            return self.loc + noise(shape) * self.scale

    N.rsample, N.sample = rsample, sample
    try:
        yield
    finally:
        for m, old in saved.items():
            if old is None:
                delattr(N, m)
            else:
                setattr(N, m, old)


# ------------------------------------------------------------------ machinery
def p_witness(salt=0):
    """witness interpretation of the uninterpreted transition probabilities (row-stochastic); salt: another interpretation
    for another attempt of a history whose planned accept / reject decision was not reachable (salt 0 = the original one)"""
    def mk(i, j):
        def f(t, *rest):
            x = math.sin(12.9898 * (t + 0.37 + 0.01 * sum(rest)) * (i * 4 + j + 1)) * 43758.5453
            raw = [0.05 + 0.9 * ((math.sin(12.9898 * (t + 0.37 + 0.01 * sum(rest) + 0.0713 * salt) * (i * 4 + jj + 1)) * 43758.5453) % 1.0)
                   for jj in range(4)]
            return raw[j] / sum(raw)

        return f

    return {f'P{i}{j}': mk(i, j) for i in range(4) for j in range(4)}


def install_p_stub(subst):
    """P_ij(t; kappa, pi) uninterpreted: a function of the branch argument AND of the current model parameters,
    so that a stale substitution-model value is visible."""
    def p_t(branch_lengths):
        d = cur().dag
        if hasattr(subst, 'kappa'):
            extra = subst.kappa._ids.reshape(-1).tolist() + subst.frequencies._ids.reshape(-1).tolist()
        else:  # GTR: rates, frequencies
            extra = [i for p in subst.parameters() for i in p.tensor._ids.reshape(-1).tolist()]
        ids = branch_lengths._ids
        out = []
        for b in ids.reshape(-1).tolist():
            out.append([[d.uf(f'P{i}{j}', b, *extra) for j in range(4)] for i in range(4)])
        return from_ids(torch.tensor(out, dtype=torch.int64).reshape(tuple(ids.shape) + (4, 4)))

    subst.p_t = p_t


def register_more():
    """class registration of the modules the later scenarios use"""
    import torchtree.distributions.bayesian_bridge  # noqa
    import torchtree.distributions.gmrf_integrated  # noqa
    import torchtree.distributions.scale_mixture  # noqa
    import torchtree.distributions.tree_prior  # noqa
    import torchtree.evolution.bdsk  # noqa
    import torchtree.evolution.birth_death  # noqa
    import torchtree.evolution.poisson_tree_likelihood  # noqa
    import torchtree.evolution.root_transform  # noqa
    import torchtree.evolution.tree_height_transform  # noqa
    import torchtree.evolution.tree_model_flexible  # noqa
    import torchtree.nn.module  # noqa


def build(name):
    import torchtree.distributions.distributions  # noqa (class registration)
    import torchtree.distributions.joint_distribution  # noqa
    import torchtree.distributions.gmrf  # noqa
    import torchtree.distributions.ctmc_scale  # noqa
    import torchtree.evolution.coalescent  # noqa
    import torchtree.evolution.substitution_model.codon  # noqa
    import torchtree.evolution.tree_likelihood  # noqa
    register_more()
    from torchtree.core.utils import process_objects

    import torchtree.distributions.deterministic_normal  # noqa
    import torchtree.variational  # noqa

    spec, base, evaluators, ops = SCENARIOS[name]()
    dic = {}
    for obj in spec:
        process_objects(obj, dic)
    if 'subst' in dic:
        install_p_stub(dic['subst'])
    if 'dq' in dic:
        # DeterministicNormal draws its noise at construction: the noise of every copy = the same symbols
        dic['dq'].eps = symbolic_noise(tuple(dic['dq'].eps.shape), 'dn_eps')
    return dic, base, evaluators, ops


ROUND_WITNESS = False  # set for the variational scenario: short decimals keep the ground guard queries small


def set_state(scen, dic, pname, tensor):
    """give a base parameter its state: through the public setter, or (tensor owned by a torch.nn.Module) in place + notification"""
    if pname in INPLACE_ONLY.get(scen, ()):
        dic[pname].tensor[...] = tensor
        dic[pname].fire_parameter_changed()
    else:
        dic[pname].tensor = tensor


def fresh_values(counter, pname, shape, rng):
    lo, hi = rng
    n = 1
    for s in shape:
        n *= s
    k = next(counter)
    vals = [lo + (hi - lo) * ((0.37 + 0.61803 * (k * 7 + i)) % 1.0) for i in range(n)]
    if ROUND_WITNESS:
        vals = [round(v, 3) for v in vals]
    if pname == 'tree.heights':
        vals = sorted(vals)
    return new_vars(f'v{k}_{pname}', torch.tensor(vals, dtype=torch.float64).reshape(shape))


def apply_op(dic, op, counter, dom, checkpoint=None, attempt=0):
    """Apply one update operation with fresh symbols; returns nothing (state is in the base Parameters)."""
    from torchtree.inference.mcmc import operator as opmod

    kind, target, rng = op
    d = cur().dag
    if kind == 'optimizer':
        return run_optimizer(dic, target, Num(next(counter), dom, attempt=attempt), checkpoint)
    if kind == 'mcmc':
        return run_mcmc(dic, target, Num(next(counter), dom, attempt=attempt), checkpoint, attempt)
    obj = dic[target]
    if kind == 'convert':
        # device / dtype conversion through the parameter interface (AbstractParameter.cpu / .to): the identity here
        if rng == 'cpu':
            obj.cpu()
        else:
            obj.to(torch.float64)
    elif kind == 'assign':
        v = fresh_values(counter, target, tuple(obj.tensor.shape), rng)
        for i in v._ids.reshape(-1).tolist():
            dom.append(d.lt(d.const(rng[0] - 1e-9), i))
            dom.append(d.lt(i, d.const(rng[1] + 1e-9)))
        obj.tensor = v
    elif kind == 'inplace':
        v = fresh_values(counter, target, tuple(obj.tensor.shape), rng)
        for i in v._ids.reshape(-1).tolist():
            dom += [d.lt(d.const(rng[0] - 1e-9), i), d.lt(i, d.const(rng[1] + 1e-9))]
        obj.tensor[...] = v  # optimiser-style in-place update of the tensor the parameter holds
        obj.fire_parameter_changed()
    elif kind == 'rsample':
        x = obj.x
        v = fresh_values(counter, target, tuple(x.tensor.shape), rng)
        saved = obj.dist.rsample
        try:
            obj.dist.rsample = lambda self_, sample_shape=torch.Size(): v
            obj.rsample()
        finally:
            obj.dist.rsample = saved
    elif kind == 'draw':
        # draw through the model's own rsample()/sample() (sampler stub: loc + noise * scale); a sample shape no
        # objective uses, hence noise symbols that no cached value mentions
        meth, shape = rng
        getattr(obj, meth)(torch.Size(shape))
    elif kind == 'op_reject':
        oper = opmod.ScalerOperator('scaler', [obj], 1.0, 0.24, 0.5)
        u = new_vars(f'v{next(counter)}_u', torch.tensor([0.4]))
        dom += [d.le(0, int(u._ids[0])), d.lt(int(u._ids[0]), 1)]
        saved_rand, saved_randint, saved_math = torch.rand, torch.randint, opmod.math
        try:
            torch.rand = lambda *a, **k: u
            torch.randint = lambda *a, **k: torch.zeros(1, dtype=torch.int64)
            opmod.math = SymMath()
            oper.step()
            _ = [e for e in ()]
            oper.reject()
        finally:
            torch.rand, torch.randint, opmod.math = saved_rand, saved_randint, saved_math
    else:
        raise KeyError(kind)


def strip_stops(d, node):
    """C11 compares VALUES: a value computed under no_grad / detach() (ELBO(score=True) evaluates and thereby caches the
    joint under torch.no_grad()) carries `stop` nodes, which are the identity on values (and in the SMT encoding).  They
    are removed so that the DAG's own simplifications (log(exp a) = a) see through them."""
    for _ in range(64):
        stops = {i: d.args[i][0] for i in d.topo([node]) if d.ops[i] == 'stop'}
        if not stops:
            break
        node = d.substitute([node], stops)[0]
    return node


def flat_ids(d, x):
    if isinstance(x, SymTensor):
        return x._ids.reshape(-1).tolist()
    if isinstance(x, torch.Tensor):
        return [d.const(float(v)) for v in x.reshape(-1).tolist()]
    raise TypeError(type(x))


def as_tuple(only):
    if not only:
        return ()
    return (only,) if isinstance(only, str) else tuple(only)


def make_label(scen, history, only):
    onlys = as_tuple(only)
    return f'{scen}: ' + ' ; '.join(history) + (' [only ' + ' + '.join(f'"{o}"' for o in onlys) + ' is evaluated between updates]'
                                                if onlys else '')


def parse_label(label):
    scen, rest = label.split(': ', 1)
    onlys = ()
    if rest.endswith(' is evaluated between updates]'):
        rest, tail = rest.rsplit(' [only ', 1)
        tail = tail[:-len(' is evaluated between updates]')]
        onlys = tuple(x.strip('"') for x in tail.split('" + "'))
    return scen, tuple(rest.split(' ; ')), onlys


def run_task(task, tr):
    last = None
    for attempt in range(len(XI_WITNESS)):
        try:
            return _run_task_outer(task, tr, attempt)
        except Retry as e:  # the planned accept / reject decision was not reachable with these proposal draws
            last = e
    tr.inconc(f'{make_label(task[0], task[1], task[2] if len(task) > 2 else None)}: {last}')


def _run_task_outer(task, tr, attempt=0):
    scen = task[0]
    if scen in STOCHASTIC:
        import torchtree.distributions.deterministic_normal as dnmod
        import torchtree.distributions.joint_distribution as jdmod
        import torchtree.variational as vmod
        from torchtree.distributions.distributions import Distribution

        tr.fn(vmod.ELBO._call, vmod.KLpq._call, vmod.KLpqImportance._call, vmod.VR._call, vmod.CUBO._call,
              Distribution.rsample, Distribution.sample, Distribution.entropy, jdmod.JointDistributionModel.rsample,
              jdmod.JointDistributionModel.sample, jdmod.JointDistributionModel.entropy, dnmod.DeterministicNormal.rsample)
        tr.stubs.add('torch.distributions.Normal.rsample/.sample = loc + eps * scale (sample: under no_grad) with ONE tensor of '
                     'universally quantified noise symbols eps per result shape (common random numbers: every draw of that '
                     'shape, by the model under test and by the freshly built copy, uses the same base noise); '
                     'DeterministicNormal.eps (drawn at construction) = the same noise symbols in every copy')
        tr.bounds['variational scenario'] = (
            f'Monte-Carlo sample shapes [{S_DRAWS}] and [{S_DRAWS},2]; objectives ELBO (default / entropy=True / multi-sample / '
            'score=True), KLpq, KLpqImportance, VR(alpha=0.5), CUBO(n=2) over a JointDistributionModel of two Normal '
            'Distributions, ELBO(entropy=True) over a single Distribution, ELBO over DeterministicNormal; SELBO (not exported '
            'by torchtree.variational), MultivariateNormal, NormalizingFlow and RealNVP are not part of the graph; '
            'value-dependent decisions (torch.max in CUBO / '
            'KLpqImportance, argument validation) are path conditions of the witness region')
        global ROUND_WITNESS
        ROUND_WITNESS = True
        try:
            with sampler_stub(symbolic_noise):
                return _run_task(task, tr, attempt)
        finally:
            ROUND_WITNESS = False
    return _run_task(task, tr, attempt)


def _run_task(task, tr, attempt=0):
    from torchtree.core import model as coremodel
    from torchtree.core import parameter as coreparam

    scen, history = task[0], task[1]
    only = task[2] if len(task) > 2 else None
    onlys = as_tuple(only)
    label = make_label(scen, history, only)
    tr.fn(coreparam.Parameter.fire_parameter_changed, coreparam.TransformedParameter.handle_parameter_changed,
          coreparam.CatParameter.handle_parameter_changed, coreparam.ViewParameter.handle_parameter_changed,
          coremodel.CallableModel.__call__, coremodel.CallableModel.handle_parameter_changed,
          coremodel.CallableModel.handle_model_changed)
    tr.fn(coreparam.TransformedParameter.cpu, coreparam.TransformedParameter.to, coreparam.CatParameter.cpu, coreparam.ViewParameter.cpu,
          coreparam.ModuleParameter.handle_model_changed)
    if scen == 'unrooted':
        from torchtree.distributions.bayesian_bridge import BayesianBridge
        from torchtree.distributions.gmrf_integrated import GMRFGammaIntegrated
        from torchtree.distributions.scale_mixture import ScaleMixtureNormal
        from torchtree.distributions.tree_prior import CompoundGammaDirichletPrior
        from torchtree.evolution.site_model import ConstantSiteModel
        from torchtree.evolution.substitution_model.nucleotide import GTR
        from torchtree.evolution.tree_model import UnRootedTreeModel

        tr.fn(CompoundGammaDirichletPrior._call, CompoundGammaDirichletPrior.handle_parameter_changed, UnRootedTreeModel.handle_parameter_changed,
              GTR.handle_parameter_changed, ConstantSiteModel.rates, BayesianBridge._call, ScaleMixtureNormal._call, GMRFGammaIntegrated._call)
    elif scen == 'epidemic':
        from torchtree.evolution.bdsk import BDSKModel
        from torchtree.evolution.birth_death import BirthDeathModel
        from torchtree.evolution.coalescent import (ConstantCoalescentIntegratedModel, ExponentialCoalescentModel,
                                                    PiecewiseLinearCoalescentGridModel)
        from torchtree.evolution.poisson_tree_likelihood import PoissonTreeLikelihood
        from torchtree.evolution.tree_model import TimeTreeModel
        from torchtree.evolution.tree_model_flexible import FlexibleTimeTreeModel

        tr.fn(BirthDeathModel._call, BirthDeathModel.handle_model_changed, BDSKModel._call, ExponentialCoalescentModel.distribution,
              PiecewiseLinearCoalescentGridModel.distribution, ConstantCoalescentIntegratedModel._call, PoissonTreeLikelihood._call,
              PoissonTreeLikelihood.handle_parameter_changed, TimeTreeModel.handle_parameter_changed, FlexibleTimeTreeModel.from_json)
    elif scen == 'module':
        from torchtree.nn.module import Module

        tr.fn(Module._call, coreparam.ModuleParameter.tensor.fget)
    if any(ops_kind(scen, o) in ('optimizer', 'mcmc') for o in history):
        import torchtree.inference.hmc.operator as hmcop
        from torchtree.inference.hmc.integrator import LeapfrogIntegrator
        from torchtree.inference.mcmc import operator as opmod
        from torchtree.inference.mcmc.mcmc import MCMC
        from torchtree.inference.utils import extract_tensors_and_parameters
        from torchtree.optim.optimizer import Optimizer

        tr.fn(Optimizer.from_json, Optimizer.run, Optimizer._run, Optimizer._run_closure, extract_tensors_and_parameters, MCMC.run,
              opmod.MCMCOperator.step, opmod.MCMCOperator.accept, opmod.MCMCOperator.reject, opmod.ScalerOperator._step,
              opmod.SlidingWindowOperator._step, hmcop.HMCOperator._step, LeapfrogIntegrator.__call__)
        tr.stubs |= {
            'real loops: torch.optim update rules run on SymTensors through the handlers of chk/c17_resume.install_handlers '
            '(lerp_/addcmul_/addcdiv_/add(alpha=)); float() inside torch.optim.lbfgs keeps the expression (SymFloat)',
            'real loops: every random draw of MCMC.run is an input - Categorical.sample = the planned operator, torch.randint = first '
            'parameter / coordinate, torch.rand inside an operator = symbol xi in [0,1), Hamiltonian.sample_momentum = vector of '
            'symbols, torch.rand of the acceptance test = symbol u in [0,1) whose WITNESS is placed below / above the acceptance '
            'probability of the witness run according to the planned decision (accept / reject are two separate histories); '
            'math of the operator modules = SymMath; print silenced',
        }
        tr.bounds['real loops'] = (
            'Optimizer.run: torch.optim.SGD (plain; momentum + weight decay), Adam, LBFGS(max_iter 1 / 2) for 1-2 iterations, 1-2 '
            'parameter groups (the second with its own learning rate), parameters named directly or through a Parametric '
            '(TransformedParameter, Module), loss = -joint (phylogenetic / time-tree / smoothing / unrooted / epidemic / module '
            'graphs) or -ELBO / KLpq (variational graph), learning rate symbolic in (0, 0.01); scheduler, convergence check and '
            'the `distributions` option are not used.  MCMC.run: 1-2 iterations, 1-2 operators out of ScalerOperator / '
            'SlidingWindowOperator / HMCOperator(LeapfrogIntegrator, 1 step, diagonal unit mass matrix, adaptation off), tuning '
            'parameters symbolic, both decisions of every iteration (thorough: all four combinations of two iterations).  '
            'Comparison after the loop and (hook variants) after every iteration, through the logger interface the loops offer.  '
            'Decisions taken on values inside the loops (finite-gradient test, LBFGS termination tests, min(0, log alpha), the '
            'acceptance test) are path conditions of the witness region.')
    tr.bounds['histories'] = ('all histories of <= 2 (quick) / 3 (thorough, sampled) update operations, each followed by evaluation of '
                              'every model value; observer-subset histories: only one observer (thorough: also every ordered pair of '
                              'observers of the variational scenario) is evaluated before / between / after the updates, so that the '
                              'models it does not read through __call__ keep an invalid cache; real-loop histories: one loop alone, '
                              'with one observer / an ordered pair of tree accessors only, an assignment before / after it, the same '
                              'loop twice, an optimiser loop followed by a sampler loop and vice versa (quick: a selection; thorough: '
                              'every assignment, every observer, every such pair); conversion histories: cpu() / to(float64) of a '
                              'parameter alone, before / after an assignment, twice with one observer')
    with tracing() as t:
        d = t.dag
        d.uf_eval.update(p_witness(attempt))
        counter = itertools.count()
        dom = []
        A, base, evaluators, ops = build(scen)
        ops = all_ops(scen, ops)
        # initial symbolic state
        for pname, vals in base.items():
            st = new_vars(f'init_{pname}', torch.tensor(vals, dtype=torch.float64))
            try:
                set_state(scen, A, pname, st)
            except Exception as e:
                tr.violation(f'update-raises:{scen}:assign:{pname}',
                             f'{scen}: assigning parameter "{pname}" raised {type(e).__name__}: {e}',
                             {'scenario': scen, 'history': [], 'parameter': pname})
                return
        goals = []

        if onlys:
            # only ONE observer (or a short list) is evaluated between the updates: a flag cleared by another accessor is
            # then never reset, and a model the observer reads through rsample()/entropy()/... is never called
            evaluators = {o: evaluators[o] for o in onlys}

        def evaluate(D):
            out = {}
            for en, f in evaluators.items():
                out[en] = flat_ids(d, f(D))
            return out

        twin_hyps = []

        def fresh_copy():
            B, _, _, _ = build(scen)
            for pname in base:
                cur_t = A[pname].tensor
                set_state(scen, B, pname, from_ids(cur_t._ids.clone()) if isinstance(cur_t, SymTensor) else cur_t.clone())
            return B

        effect_checks = []
        loopy = any(ops[o][0] in ('optimizer', 'mcmc') for o in history)
        fast = loopy or scen in WITNESS_FIRST
        # signature of a stale observer: it names the real loop when the step under examination IS that loop (or a later step
        # of a history in which the loop already left something that is not syntactically fresh), otherwise observer only
        loop_tag = []
        tainted = []

        first_sig = {}  # an observer that was already not syntactically fresh at an earlier step keeps the signature it got there

        def sig_of(en, suspicious=False):
            if en in first_sig:
                return first_sig[en]
            tag = loop_tag[0] if loop_tag else (tainted[0] if tainted else None)
            sig = f'stale:{scen}:{en}' + (f':after {tag}' if tag else '')
            if suspicious:
                first_sig[en] = sig
            return sig

        def add_goals(tag, got, want):
            for en in evaluators:
                a, b = got[en], want[en]
                if len(a) != len(b):
                    goals.append((f'{tag}: {en} has the shape of a fresh rebuild', d.FALSE, [], sig_of(en, True)))
                else:
                    node = d.and_(*[d.eq(x, y) for x, y in zip(a, b)])
                    if node != d.TRUE:
                        node = strip_stops(d, node)
                        if node == d.TRUE and len(tr.notes) < 3:
                            tr.notes.append(f'{label}: {tag} the cached {en} equals the fresh value but was '
                                            'computed under no_grad / detach (it carries no autograd graph): a gradient-level '
                                            'difference, outside the value statement of C11')
                    if node != d.TRUE and loop_tag and not tainted:
                        tainted.append(loop_tag[0])
                    goals.append((f'{tag}: {en} == value of a freshly built copy', node, [], sig_of(en, node != d.TRUE)))

        inside = []

        def checkpoint(tag):
            """called by the logger hook of a real loop after each of its iterations"""
            B = fresh_copy()
            got = evaluate(A)
            add_goals(f'step {inside[0] + 1} ({inside[1]}), {tag}', got, evaluate(B))

        try:
            prev = evaluate(A)  # warm every cache
            for step, oname in enumerate(history):
                kind = ops[oname][0]
                inside[:] = [step, oname]
                loop_tag[:] = [loop_name(ops[oname])] if kind in ('optimizer', 'mcmc') else []
                try:
                    apply_op(A, ops[oname], counter, dom, checkpoint, attempt)
                except Retry:
                    raise
                except Exception as e:
                    from symtorch.expr import EngineError

                    if isinstance(e, EngineError):
                        tr.inconc(f'{label}: the engine cannot execute operation "{oname}": {type(e).__name__}: {e}')
                        return
                    # "a parameter update never raises": confirmed on plain tensors before it is reported
                    wit = {n: d.vals[i] for n, i in d.var_ids.items()}
                    ok, detail = replay_history(scen, history, wit, only, raises_only=True)
                    if ok and detail.startswith('raised'):
                        where = detail.split('[')[-1].rstrip(']') if detail.endswith(']') else ''
                        if kind in ('optimizer', 'mcmc'):
                            sig = f'update-raises:{loop_name(ops[oname])}:{type(e).__name__} in {where}'
                        elif kind == 'convert':
                            sig = f'update-raises:{type(A[ops[oname][1]]).__name__}.{ops[oname][2]}:{type(e).__name__}'
                        else:
                            sig = f'update-raises:{scen}:{oname}' 
                        tr.violation(sig, f'{label}: operation "{oname}" raised {type(e).__name__}: {e} '
                                     f'(plain tensors: {detail})', {'scenario': scen, 'history': list(history), 'label': label,
                                                                    'values': wit})
                    else:
                        import traceback

                        tr.inconc(f'{label}: operation "{oname}" raised {type(e).__name__}: {e} on the symbolic run but the replay '
                                  f'on plain tensors says: {detail} {traceback.format_exc()[-700:]}')
                    return
                B = fresh_copy()  # holds the state the update left (an evaluation may draw, i.e. change x / z_unc / w itself)
                got = evaluate(A)
                want = evaluate(B)
                no_effect = kind in ('op_reject', 'convert') or (kind == 'mcmc' and all(p[1] == 'reject' for p in ops[oname][1]['plan']))
                if not no_effect:
                    cands = []
                    if onlys and scen in STOCHASTIC and kind not in ('optimizer', 'mcmc'):
                        # single-observer guard: the value a FRESH copy returns after the update can differ from the value
                        # before it, for every observer that depends on a written parameter (independent of the caches of A)
                        deps, redrawn = [], False
                        for en in evaluators:
                            # an objective over `var` evaluated earlier in the round has re-drawn x: what was written is gone
                            if (DEPENDS[en] - ({'x'} if redrawn else set())) & WRITES[ops[oname][1]]:
                                deps.append(en)
                            redrawn = redrawn or DEPENDS[en] is _MAIN
                        for en in deps:
                            if len(prev[en]) != len(want[en]):
                                cands.append((0, d.FALSE))
                            for x, y in zip(prev[en], want[en]):
                                if x != y:
                                    cands.append((d.size([x, y]), d.eq(x, y)))
                        if deps:
                            effect_checks.append((step, oname, [c[1] for c in sorted(cands)] or [d.TRUE]))
                    else:
                        # (the value of a FRESH copy after the update, so that the guard does not depend on A's caches; on a tree
                        # without stale caches it is the same expression as A's own value)
                        after = got if (scen in STOCHASTIC and kind not in ('optimizer', 'mcmc')) else want
                        for en in evaluators:
                            for x, y in zip(prev[en], after[en]):
                                if x != y:
                                    same = strip_stops(d, d.eq(x, y)) if loopy else d.eq(x, y)  # MCMC.run evaluates under no_grad
                                    if same != d.TRUE:
                                        cands.append((d.size([same]), same))
                        if scen in STOCHASTIC or fast:
                            # x = loc + eps * scale makes (x - loc) / scale syntactically new but equal: try the next candidates
                            effect_checks.append((step, oname, [c[1] for c in sorted(cands)] or [d.TRUE]))
                        else:
                            effect_checks.append((step, oname, [min(cands)[1] if cands else d.TRUE]))
                prev = got
                add_goals(f'after step {step + 1} ({oname})', got, want)
        except Retry:
            raise
        except Exception as e:
            import traceback

            tr.inconc(f'{label}: harness raised {type(e).__name__}: {e} {traceback.format_exc()[-600:]}')
            return
        if t.concretized:
            tr.inconc(f'{label}: concretised {t.concretized[:2]}')
            return
        tr.witness_runs += 1
        tr.ops_checked += t.nchecked
        tr.regions += 1
        V = {d.args[i][0]: i for g in goals for i in d.topo([g[1]]) if d.ops[i] == 'var'}
        tr.sample({'case': label, 'goals': len(goals), 'nontrivial': sum(1 for g in goals if g[1] != d.TRUE)})

        def replay(vals):
            return replay_history(scen, history, vals, only)

        # vacuity guard (solver): every update must be able to change some observed value, otherwise the
        # comparison with the fresh copy could not see a stale cache
        from symtorch.explore import prove

        def guard(same, at_witness=False):
            hyps = dom + list(t.pcs)
            if (scen not in STOCHASTIC and not at_witness) or same == d.TRUE:
                return prove(d, hyps, same, timeout=20, tr=tr, label='vacuity guard', parallel=True)[0]
            # The guard is an existence statement (sat expected) and the general query over logsumexp towers is undecided
            # within 20 s, so the solver is asked at the witness point first: (1) every variable replaced by its witness
            # value and every exp/log/... application by its (rounded) witness value - ground rational arithmetic;
            # (2) variables replaced only, exp/log uninterpreted; (3) the general query.
            roots = [same] + hyps
            nodes = d.topo(roots)
            pin_vars = {i: d.const(d.vals[i]) for i in nodes if d.ops[i] == 'var'}
            pin_ufs = {i: d.const(float(f'{d.vals[i]:.9g}')) for i in nodes if d.ops[i] == 'uf' and math.isfinite(d.vals[i])}
            for mapping in ({**pin_vars, **pin_ufs}, pin_vars, None):
                rs = d.substitute(roots, mapping) if mapping else roots
                st = prove(d, rs[1:], rs[0], timeout=20, tr=tr, label='vacuity guard', parallel=True)[0]
                if st == 'refuted':
                    break
            return st

        def refute_at_witness(node):
            roots = [node] + dom + list(t.pcs)
            nodes = d.topo(roots)
            pin = {i: d.const(d.vals[i]) for i in nodes if d.ops[i] == 'var'}
            pin.update({i: d.const(float(f'{d.vals[i]:.12g}')) for i in nodes if d.ops[i] == 'uf' and math.isfinite(d.vals[i])})
            rs = d.substitute(roots, pin)
            return prove(d, rs[1:], rs[0], timeout=20, tr=tr, label='stale at the witness', parallel=True)[0]

        def short(vals):
            return {k: (round(v, 6) if isinstance(v, float) else v) for k, v in list(vals.items())[:12]}

        seen_draws = set()
        # (observer-subset histories around a real loop carry no guard: the observer need not depend on what the loop
        # moves; the same loop with every observer evaluated carries it)
        for step, oname, sames in ([] if (onlys and (scen not in STOCHASTIC or loopy)) else effect_checks):
            if ops[oname][0] == 'draw':
                # common random numbers: repeating a draw of the same shape re-assigns the same value
                if oname in seen_draws:
                    continue
                seen_draws.add(oname)
            st = 'proved'
            for same in sames[:32]:  # (x - loc) / scale of a re-drawn x: up to one equal candidate per element
                st = guard(same, at_witness=fast)  # expressions left by a real loop / heavy densities: at the witness point first
                if st == 'refuted':
                    break
            if st != 'refuted':
                tr.inconc(f'{label}: vacuity guard: operation "{oname}" has no observable effect on any evaluated value ({st})')

        if fast:
            # The expressions a real loop leaves (gradients of the joint) make the sat side of a general query slow.  A goal
            # that is false AT THE WITNESS is therefore first put to the solver with every variable and every uninterpreted
            # application replaced by its witness value (ground rational arithmetic; an under-approximation that can only
            # FIND a violation); `sat` there = the witness is the counterexample, which is replayed on plain tensors.
            wit = {n: d.vals[i] for n, i in d.var_ids.items()}
            rest, reported = [], set()
            for g in goals:
                node = g[1]
                if node == d.TRUE or (node != d.FALSE and bool(d.vals[node])):
                    rest.append(g)
                    continue
                if g[3] in reported:
                    continue  # the same observer is already reported for this history
                st = 'refuted' if node == d.FALSE else refute_at_witness(node)
                if st == 'refuted':
                    ok, detail = replay(wit)
                    if ok:
                        tr.violation(g[3], f'{label}: {g[0]} fails at the witness {short(wit)}: {detail}', {'label': label, 'values': wit})
                        reported.add(g[3])
                        continue
                rest.append(g)
            goals = rest
        cm.discharge(tr, d, dom + twin_hyps + list(t.pcs), goals, label, replay=replay, varnodes=V, defined=False, timeout=30,
                     threads=4, parallel=True)


# ------------------------------------------------------------------ replay (plain tensors, real HKY p_t)
def replay_history(scen, history, vals, only=None, raises_only=False):
    """raises_only: the question is whether an operation raises on plain tensors (stale values met on the way are not reported)"""
    if scen in STOCHASTIC:
        with sampler_stub(concrete_noise(vals)):
            return _replay_history(scen, history, vals, only, raises_only)
    return _replay_history(scen, history, vals, only, raises_only)


def _replay_history(scen, history, vals, only=None, raises_only=False):
    from torchtree.core.utils import process_objects
    from torchtree.inference.mcmc import operator as opmod

    import torchtree.distributions.distributions  # noqa
    import torchtree.distributions.joint_distribution  # noqa
    import torchtree.distributions.gmrf  # noqa
    import torchtree.distributions.ctmc_scale  # noqa
    import torchtree.evolution.coalescent  # noqa
    import torchtree.evolution.substitution_model.codon  # noqa
    import torchtree.evolution.tree_likelihood  # noqa
    import torchtree.distributions.deterministic_normal  # noqa
    import torchtree.variational  # noqa

    register_more()
    spec, base, evaluators, ops = SCENARIOS[scen]()
    ops = all_ops(scen, ops)
    if as_tuple(only):
        evaluators = {o: evaluators[o] for o in as_tuple(only)}

    def mk():
        dic = {}
        for obj in spec:
            process_objects(obj, dic)
        for pname, v in base.items():
            set_state(scen, dic, pname, torch.tensor(v, dtype=torch.float64))
        if 'dq' in dic:
            dic['dq'].eps = concrete_noise(vals)(tuple(dic['dq'].eps.shape), 'dn_eps')
        return dic

    A = mk()
    k = 0

    def vals_for(pname, shape, rng):
        nonlocal k
        n = 1
        for s in shape:
            n *= s
        names = cm.names_shaped(f'v{k}_{pname}', shape)
        lo, hi = rng
        out = [min(max(vals.get(nm, lo + (hi - lo) * 0.37), lo), hi) for nm in names]
        k += 1
        return torch.tensor(out, dtype=torch.float64).reshape(shape)

    def ev(D):
        return {en: f(D).detach().clone().to(torch.float64) for en, f in evaluators.items()}

    def differ(tag):
        if raises_only:
            ev(A)
            return None
        B = mk()
        for pname in base:
            set_state(scen, B, pname, A[pname].tensor.detach().clone())
        got = ev(A)
        want = ev(B)
        for en in evaluators:
            if got[en].shape != want[en].shape or not torch.allclose(got[en], want[en], rtol=1e-9, atol=1e-12, equal_nan=True):
                return f'{tag}: {en} = {got[en].tolist()} but a freshly built copy gives {want[en].tolist()}'
        return None

    found = []

    def checkpoint(tag):
        if not found:
            r = differ(tag)
            if r:
                found.append(r)

    try:
        ev(A)
        for oname in history:
            kind, target, rng = ops[oname]
            if kind in ('optimizer', 'mcmc'):
                num = Num(k, vals=vals)
                k += 1
                if kind == 'optimizer':
                    run_optimizer(A, target, num, checkpoint)
                else:
                    for attempt in range(len(XI_WITNESS)):
                        try:
                            run_mcmc(A, target, num, checkpoint, attempt)
                            break
                        except Retry as e:
                            # a rejected proposal was restored by the real reject(): the state is the one before the attempt
                            if attempt == len(XI_WITNESS) - 1:
                                return False, f'planned decisions not reachable on plain tensors: {e}'
                if found:
                    return True, f'"{oname}", {found[0]}'
                r = differ(f'after "{oname}"')
                if r:
                    return True, r
                continue
            obj = A[target]
            if kind == 'convert':
                obj.cpu() if rng == 'cpu' else obj.to(torch.float64)
            elif kind == 'assign':
                obj.tensor = vals_for(target, tuple(obj.tensor.shape), rng)
            elif kind == 'inplace':
                obj.tensor[...] = vals_for(target, tuple(obj.tensor.shape), rng)
                obj.fire_parameter_changed()
            elif kind == 'rsample':
                v = vals_for(target, tuple(obj.x.tensor.shape), rng)
                saved = obj.dist.rsample
                try:
                    obj.dist.rsample = lambda self_, sample_shape=torch.Size(): v
                    obj.rsample()
                finally:
                    obj.dist.rsample = saved
            elif kind == 'draw':
                getattr(obj, rng[0])(torch.Size(rng[1]))
            else:
                oper = opmod.ScalerOperator('scaler', [obj], 1.0, 0.24, 0.5)
                k += 1
                sr, sri = torch.rand, torch.randint
                try:
                    torch.rand = lambda *a, **kk: torch.tensor([0.4])
                    torch.randint = lambda *a, **kk: torch.zeros(1, dtype=torch.int64)
                    oper.step()
                    oper.reject()
                finally:
                    torch.rand, torch.randint = sr, sri
            r = differ(f'after "{oname}"')
            if r:
                return True, r
    except Exception as e:
        import traceback

        frames = [f for f in traceback.extract_tb(e.__traceback__) if '/torchtree/' in f.filename] or traceback.extract_tb(e.__traceback__)
        tb = frames[-1]
        return True, f'raised {type(e).__name__}: {e} [{os.path.basename(tb.filename)} {tb.name}]'
    return False, 'agree'


def tasks_for(tier):
    ts = []
    for scen in SCENARIOS:
        ops = list(SCENARIOS[scen]()[3])
        for o in ops:
            ts.append((scen, (o,)))
        pairs = list(itertools.product(ops, ops))
        if tier == 'quick':
            # every operation appears as first and as second element; pairs touching different holders
            sel = [pr for k, pr in enumerate(pairs) if (k * 7) % 5 == 0 or pr[0] == pr[1]]
            pairs = sel[:40] if scen == 'phylo' else sel[:20]
            if scen == 'timetree':
                pairs = list(itertools.product(ops, ops))[::2][:24]
            if scen == 'variational':
                pairs = sel[::3][:8]  # the weight of this scenario is on the observer-subset histories below
        for pr in pairs:
            ts.append((scen, pr))
        evs = list(SCENARIOS[scen]()[2])
        if scen == 'variational':
            # observer-subset histories over the WHOLE product observer x operation: the observer is evaluated, the
            # parameter is updated, the observer is evaluated again (twice).  Models the observer reads through
            # rsample()/sample()/entropy()/log_prob() are never called, i.e. hold an invalid cache all along.
            for e in evs:
                for k, o in enumerate(ops):
                    if tier == 'thorough':
                        for o2 in ops:
                            ts.append((scen, (o, o2), e))
                    else:
                        ts.append((scen, (o, ops[(k + 1) % len(ops)]), e))
            if tier == 'thorough':
                # two observers (every ordered pair): the second evaluation re-draws / validates what the first one left
                objectives = [e for e in evs if e.split('(')[0] in ('elbo', 'elbo_ent', 'elbo_ms', 'elbo_score', 'klpq', 'klpqi', 'vr',
                                                                   'cubo', 'elbo_q', 'elbo_dn', 'elbo_dn_ent')]
                for e1, e2 in itertools.permutations(evs, 2):
                    if e1 not in objectives and e2 not in objectives:
                        continue  # two accessors: neither draws nor caches
                    for o in ops:
                        ts.append((scen, (o,), (e1, e2)))
                triples = list(itertools.product(ops, ops, ops))
                for tpl in triples[::max(1, len(triples) // 120)]:
                    ts.append((scen, tpl))
                    ts.append((scen, tpl, evs[(len(ts) // 2) % 11]))
            continue
        # single-observer histories: the same update twice with only one model value read in between
        single = [e for e in evs if e.endswith('()')]
        # ordered observer pairs around an accessor of the tree: one accessor (node_heights) may clear the flag that
        # another reader (branch_lengths(), the likelihood, the coalescent) relies on - both orders, every operation
        accessors = [e for e in evs if e in ('tree.node_heights', 'tree.branch_lengths()')]
        if len(accessors) == 2:
            for o in ops:
                ts.append((scen, (o, o), (accessors[0], accessors[1])))
                ts.append((scen, (o, o), (accessors[1], accessors[0])))
                for e in (single if tier == 'thorough' else single[:3]):
                    if e not in accessors:
                        ts.append((scen, (o,), (accessors[0], e)))
                        if tier == 'thorough':
                            ts.append((scen, (o,), (e, accessors[0])))
        for o in ops:
            for e in (single if tier == 'thorough' else single[:4]):
                ts.append((scen, (o, o), e))
        if tier == 'thorough':
            triples = list(itertools.product(ops, ops, ops))
            step = max(1, len(triples) // 120)
            for tpl in triples[::step]:
                ts.append((scen, tpl))
    return ts


def loop_tasks(tier):
    """histories in which a real loop (Optimizer.run / MCMC.run) does the update"""
    ts = []
    for scen in SCENARIOS:
        _, _, evaluators, base_ops = SCENARIOS[scen]()
        loops = {n: o for n, o in loop_ops(scen).items() if tier == 'thorough' or o[1]['tier'] == 'quick'}
        evs = list(evaluators)
        assigns = [o for o, v in base_ops.items() if v[0] in ('assign', 'inplace')]
        for c in convert_ops(scen):
            # a conversion alone (every cache warm), after / before an update, and with one observer only
            ts.append((scen, (c,)))
            for a in (assigns if tier == 'thorough' else assigns[:2]):
                ts.append((scen, (a, c)))
                ts.append((scen, (c, a)))
            for e in (evs if tier == 'thorough' else evs[:2]):
                ts.append((scen, (c, c), e))
        if not loops:
            continue
        names = list(loops)
        for i, n in enumerate(names):
            ts.append((scen, (n,)))  # every observer warmed before, every observer compared after (and inside, with the hook)
            if HOOK in n:
                continue  # the hook variant reads everything; the observer subsets below use the plain variant
            # one observer only: what the loop itself evaluates (the loss, the joint under no_grad) is the only other reader
            if tier == 'thorough':
                singles = evs
            else:
                singles = [evs[(i * 3 + j * 5) % len(evs)] for j in range(3)]
                singles = list(dict.fromkeys(singles))
            if scen == 'variational':
                singles = singles[:2] if tier == 'quick' else singles
            for e in singles:
                ts.append((scen, (n,), e))
            accessors = [e for e in evs if e in ('tree.node_heights', 'tree.branch_lengths()')]
            if len(accessors) == 2 and (tier == 'thorough' or i % 2 == 0):
                ts.append((scen, (n,), (accessors[0], accessors[1])))
                ts.append((scen, (n,), (accessors[1], accessors[0])))
            # an assignment before / after the loop, the same loop twice
            picks = assigns if tier == 'thorough' else [assigns[(i * 2) % len(assigns)], assigns[(i * 2 + 3) % len(assigns)]]
            for a in dict.fromkeys(picks):
                ts.append((scen, (a, n)))
                ts.append((scen, (n, a)))
            if tier == 'thorough' or i % 3 == 0:
                ts.append((scen, (n, n)))
        if tier == 'thorough':
            for a, b in itertools.permutations(names, 2):
                if (loops[a][0], loops[b][0]) in (('optimizer', 'mcmc'), ('mcmc', 'optimizer')) and HOOK not in a + b:
                    ts.append((scen, (a, b)))
        else:
            opt = [n for n in names if loops[n][0] == 'optimizer' and HOOK not in n]
            mc = [n for n in names if loops[n][0] == 'mcmc' and HOOK not in n]
            for k in range(min(4, len(opt), len(mc))):
                ts.append((scen, (opt[k], mc[(2 * k + 1) % len(mc)])))
                ts.append((scen, (mc[(3 * k) % len(mc)], opt[-1 - k])))
            hmc = [n for n in mc if 'HMCOperator' in n]
            if opt and hmc:
                ts.append((scen, (opt[0], hmc[0])))  # the optimiser loop leaves requires_grad set on what the HMC operator then moves
    return ts


def body(chk):
    chk.explanation = ('enumerated update histories over a composite model graph; every assignment writes fresh symbols, so a '
                       'stale cache is an expression that still mentions old symbols; after each operation every model value is '
                       'compared with a freshly built copy holding the same symbols: identical hash-consed expressions close the '
                       'goal syntactically, any difference goes to the solver (sat => replay => violation); a solver vacuity '
                       'guard per step shows that the operation can change an observed value; observer-subset histories '
                       '(one observer, thorough: two) over the variational graph reach the states in which a model in the middle '
                       'of the notification chain holds an invalid cache (it is read through rsample()/sample()/entropy(), never '
                       'called) while the objective listening to it holds a valid one')
    chk.explanation += ('; real-loop histories: the update is made by the real Optimizer.run (SGD / Adam / LBFGS maximising the '
                        'joint or an ELBO) or the real MCMC.run (Scaler / SlidingWindow / HMC operators, accept and reject) executed on '
                        'SymTensors: the parameter values they leave are expressions (x - lr * dJ/dx, s * x, x + eps * M^-1 p), the fresh '
                        'copy receives the same expression ids, every observer is compared after the loop and - through a logger hook - '
                        'after each of its iterations; goals that are false at the witness are first put to the solver at the witness '
                        'point (ground query), every counterexample is replayed with the real loop on plain tensors; three further '
                        'graphs (unrooted tree + GTR + compound gamma-Dirichlet prior + shrinkage priors; time tree + birth-death / '
                        'skyline / exponential / piecewise-linear / integrated coalescent / Poisson likelihood + flexible tree; '
                        'torch.nn.Module-backed parameters) put every parameter class and every cached model class that the engine can '
                        'execute into a history as updated object and as observer; cpu() / to(dtype) of every parameter class are '
                        'operations that must not raise')
    chk.total.bounds['classes'] = (
        'updated object and observer in at least one graph: Parameter, ViewParameter, CatParameter (+ its Container), '
        'TransformedParameter (ExpTransform; DifferenceNodeHeightTransform of a FlexibleTimeTreeModel; over a concatenation), '
        'ModuleParameter + torchtree.nn.Module (in-place updates only: the torch.nn.Module owns the tensors); TimeTreeModel, '
        'ReparameterizedTimeTreeModel, FlexibleTimeTreeModel, UnRootedTreeModel; Weibull / Invariant / Constant site models; HKY, GTR, '
        'MG94; Strict / Simple clock; TreeLikelihoodModel, PoissonTreeLikelihood; Constant / PiecewiseConstant / '
        'PiecewiseConstantGrid / Exponential / PiecewiseLinearGrid / ConstantIntegrated coalescent models; BirthDeathModel, '
        'BDSKModel (one epoch); CompoundGammaDirichletPrior; CTMCScale; GMRF, GMRFGammaIntegrated (weighted and time-aware); '
        'BayesianBridge (both forms), ScaleMixtureNormal; Distribution, JointDistributionModel, DeterministicNormal; ELBO, KLpq, '
        'KLpqImportance, VR, CUBO; Hamiltonian (through HMCOperator).  NOT in any graph: RootParameter (cannot be instantiated: '
        'abstract requires_grad setter missing), PiecewiseExponentialCoalescentGridModel (raises on every input: C08 finding), '
        'MultivariateNormal / NormalizingFlow / RealNVP / EnergyFunctionModel / SELBO (engine: no handler for their kernels), '
        'JC69 / GeneralJC69 / empirical models (no parameters), General(Non)SymmetricSubstitutionModel, cuda()')
    chk.total.assumptions |= {'substitution_model.p_t is an uninterpreted function of (branch argument, kappa, frequencies)',
                              'the base Parameter objects hold the current state; a fresh copy is built from the same JSON and '
                              'given the same tensors through the public setter',
                              'optimiser steps: (a) modelled as an in-place write into the held tensor followed by fire_parameter_changed(), and (b) '
                              'made by the real Optimizer.run on SymTensors (gradients by symbolic differentiation of the recorded joint; '
                              'derivatives of the uninterpreted P_ij are uninterpreted symbols)',
                              'a planned accept / reject decision of MCMC.run is reached by the placement of the witness of the uniform draw; '
                              'when the acceptance probability at the witness is exactly 0 or 1 the history is re-run with other proposal '
                              'draws / another witness interpretation of P_ij (up to 10 attempts, then inconclusive)',
                              'Module / ModuleParameter graph: the torch.nn.Module owns the tensors, so the initial state and the state of '
                              'the fresh copy are written in place (+ notification); assignment of a new tensor object is outside'}
    chk.total.stubs |= {'Distribution.rsample draw = fresh symbols', 'operator uniform draw = fresh symbol'}
    chk.total.assumptions |= {'variational scenario: the value a stochastic objective is compared with is the one a freshly built '
                              'copy computes from the same parameter values AND the same base noise (common random numbers); a '
                              'cached objective that is not re-drawn while no parameter changed is the CallableModel contract',
                              'variational scenario, vacuity guard: decided by the solver at the witness point (variables replaced '
                              'by their witness values, exp/log uninterpreted)'}
    pmap(run_task, tasks_for(chk.tier) + loop_tasks(chk.tier), chk.total)


if __name__ == '__main__':
    if '--replay' in sys.argv:
        import json

        torch.set_default_dtype(torch.float64)  # as main_for does for the check itself (torchtree's command line runs in float64)
        r = json.load(open(sys.argv[sys.argv.index('--replay') + 1]))
        rp = r['replay']
        if 'label' in rp:
            scen_, hist_, only_ = parse_label(rp['label'])
        else:
            scen_, hist_, only_ = rp['scenario'], tuple(rp['history']), None
        ok, detail = replay_history(scen_, hist_, rp.get('values', {}), only_)
        print(('REPRODUCED ' if ok else 'NOT REPRODUCED ') + detail)
        sys.exit(1 if ok else 0)
    sys.exit(main_for(PID, body))
