"""C11 Cached values never go stale.

A composite model graph containing every parameter kind (plain, view, concatenated,
transformed with and without parametric transform) and the cached model classes is
built from JSON.  Histories of update operations (each assignment writes FRESH
symbols) interleaved with evaluations are enumerated; after every operation each
model value / derived tensor must equal the value of a freshly built copy holding
the same symbols, for all values (a stale cache still mentions the old symbols).
"A parameter update never raises" is part of every run.
"""
from __future__ import annotations

import itertools
import math
import sys

import torch

import common as cm
from symtorch import SymMath, SymTensor, cur, from_ids, new_vars, tracing
from vlib.core import main_for, pmap

PID = 'C11'
N = 3
SEQS = {'t0': 'ACRA', 't1': 'CG-C', 't2': 'GTNG'}


# ------------------------------------------------------------------ scenarios
def scenario_phylo():
    taxa = cm.taxa_json(N)
    tree = cm.ratio_tree_json(((0, 1), 2), N)
    tree['taxa'] = taxa
    spec = [
        {'id': 'kk', 'type': 'Parameter', 'tensor': [2.0, 5.0]},
        {'id': 'kappa', 'type': 'ViewParameter', 'parameter': 'kk', 'indices': '0:1'},
        {'id': 'theta_unc', 'type': 'Parameter', 'tensor': [0.3]},
        {'id': 'theta', 'type': 'TransformedParameter', 'transform': 'torch.distributions.ExpTransform', 'x': 'theta_unc'},
        {'id': 'like', 'type': 'TreeLikelihoodModel', 'tree_model': tree,
         'site_model': {'id': 'site', 'type': 'WeibullSiteModel', 'categories': 2,
                        'shape': {'id': 'shape', 'type': 'Parameter', 'tensor': [0.7]},
                        'invariant': {'id': 'pinv', 'type': 'Parameter', 'tensor': [0.2]}},
         'substitution_model': {'id': 'subst', 'type': 'HKY', 'kappa': 'kappa',
                                'frequencies': {'id': 'freqs', 'type': 'Parameter', 'tensor': [0.1, 0.2, 0.3, 0.4]}},
         'branch_model': {'id': 'clock', 'type': 'StrictClockModel', 'tree_model': 'tree',
                          'rate': {'id': 'rate', 'type': 'Parameter', 'tensor': [0.01]}},
         'site_pattern': {'id': 'sp', 'type': 'SitePattern', 'alignment': cm.alignment_json(SEQS, taxa='taxa')}},
        {'id': 'coal', 'type': 'ConstantCoalescentModel', 'theta': 'theta', 'tree_model': 'tree'},
        {'id': 'prior_kappa', 'type': 'Distribution', 'distribution': 'torch.distributions.LogNormal', 'x': 'kappa',
         'parameters': {'loc': {'id': 'pk_mean', 'type': 'Parameter', 'tensor': [1.0]},
                        'scale': {'id': 'pk_scale', 'type': 'Parameter', 'tensor': [1.25]}}},
        {'id': 'q_theta', 'type': 'Distribution', 'distribution': 'torch.distributions.Normal', 'x': 'theta_unc',
         'parameters': {'loc': {'id': 'q_loc', 'type': 'Parameter', 'tensor': [0.1]},
                        'scale': {'id': 'q_scale', 'type': 'Parameter', 'tensor': [0.5]}}},
        {'id': 'prior_kk', 'type': 'Distribution', 'distribution': 'torch.distributions.Gamma', 'x': 'kk',
         'parameters': {'concentration': {'id': 'pkk_c', 'type': 'Parameter', 'tensor': [2.0]},
                        'rate': {'id': 'pkk_r', 'type': 'Parameter', 'tensor': [0.5]}}},
        {'id': 'kk_exp', 'type': 'TransformedParameter', 'transform': 'torch.distributions.ExpTransform', 'x': 'kk'},
        {'id': 'joint', 'type': 'JointDistributionModel', 'distributions': ['like', 'coal', 'prior_kappa', 'prior_kk', 'tree']},
    ]
    base = {'kk': [2.0, 5.0], 'pkk_c': [2.0], 'pkk_r': [0.5], 'theta_unc': [0.3], 'shape': [0.7], 'pinv': [0.2], 'freqs': [0.1, 0.2, 0.3, 0.4],
            'rate': [0.01], 'tree.ratios': [0.5], 'tree.root_height': [10.0], 'pk_mean': [1.0], 'pk_scale': [1.25],
            'q_loc': [0.1], 'q_scale': [0.5]}
    evaluators = {
        'joint()': lambda D: D['joint'](),
        'like()': lambda D: D['like'](),
        'coal()': lambda D: D['coal'](),
        'prior_kappa()': lambda D: D['prior_kappa'](),
        'tree() [node-height log-Jacobian]': lambda D: D['tree'](),
        'tree.node_heights': lambda D: D['tree'].node_heights,
        'tree.branch_lengths()': lambda D: D['tree'].branch_lengths(),
        'site.rates()': lambda D: D['site'].rates(),
        'site.probabilities()': lambda D: D['site'].probabilities(),
        'theta.tensor': lambda D: D['theta'].tensor,
        'theta() [log-Jacobian]': lambda D: D['theta'](),
        'kappa.tensor': lambda D: D['kappa'].tensor,
        'q_theta()': lambda D: D['q_theta'](),
        'clock.rates': lambda D: D['clock'].rates,
        'prior_kk() [prior on the parent of the kappa view]': lambda D: D['prior_kk'](),
        'kk_exp.tensor [transform of the parent of the kappa view]': lambda D: D['kk_exp'].tensor,
    }
    ops = {
        'assign ratios': ('assign', 'tree.ratios', (0.05, 0.95)),
        'assign root_height': ('assign', 'tree.root_height', (2.0, 30.0)),
        'assign kk (parent of the kappa view)': ('assign', 'kk', (0.5, 9.0)),
        'assign through the kappa view': ('assign', 'kappa', (0.5, 9.0)),
        'assign theta_unc (under the Exp transform)': ('assign', 'theta_unc', (-1.0, 1.0)),
        'assign through the transformed theta': ('assign', 'theta', (0.2, 4.0)),
        'assign shape': ('assign', 'shape', (0.2, 3.0)),
        'assign pinv': ('assign', 'pinv', (0.05, 0.6)),
        'assign clock rate': ('assign', 'rate', (0.001, 0.1)),
        'assign prior hyper-parameter pk_scale': ('assign', 'pk_scale', (0.5, 2.0)),
        'in-place write into ratios + fire_parameter_changed': ('inplace', 'tree.ratios', (0.05, 0.95)),
        'in-place write into rate + fire_parameter_changed': ('inplace', 'rate', (0.001, 0.1)),
        'rsample of q_theta into theta_unc': ('rsample', 'q_theta', (-1.0, 1.0)),
        'scaler-operator step on rate then reject': ('op_reject', 'rate', (0.001, 0.1)),
    }
    return spec, base, evaluators, ops


def scenario_smoothing():
    spec = [
        {'id': 'field_a', 'type': 'Parameter', 'tensor': [0.1, 0.4]},
        {'id': 'field_b', 'type': 'Parameter', 'tensor': [0.9]},
        {'id': 'field', 'type': 'CatParameter', 'parameters': ['field_a', 'field_b'], 'dim': -1},
        {'id': 'pop', 'type': 'TransformedParameter', 'transform': 'torch.distributions.ExpTransform', 'x': 'field'},
        {'id': 'gmrf', 'type': 'GMRF', 'x': 'field', 'precision': {'id': 'tau', 'type': 'Parameter', 'tensor': [1.5]}},
        {'id': 'skygrid', 'type': 'PiecewiseConstantCoalescentGridModel', 'theta': 'pop', 'grid': [1.2, 2.5],
         'times': [0.0, 0.0, 0.0, 1.0, 3.0], 'events': [1, 1, 1, 0, 0]},
        {'id': 'mg94', 'type': 'MG94', 'data_type': {'id': 'dt', 'type': 'CodonDataType', 'genetic_code': 'Universal'},
         'alpha': {'id': 'alpha', 'type': 'Parameter', 'tensor': [1.0]},
         'beta': {'id': 'beta', 'type': 'Parameter', 'tensor': [1.0]},
         'kappa': {'id': 'mkappa', 'type': 'Parameter', 'tensor': [2.0]},
         'frequencies': {'id': 'cfreqs', 'type': 'Parameter', 'tensor': [1.0 / 61] * 61}},
        {'id': 'joint', 'type': 'JointDistributionModel', 'distributions': ['gmrf', 'skygrid']},
    ]
    base = {'field_a': [0.1, 0.4], 'field_b': [0.9], 'tau': [1.5], 'alpha': [1.0], 'beta': [1.0], 'mkappa': [2.0]}
    evaluators = {
        'joint()': lambda D: D['joint'](),
        'gmrf()': lambda D: D['gmrf'](),
        'skygrid()': lambda D: D['skygrid'](),
        'field.tensor [cat]': lambda D: D['field'].tensor,
        'pop.tensor [exp of cat]': lambda D: D['pop'].tensor,
        'mg94.q()[0, 1:4]': lambda D: D['mg94'].q()[0, 1:4],
    }
    ops = {
        'assign field_a (member of the concatenation)': ('assign', 'field_a', (-1.0, 1.0)),
        'assign through the concatenated field': ('assign', 'field', (-1.0, 1.0)),
        'assign through the transformed pop (exp of the concatenation)': ('assign', 'pop', (0.3, 3.0)),
        'assign precision': ('assign', 'tau', (0.2, 5.0)),
        'assign MG94 kappa': ('assign', 'mkappa', (0.5, 5.0)),
        'assign MG94 beta': ('assign', 'beta', (0.5, 5.0)),
        'in-place write into field_b + fire_parameter_changed': ('inplace', 'field_b', (-1.0, 1.0)),
    }
    return spec, base, evaluators, ops


def scenario_timetree():
    """plain TimeTreeModel (internal heights as the parameter), per-branch clock, CTMC scale prior, skyride"""
    taxa = cm.taxa_json(N)
    tree = cm.time_tree_json(((0, 1), 2), N)
    tree['taxa'] = taxa
    spec = [
        {'id': 'like', 'type': 'TreeLikelihoodModel', 'tree_model': tree,
         'site_model': {'id': 'site', 'type': 'InvariantSiteModel', 'invariant': {'id': 'pinv', 'type': 'Parameter', 'tensor': [0.2]},
                        'mu': {'id': 'mu', 'type': 'Parameter', 'tensor': [1.3]}},
         'substitution_model': {'id': 'subst', 'type': 'HKY', 'kappa': {'id': 'kappa', 'type': 'Parameter', 'tensor': [2.0]},
                                'frequencies': {'id': 'freqs', 'type': 'Parameter', 'tensor': [0.1, 0.2, 0.3, 0.4]}},
         'branch_model': {'id': 'clock', 'type': 'SimpleClockModel', 'tree_model': 'tree',
                          'rate': {'id': 'rate', 'type': 'Parameter', 'tensor': [0.01, 0.02, 0.015, 0.03]}},
         'site_pattern': {'id': 'sp', 'type': 'SitePattern', 'alignment': cm.alignment_json(SEQS, taxa='taxa')}},
        {'id': 'coal', 'type': 'PiecewiseConstantCoalescentModel', 'theta': {'id': 'theta', 'type': 'Parameter', 'tensor': [2.0, 3.0]},
         'tree_model': 'tree'},
        {'id': 'ctmc', 'type': 'CTMCScale', 'x': 'rate', 'tree_model': 'tree'},
        {'id': 'joint', 'type': 'JointDistributionModel', 'distributions': ['like', 'coal', 'ctmc']},
    ]
    base = {'tree.heights': [1.0, 2.5], 'pinv': [0.2], 'mu': [1.3], 'kappa': [2.0], 'freqs': [0.1, 0.2, 0.3, 0.4],
            'rate': [0.01, 0.02, 0.015, 0.03], 'theta': [2.0, 3.0]}
    evaluators = {
        'joint()': lambda D: D['joint'](),
        'like()': lambda D: D['like'](),
        'coal()': lambda D: D['coal'](),
        'ctmc()': lambda D: D['ctmc'](),
        'tree.node_heights': lambda D: D['tree'].node_heights,
        'tree.branch_lengths()': lambda D: D['tree'].branch_lengths(),
        'site.probabilities()': lambda D: D['site'].probabilities(),
        'site.rates()': lambda D: D['site'].rates(),
        'subst.kappa': lambda D: D['subst'].kappa,
        'clock.rates': lambda D: D['clock'].rates,
    }
    ops = {
        'assign internal heights': ('assign', 'tree.heights', (0.5, 6.0)),
        'in-place write into internal heights + fire_parameter_changed': ('inplace', 'tree.heights', (0.5, 6.0)),
        'assign per-branch clock rates': ('assign', 'rate', (0.001, 0.1)),
        'assign theta': ('assign', 'theta', (0.2, 5.0)),
        'assign pinv': ('assign', 'pinv', (0.05, 0.6)),
        'assign mu': ('assign', 'mu', (0.3, 3.0)),
        'assign kappa': ('assign', 'kappa', (0.5, 9.0)),
    }
    return spec, base, evaluators, ops


SCENARIOS = {'phylo': scenario_phylo, 'smoothing': scenario_smoothing, 'timetree': scenario_timetree}


# ------------------------------------------------------------------ machinery
def p_witness():
    def mk(i, j):
        def f(t, *rest):
            x = math.sin(12.9898 * (t + 0.37 + 0.01 * sum(rest)) * (i * 4 + j + 1)) * 43758.5453
            raw = [0.05 + 0.9 * ((math.sin(12.9898 * (t + 0.37 + 0.01 * sum(rest)) * (i * 4 + jj + 1)) * 43758.5453) % 1.0)
                   for jj in range(4)]
            return raw[j] / sum(raw)

        return f

    return {f'P{i}{j}': mk(i, j) for i in range(4) for j in range(4)}


def install_p_stub(subst):
    """P_ij(t; kappa, pi) uninterpreted: a function of the branch argument AND of the current model parameters,
    so that a stale substitution-model value is visible."""
    def p_t(branch_lengths):
        d = cur().dag
        extra = subst.kappa._ids.reshape(-1).tolist() + subst.frequencies._ids.reshape(-1).tolist()
        ids = branch_lengths._ids
        out = []
        for b in ids.reshape(-1).tolist():
            out.append([[d.uf(f'P{i}{j}', b, *extra) for j in range(4)] for i in range(4)])
        return from_ids(torch.tensor(out, dtype=torch.int64).reshape(tuple(ids.shape) + (4, 4)))

    subst.p_t = p_t


def build(name):
    import torchtree.distributions.distributions  # noqa (class registration)
    import torchtree.distributions.joint_distribution  # noqa
    import torchtree.distributions.gmrf  # noqa
    import torchtree.distributions.ctmc_scale  # noqa
    import torchtree.evolution.coalescent  # noqa
    import torchtree.evolution.substitution_model.codon  # noqa
    import torchtree.evolution.tree_likelihood  # noqa
    from torchtree.core.utils import process_objects

    spec, base, evaluators, ops = SCENARIOS[name]()
    dic = {}
    for obj in spec:
        process_objects(obj, dic)
    if 'subst' in dic:
        install_p_stub(dic['subst'])
    return dic, base, evaluators, ops


def fresh_values(counter, pname, shape, rng):
    lo, hi = rng
    n = 1
    for s in shape:
        n *= s
    k = next(counter)
    vals = [lo + (hi - lo) * ((0.37 + 0.61803 * (k * 7 + i)) % 1.0) for i in range(n)]
    if pname == 'tree.heights':
        vals = sorted(vals)
    return new_vars(f'v{k}_{pname}', torch.tensor(vals, dtype=torch.float64).reshape(shape))


def apply_op(dic, op, counter, dom):
    """Apply one update operation with fresh symbols; returns nothing (state is in the base Parameters)."""
    from torchtree.inference.mcmc import operator as opmod

    kind, target, rng = op
    d = cur().dag
    obj = dic[target]
    if kind == 'assign':
        v = fresh_values(counter, target, tuple(obj.tensor.shape), rng)
        for i in v._ids.reshape(-1).tolist():
            dom.append(d.lt(d.const(rng[0] - 1e-9), i))
            dom.append(d.lt(i, d.const(rng[1] + 1e-9)))
        obj.tensor = v
    elif kind == 'inplace':
        v = fresh_values(counter, target, tuple(obj.tensor.shape), rng)
        for i in v._ids.reshape(-1).tolist():
            dom += [d.lt(d.const(rng[0] - 1e-9), i), d.lt(i, d.const(rng[1] + 1e-9))]
        obj.tensor[...] = v  # optimiser-style in-place update of the tensor the parameter holds
        obj.fire_parameter_changed()
    elif kind == 'rsample':
        x = obj.x
        v = fresh_values(counter, target, tuple(x.tensor.shape), rng)
        saved = obj.dist.rsample
        try:
            obj.dist.rsample = lambda self_, sample_shape=torch.Size(): v
            obj.rsample()
        finally:
            obj.dist.rsample = saved
    elif kind == 'op_reject':
        oper = opmod.ScalerOperator('scaler', [obj], 1.0, 0.24, 0.5)
        u = new_vars(f'v{next(counter)}_u', torch.tensor([0.4]))
        dom += [d.le(0, int(u._ids[0])), d.lt(int(u._ids[0]), 1)]
        saved_rand, saved_randint, saved_math = torch.rand, torch.randint, opmod.math
        try:
            torch.rand = lambda *a, **k: u
            torch.randint = lambda *a, **k: torch.zeros(1, dtype=torch.int64)
            opmod.math = SymMath()
            oper.step()
            _ = [e for e in ()]
            oper.reject()
        finally:
            torch.rand, torch.randint, opmod.math = saved_rand, saved_randint, saved_math
    else:
        raise KeyError(kind)


def flat_ids(d, x):
    if isinstance(x, SymTensor):
        return x._ids.reshape(-1).tolist()
    if isinstance(x, torch.Tensor):
        return [d.const(float(v)) for v in x.reshape(-1).tolist()]
    raise TypeError(type(x))


def run_task(task, tr):
    from torchtree.core import model as coremodel
    from torchtree.core import parameter as coreparam

    scen, history = task[0], task[1]
    only = task[2] if len(task) > 2 else None
    label = f'{scen}: ' + ' ; '.join(history) + (f' [only "{only}" is evaluated between updates]' if only else '')
    tr.fn(coreparam.Parameter.fire_parameter_changed, coreparam.TransformedParameter.handle_parameter_changed,
          coreparam.CatParameter.handle_parameter_changed, coreparam.ViewParameter.handle_parameter_changed,
          coremodel.CallableModel.__call__, coremodel.CallableModel.handle_parameter_changed,
          coremodel.CallableModel.handle_model_changed)
    tr.bounds['histories'] = 'all histories of <= 2 (quick) / 3 (thorough, sampled) update operations, each followed by evaluation of every model value'
    with tracing() as t:
        d = t.dag
        d.uf_eval.update(p_witness())
        counter = itertools.count()
        dom = []
        A, base, evaluators, ops = build(scen)
        # initial symbolic state
        for pname, vals in base.items():
            st = new_vars(f'init_{pname}', torch.tensor(vals, dtype=torch.float64))
            try:
                A[pname].tensor = st
            except Exception as e:
                tr.violation(f'update-raises:{scen}:assign:{pname}',
                             f'{scen}: assigning parameter "{pname}" raised {type(e).__name__}: {e}',
                             {'scenario': scen, 'history': [], 'parameter': pname})
                return
        goals = []

        if only:
            # only ONE observer is evaluated between the updates (a flag cleared by another accessor is then never reset)
            evaluators = {only: evaluators[only]}

        def evaluate(D):
            out = {}
            for en, f in evaluators.items():
                out[en] = flat_ids(d, f(D))
            return out

        twin_hyps = []

        def fresh_copy():
            B, _, _, _ = build(scen)
            for pname in base:
                cur_t = A[pname].tensor
                B[pname].tensor = from_ids(cur_t._ids.clone()) if isinstance(cur_t, SymTensor) else cur_t.clone()
            return B

        effect_checks = []

        try:
            prev = evaluate(A)  # warm every cache
            for step, oname in enumerate(history):
                try:
                    apply_op(A, ops[oname], counter, dom)
                except Exception as e:
                    tr.violation(f'update-raises:{scen}:{oname}', f'{label}: operation "{oname}" raised {type(e).__name__}: {e}',
                                 {'scenario': scen, 'history': list(history)})
                    return
                got = evaluate(A)
                want = evaluate(fresh_copy())
                if ops[oname][0] != 'op_reject':
                    cands = []
                    for en in evaluators:
                        for x, y in zip(prev[en], got[en]):
                            if x != y:
                                cands.append((d.size([x, y]), d.eq(x, y)))
                    same = min(cands)[1] if cands else d.TRUE
                    effect_checks.append((step, oname, same))
                prev = got
                for en in evaluators:
                    a, b = got[en], want[en]
                    if len(a) != len(b):
                        goals.append((f'after step {step + 1} ({oname}): {en} has the shape of a fresh rebuild', d.FALSE, [],
                                      f'stale:{scen}:{en}'))
                    else:
                        goals.append((f'after step {step + 1} ({oname}): {en} == value of a freshly built copy',
                                      d.and_(*[d.eq(x, y) for x, y in zip(a, b)]), [], f'stale:{scen}:{en}'))
        except Exception as e:
            tr.inconc(f'{label}: harness raised {type(e).__name__}: {e}')
            return
        if t.concretized:
            tr.inconc(f'{label}: concretised {t.concretized[:2]}')
            return
        tr.witness_runs += 1
        tr.ops_checked += t.nchecked
        tr.regions += 1
        V = {d.args[i][0]: i for g in goals for i in d.topo([g[1]]) if d.ops[i] == 'var'}
        tr.sample({'case': label, 'goals': len(goals), 'nontrivial': sum(1 for g in goals if g[1] != d.TRUE)})

        def replay(vals):
            return replay_history(scen, history, vals, only)

        # vacuity guard (solver): every update must be able to change some observed value, otherwise the
        # comparison with the fresh copy could not see a stale cache
        from symtorch.explore import prove

        for step, oname, same in ([] if only else effect_checks):
            st, r, _ = prove(d, dom + list(t.pcs), same, timeout=20, tr=tr, label='vacuity guard', parallel=True)
            if st != 'refuted' and not only:
                tr.inconc(f'{label}: vacuity guard: operation "{oname}" has no observable effect on any evaluated value ({st})')

        cm.discharge(tr, d, dom + twin_hyps + list(t.pcs), goals, label, replay=replay, varnodes=V, defined=False, timeout=30,
                     threads=4, parallel=True)


# ------------------------------------------------------------------ replay (plain tensors, real HKY p_t)
def replay_history(scen, history, vals, only=None):
    from torchtree.core.utils import process_objects
    from torchtree.inference.mcmc import operator as opmod

    import torchtree.distributions.distributions  # noqa
    import torchtree.distributions.joint_distribution  # noqa
    import torchtree.distributions.gmrf  # noqa
    import torchtree.distributions.ctmc_scale  # noqa
    import torchtree.evolution.coalescent  # noqa
    import torchtree.evolution.substitution_model.codon  # noqa
    import torchtree.evolution.tree_likelihood  # noqa

    spec, base, evaluators, ops = SCENARIOS[scen]()
    if only:
        evaluators = {only: evaluators[only]}

    def mk():
        dic = {}
        for obj in spec:
            process_objects(obj, dic)
        for pname, v in base.items():
            dic[pname].tensor = torch.tensor(v, dtype=torch.float64)
        return dic

    A = mk()
    k = 0

    def vals_for(pname, shape, rng):
        nonlocal k
        n = 1
        for s in shape:
            n *= s
        names = cm.names_shaped(f'v{k}_{pname}', shape)
        lo, hi = rng
        out = [min(max(vals.get(nm, lo + (hi - lo) * 0.37), lo), hi) for nm in names]
        k += 1
        return torch.tensor(out, dtype=torch.float64).reshape(shape)

    def ev(D):
        return {en: f(D).detach().clone().to(torch.float64) for en, f in evaluators.items()}

    try:
        ev(A)
        for oname in history:
            kind, target, rng = ops[oname]
            obj = A[target]
            if kind == 'assign':
                obj.tensor = vals_for(target, tuple(obj.tensor.shape), rng)
            elif kind == 'inplace':
                obj.tensor[...] = vals_for(target, tuple(obj.tensor.shape), rng)
                obj.fire_parameter_changed()
            elif kind == 'rsample':
                v = vals_for(target, tuple(obj.x.tensor.shape), rng)
                saved = obj.dist.rsample
                try:
                    obj.dist.rsample = lambda self_, sample_shape=torch.Size(): v
                    obj.rsample()
                finally:
                    obj.dist.rsample = saved
            else:
                oper = opmod.ScalerOperator('scaler', [obj], 1.0, 0.24, 0.5)
                k += 1
                sr, sri = torch.rand, torch.randint
                try:
                    torch.rand = lambda *a, **kk: torch.tensor([0.4])
                    torch.randint = lambda *a, **kk: torch.zeros(1, dtype=torch.int64)
                    oper.step()
                    oper.reject()
                finally:
                    torch.rand, torch.randint = sr, sri
            got = ev(A)
            B = mk()
            for pname in base:
                B[pname].tensor = A[pname].tensor.detach().clone()
            want = ev(B)
            for en in evaluators:
                if got[en].shape != want[en].shape or not torch.allclose(got[en], want[en], rtol=1e-9, atol=1e-12, equal_nan=True):
                    return True, f'after "{oname}": {en} = {got[en].tolist()} but a freshly built copy gives {want[en].tolist()}'
    except Exception as e:
        return True, f'raised {type(e).__name__}: {e}'
    return False, 'agree'


def tasks_for(tier):
    ts = []
    for scen in SCENARIOS:
        ops = list(SCENARIOS[scen]()[3])
        for o in ops:
            ts.append((scen, (o,)))
        pairs = list(itertools.product(ops, ops))
        if tier == 'quick':
            # every operation appears as first and as second element; pairs touching different holders
            sel = [pr for k, pr in enumerate(pairs) if (k * 7) % 5 == 0 or pr[0] == pr[1]]
            pairs = sel[:40] if scen == 'phylo' else sel[:20]
            if scen == 'timetree':
                pairs = list(itertools.product(ops, ops))[::2][:24]
        for pr in pairs:
            ts.append((scen, pr))
        # single-observer histories: the same update twice with only one model value read in between
        evs = list(SCENARIOS[scen]()[2])
        single = [e for e in evs if e.endswith('()')]
        for o in ops:
            for e in (single if tier == 'thorough' else single[:4]):
                ts.append((scen, (o, o), e))
        if tier == 'thorough':
            triples = list(itertools.product(ops, ops, ops))
            step = max(1, len(triples) // 120)
            for tpl in triples[::step]:
                ts.append((scen, tpl))
    return ts


def body(chk):
    chk.explanation = ('enumerated update histories over a composite model graph; every assignment writes fresh symbols, so a '
                       'stale cache is an expression that still mentions old symbols; after each operation every model value is '
                       'compared with a freshly built copy holding the same symbols: identical hash-consed expressions close the '
                       'goal syntactically, any difference goes to the solver (sat => replay => violation); a solver vacuity '
                       'guard per step shows that the operation can change an observed value')
    chk.total.assumptions |= {'substitution_model.p_t is an uninterpreted function of (branch argument, kappa, frequencies)',
                              'the base Parameter objects hold the current state; a fresh copy is built from the same JSON and '
                              'given the same tensors through the public setter',
                              'optimiser steps are modelled as an in-place write into the held tensor followed by fire_parameter_changed()'}
    chk.total.stubs |= {'Distribution.rsample draw = fresh symbols', 'operator uniform draw = fresh symbol'}
    pmap(run_task, tasks_for(chk.tier), chk.total)


if __name__ == '__main__':
    if '--replay' in sys.argv:
        import json

        r = json.load(open(sys.argv[sys.argv.index('--replay') + 1]))
        rp = r['replay']
        ok, detail = replay_history(rp['scenario'], tuple(rp['history']), rp.get('values', {}))
        print(('REPRODUCED ' if ok else 'NOT REPRODUCED ') + detail)
        sys.exit(1 if ok else 0)
    sys.exit(main_for(PID, body))
