"""C11 Cached values never go stale.

A composite model graph containing every parameter kind (plain, view, concatenated,
transformed with and without parametric transform) and the cached model classes is
built from JSON.  Histories of update operations (each assignment writes FRESH
symbols) interleaved with evaluations are enumerated; after every operation each
model value / derived tensor must equal the value of a freshly built copy holding
the same symbols, for all values (a stale cache still mentions the old symbols).
"A parameter update never raises" is part of every run.

Observer-subset histories: only one observer (thorough: also two) is evaluated before /
between / after the updates.  In the `variational` graph the observers are the variational
objectives, which read their variational distribution through rsample() / sample() /
entropy() and not (or not only) through __call__: the models in the middle of the
notification chain (Distribution, JointDistributionModel, DeterministicNormal) then hold an
invalid cache - never called since construction - while the objective listening to them
holds a valid one, and every notification has to pass through them all the same.  Draws use
common random numbers (one tensor of noise symbols per result shape), so that a cached
objective and the value of a freshly built copy are comparable.
"""
from __future__ import annotations

import contextlib
import io
import itertools
import math
import sys

import torch

import common as cm
from symtorch import SymMath, SymTensor, cur, from_ids, new_vars, tracing
from vlib.core import main_for, pmap

PID = 'C11'
N = 3
SEQS = {'t0': 'ACRA', 't1': 'CG-C', 't2': 'GTNG'}


# ------------------------------------------------------------------ scenarios
def scenario_phylo():
    taxa = cm.taxa_json(N)
    tree = cm.ratio_tree_json(((0, 1), 2), N)
    tree['taxa'] = taxa
    spec = [
        {'id': 'kk', 'type': 'Parameter', 'tensor': [2.0, 5.0]},
        {'id': 'kappa', 'type': 'ViewParameter', 'parameter': 'kk', 'indices': '0:1'},
        {'id': 'theta_unc', 'type': 'Parameter', 'tensor': [0.3]},
        {'id': 'theta', 'type': 'TransformedParameter', 'transform': 'torch.distributions.ExpTransform', 'x': 'theta_unc'},
        {'id': 'like', 'type': 'TreeLikelihoodModel', 'tree_model': tree,
         'site_model': {'id': 'site', 'type': 'WeibullSiteModel', 'categories': 2,
                        'shape': {'id': 'shape', 'type': 'Parameter', 'tensor': [0.7]},
                        'invariant': {'id': 'pinv', 'type': 'Parameter', 'tensor': [0.2]}},
         'substitution_model': {'id': 'subst', 'type': 'HKY', 'kappa': 'kappa',
                                'frequencies': {'id': 'freqs', 'type': 'Parameter', 'tensor': [0.1, 0.2, 0.3, 0.4]}},
         'branch_model': {'id': 'clock', 'type': 'StrictClockModel', 'tree_model': 'tree',
                          'rate': {'id': 'rate', 'type': 'Parameter', 'tensor': [0.01]}},
         'site_pattern': {'id': 'sp', 'type': 'SitePattern', 'alignment': cm.alignment_json(SEQS, taxa='taxa')}},
        {'id': 'coal', 'type': 'ConstantCoalescentModel', 'theta': 'theta', 'tree_model': 'tree'},
        {'id': 'prior_kappa', 'type': 'Distribution', 'distribution': 'torch.distributions.LogNormal', 'x': 'kappa',
         'parameters': {'loc': {'id': 'pk_mean', 'type': 'Parameter', 'tensor': [1.0]},
                        'scale': {'id': 'pk_scale', 'type': 'Parameter', 'tensor': [1.25]}}},
        {'id': 'q_theta', 'type': 'Distribution', 'distribution': 'torch.distributions.Normal', 'x': 'theta_unc',
         'parameters': {'loc': {'id': 'q_loc', 'type': 'Parameter', 'tensor': [0.1]},
                        'scale': {'id': 'q_scale', 'type': 'Parameter', 'tensor': [0.5]}}},
        {'id': 'prior_kk', 'type': 'Distribution', 'distribution': 'torch.distributions.Gamma', 'x': 'kk',
         'parameters': {'concentration': {'id': 'pkk_c', 'type': 'Parameter', 'tensor': [2.0]},
                        'rate': {'id': 'pkk_r', 'type': 'Parameter', 'tensor': [0.5]}}},
        {'id': 'kk_exp', 'type': 'TransformedParameter', 'transform': 'torch.distributions.ExpTransform', 'x': 'kk'},
        {'id': 'joint', 'type': 'JointDistributionModel', 'distributions': ['like', 'coal', 'prior_kappa', 'prior_kk', 'tree']},
    ]
    base = {'kk': [2.0, 5.0], 'pkk_c': [2.0], 'pkk_r': [0.5], 'theta_unc': [0.3], 'shape': [0.7], 'pinv': [0.2], 'freqs': [0.1, 0.2, 0.3, 0.4],
            'rate': [0.01], 'tree.ratios': [0.5], 'tree.root_height': [10.0], 'pk_mean': [1.0], 'pk_scale': [1.25],
            'q_loc': [0.1], 'q_scale': [0.5]}
    evaluators = {
        'joint()': lambda D: D['joint'](),
        'like()': lambda D: D['like'](),
        'coal()': lambda D: D['coal'](),
        'prior_kappa()': lambda D: D['prior_kappa'](),
        'tree() [node-height log-Jacobian]': lambda D: D['tree'](),
        'tree.node_heights': lambda D: D['tree'].node_heights,
        'tree.branch_lengths()': lambda D: D['tree'].branch_lengths(),
        'site.rates()': lambda D: D['site'].rates(),
        'site.probabilities()': lambda D: D['site'].probabilities(),
        'theta.tensor': lambda D: D['theta'].tensor,
        'theta() [log-Jacobian]': lambda D: D['theta'](),
        'kappa.tensor': lambda D: D['kappa'].tensor,
        'q_theta()': lambda D: D['q_theta'](),
        'clock.rates': lambda D: D['clock'].rates,
        'prior_kk() [prior on the parent of the kappa view]': lambda D: D['prior_kk'](),
        'kk_exp.tensor [transform of the parent of the kappa view]': lambda D: D['kk_exp'].tensor,
    }
    ops = {
        'assign ratios': ('assign', 'tree.ratios', (0.05, 0.95)),
        'assign root_height': ('assign', 'tree.root_height', (2.0, 30.0)),
        'assign kk (parent of the kappa view)': ('assign', 'kk', (0.5, 9.0)),
        'assign through the kappa view': ('assign', 'kappa', (0.5, 9.0)),
        'assign theta_unc (under the Exp transform)': ('assign', 'theta_unc', (-1.0, 1.0)),
        'assign through the transformed theta': ('assign', 'theta', (0.2, 4.0)),
        'assign shape': ('assign', 'shape', (0.2, 3.0)),
        'assign pinv': ('assign', 'pinv', (0.05, 0.6)),
        'assign clock rate': ('assign', 'rate', (0.001, 0.1)),
        'assign prior hyper-parameter pk_scale': ('assign', 'pk_scale', (0.5, 2.0)),
        'in-place write into ratios + fire_parameter_changed': ('inplace', 'tree.ratios', (0.05, 0.95)),
        'in-place write into rate + fire_parameter_changed': ('inplace', 'rate', (0.001, 0.1)),
        'rsample of q_theta into theta_unc': ('rsample', 'q_theta', (-1.0, 1.0)),
        'scaler-operator step on rate then reject': ('op_reject', 'rate', (0.001, 0.1)),
    }
    return spec, base, evaluators, ops


def scenario_smoothing():
    spec = [
        {'id': 'field_a', 'type': 'Parameter', 'tensor': [0.1, 0.4]},
        {'id': 'field_b', 'type': 'Parameter', 'tensor': [0.9]},
        {'id': 'field', 'type': 'CatParameter', 'parameters': ['field_a', 'field_b'], 'dim': -1},
        {'id': 'pop', 'type': 'TransformedParameter', 'transform': 'torch.distributions.ExpTransform', 'x': 'field'},
        {'id': 'gmrf', 'type': 'GMRF', 'x': 'field', 'precision': {'id': 'tau', 'type': 'Parameter', 'tensor': [1.5]}},
        {'id': 'skygrid', 'type': 'PiecewiseConstantCoalescentGridModel', 'theta': 'pop', 'grid': [1.2, 2.5],
         'times': [0.0, 0.0, 0.0, 1.0, 3.0], 'events': [1, 1, 1, 0, 0]},
        {'id': 'mg94', 'type': 'MG94', 'data_type': {'id': 'dt', 'type': 'CodonDataType', 'genetic_code': 'Universal'},
         'alpha': {'id': 'alpha', 'type': 'Parameter', 'tensor': [1.0]},
         'beta': {'id': 'beta', 'type': 'Parameter', 'tensor': [1.0]},
         'kappa': {'id': 'mkappa', 'type': 'Parameter', 'tensor': [2.0]},
         'frequencies': {'id': 'cfreqs', 'type': 'Parameter', 'tensor': [1.0 / 61] * 61}},
        {'id': 'joint', 'type': 'JointDistributionModel', 'distributions': ['gmrf', 'skygrid']},
    ]
    base = {'field_a': [0.1, 0.4], 'field_b': [0.9], 'tau': [1.5], 'alpha': [1.0], 'beta': [1.0], 'mkappa': [2.0]}
    evaluators = {
        'joint()': lambda D: D['joint'](),
        'gmrf()': lambda D: D['gmrf'](),
        'skygrid()': lambda D: D['skygrid'](),
        'field.tensor [cat]': lambda D: D['field'].tensor,
        'pop.tensor [exp of cat]': lambda D: D['pop'].tensor,
        'mg94.q()[0, 1:4]': lambda D: D['mg94'].q()[0, 1:4],
    }
    ops = {
        'assign field_a (member of the concatenation)': ('assign', 'field_a', (-1.0, 1.0)),
        'assign through the concatenated field': ('assign', 'field', (-1.0, 1.0)),
        'assign through the transformed pop (exp of the concatenation)': ('assign', 'pop', (0.3, 3.0)),
        'assign precision': ('assign', 'tau', (0.2, 5.0)),
        'assign MG94 kappa': ('assign', 'mkappa', (0.5, 5.0)),
        'assign MG94 beta': ('assign', 'beta', (0.5, 5.0)),
        'in-place write into field_b + fire_parameter_changed': ('inplace', 'field_b', (-1.0, 1.0)),
    }
    return spec, base, evaluators, ops


def scenario_timetree():
    """plain TimeTreeModel (internal heights as the parameter), per-branch clock, CTMC scale prior, skyride"""
    taxa = cm.taxa_json(N)
    tree = cm.time_tree_json(((0, 1), 2), N)
    tree['taxa'] = taxa
    spec = [
        {'id': 'like', 'type': 'TreeLikelihoodModel', 'tree_model': tree,
         'site_model': {'id': 'site', 'type': 'InvariantSiteModel', 'invariant': {'id': 'pinv', 'type': 'Parameter', 'tensor': [0.2]},
                        'mu': {'id': 'mu', 'type': 'Parameter', 'tensor': [1.3]}},
         'substitution_model': {'id': 'subst', 'type': 'HKY', 'kappa': {'id': 'kappa', 'type': 'Parameter', 'tensor': [2.0]},
                                'frequencies': {'id': 'freqs', 'type': 'Parameter', 'tensor': [0.1, 0.2, 0.3, 0.4]}},
         'branch_model': {'id': 'clock', 'type': 'SimpleClockModel', 'tree_model': 'tree',
                          'rate': {'id': 'rate', 'type': 'Parameter', 'tensor': [0.01, 0.02, 0.015, 0.03]}},
         'site_pattern': {'id': 'sp', 'type': 'SitePattern', 'alignment': cm.alignment_json(SEQS, taxa='taxa')}},
        {'id': 'coal', 'type': 'PiecewiseConstantCoalescentModel', 'theta': {'id': 'theta', 'type': 'Parameter', 'tensor': [2.0, 3.0]},
         'tree_model': 'tree'},
        {'id': 'ctmc', 'type': 'CTMCScale', 'x': 'rate', 'tree_model': 'tree'},
        {'id': 'joint', 'type': 'JointDistributionModel', 'distributions': ['like', 'coal', 'ctmc']},
    ]
    base = {'tree.heights': [1.0, 2.5], 'pinv': [0.2], 'mu': [1.3], 'kappa': [2.0], 'freqs': [0.1, 0.2, 0.3, 0.4],
            'rate': [0.01, 0.02, 0.015, 0.03], 'theta': [2.0, 3.0]}
    evaluators = {
        'joint()': lambda D: D['joint'](),
        'like()': lambda D: D['like'](),
        'coal()': lambda D: D['coal'](),
        'ctmc()': lambda D: D['ctmc'](),
        'tree.node_heights': lambda D: D['tree'].node_heights,
        'tree.branch_lengths()': lambda D: D['tree'].branch_lengths(),
        'site.probabilities()': lambda D: D['site'].probabilities(),
        'site.rates()': lambda D: D['site'].rates(),
        'subst.kappa': lambda D: D['subst'].kappa,
        'clock.rates': lambda D: D['clock'].rates,
    }
    ops = {
        'assign internal heights': ('assign', 'tree.heights', (0.5, 6.0)),
        'in-place write into internal heights + fire_parameter_changed': ('inplace', 'tree.heights', (0.5, 6.0)),
        'assign per-branch clock rates': ('assign', 'rate', (0.001, 0.1)),
        'assign theta': ('assign', 'theta', (0.2, 5.0)),
        'assign pinv': ('assign', 'pinv', (0.05, 0.6)),
        'assign mu': ('assign', 'mu', (0.3, 3.0)),
        'assign kappa': ('assign', 'kappa', (0.5, 9.0)),
    }
    return spec, base, evaluators, ops


S_DRAWS = 2  # Monte-Carlo sample count of the objectives


def scenario_variational():
    """Models that are read through something else than __call__: the variational objectives read their variational
    distribution through rsample()/sample()/entropy() (ELBO with entropy=True never calls q()), a JointDistributionModel
    used as variational distribution forwards rsample()/entropy() to its members, DeterministicNormal draws from a
    noise tensor fixed at construction.  A model in the middle of the notification chain can therefore hold an INVALID
    cache (never called since construction / since the last update) while the objective listening to it holds a valid
    one; every later notification has to pass through it all the same.  The variational parameters are reached
    through views (q_loc, q2_loc of `locs`) and through an Exp-transformed scale (as the CLI emits them)."""
    S = S_DRAWS

    def normal(id_, x, loc, scale):
        return {'id': id_, 'type': 'Distribution', 'distribution': 'torch.distributions.Normal', 'x': x,
                'parameters': {'loc': loc, 'scale': scale}}

    def objective(id_, type_, samples, q='var', p='joint', **kw):
        o = {'id': id_, 'type': type_, 'samples': samples, 'variational': q, 'joint': p}
        o.update(kw)
        return o

    spec = [
        {'id': 'locs', 'type': 'Parameter', 'tensor': [0.1, 0.2, -0.3]},
        {'id': 'q_loc', 'type': 'ViewParameter', 'parameter': 'locs', 'indices': '0:2'},
        {'id': 'q2_loc', 'type': 'ViewParameter', 'parameter': 'locs', 'indices': '2:3'},
        {'id': 'q_logscale', 'type': 'Parameter', 'tensor': [-0.2, 0.3]},
        {'id': 'q_scale', 'type': 'TransformedParameter', 'transform': 'torch.distributions.ExpTransform', 'x': 'q_logscale'},
        {'id': 'x', 'type': 'Parameter', 'tensor': [0.5, 1.5]},
        {'id': 'z_unc', 'type': 'Parameter', 'tensor': [0.3]},
        {'id': 'z', 'type': 'TransformedParameter', 'transform': 'torch.distributions.ExpTransform', 'x': 'z_unc'},
        normal('q', 'x', 'q_loc', 'q_scale'),
        normal('q2', 'z_unc', 'q2_loc', {'id': 'q2_scale', 'type': 'Parameter', 'tensor': [0.7]}),
        {'id': 'var', 'type': 'JointDistributionModel', 'distributions': ['q', 'q2']},
        normal('prior_x', 'x', {'id': 'p_loc', 'type': 'Parameter', 'tensor': [0.0]}, {'id': 'p_scale', 'type': 'Parameter', 'tensor': [3.0]}),
        {'id': 'prior_z', 'type': 'Distribution', 'distribution': 'torch.distributions.LogNormal', 'x': 'z',
         'parameters': {'loc': {'id': 'pz_loc', 'type': 'Parameter', 'tensor': [0.4]},
                        'scale': {'id': 'pz_scale', 'type': 'Parameter', 'tensor': [1.25]}}},
        {'id': 'joint', 'type': 'JointDistributionModel', 'distributions': ['prior_x', 'prior_z', 'z']},
        objective('elbo', 'ELBO', [S]),
        objective('elbo_ent', 'ELBO', [S], entropy=True),
        objective('elbo_ms', 'ELBO', [S, 2]),
        objective('elbo_score', 'ELBO', [S], score=True),
        objective('klpq', 'KLpq', [S]),
        objective('klpqi', 'KLpqImportance', [S]),
        objective('vr', 'VR', [S], alpha=0.5),
        objective('cubo', 'CUBO', [S], n=2.0),
        # a single Distribution (not a joint) as variational distribution: same variational parameters (view, transformed
        # scale) and prior hyper-parameters, its own variable u (drawing x without z_unc would mix sample shapes in `var`)
        normal('qu', {'id': 'u', 'type': 'Parameter', 'tensor': [0.4, -0.6]}, 'q_loc', 'q_scale'),
        normal('prior_u', 'u', 'p_loc', 'p_scale'),
        objective('elbo_q', 'ELBO', [S], q='qu', p='prior_u', entropy=True),
        # DeterministicNormal: noise fixed at construction
        {'id': 'dq', 'type': 'DeterministicNormal', 'x': {'id': 'w', 'type': 'Parameter', 'tensor': [0.2]}, 'shape': [S],
         'loc': {'id': 'dn_loc', 'type': 'Parameter', 'tensor': [0.1]},
         'scale': {'id': 'dn_scale', 'type': 'Parameter', 'tensor': [0.6]}},
        normal('prior_w', 'w', {'id': 'pw_loc', 'type': 'Parameter', 'tensor': [0.0]}, {'id': 'pw_scale', 'type': 'Parameter', 'tensor': [2.0]}),
        objective('elbo_dn', 'ELBO', [S], q='dq', p='prior_w'),
        objective('elbo_dn_ent', 'ELBO', [S], q='dq', p='prior_w', entropy=True),
    ]
    base = {'locs': [0.1, 0.2, -0.3], 'q_logscale': [-0.2, 0.3], 'q2_scale': [0.7], 'x': [0.5, 1.5], 'z_unc': [0.3],
            'p_loc': [0.0], 'p_scale': [3.0], 'pz_loc': [0.4], 'pz_scale': [1.25], 'w': [0.2], 'dn_loc': [0.1], 'dn_scale': [0.6],
            'pw_loc': [0.0], 'pw_scale': [2.0], 'u': [0.4, -0.6]}
    evaluators = {
        # accessor observers first: they see the state the update left; every objective re-draws x, z_unc, w
        'var.entropy()': lambda D: D['var'].entropy(),
        'q.entropy()': lambda D: D['q'].entropy(),
        'q.log_prob(x)': lambda D: D['q'].log_prob(D['x']),
        'var()': lambda D: D['var'](),
        'q()': lambda D: D['q'](),
        'joint()': lambda D: D['joint'](),
        'q_scale.tensor': lambda D: D['q_scale'].tensor,
        'q_loc.tensor [view]': lambda D: D['q_loc'].tensor,
        'x.tensor': lambda D: D['x'].tensor,
        'elbo()': lambda D: D['elbo'](),
        'elbo_ent() [entropy=True]': lambda D: D['elbo_ent'](),
        'elbo_ms() [multi-sample]': lambda D: D['elbo_ms'](),
        'elbo_score() [score=True]': lambda D: D['elbo_score'](),
        'klpq()': lambda D: D['klpq'](),
        'klpqi()': lambda D: D['klpqi'](),
        'vr()': lambda D: D['vr'](),
        'cubo()': lambda D: D['cubo'](),
        'elbo_q() [entropy=True, single Distribution]': lambda D: D['elbo_q'](),
        'elbo_dn() [DeterministicNormal]': lambda D: D['elbo_dn'](),
        'elbo_dn_ent() [DeterministicNormal, entropy=True]': lambda D: D['elbo_dn_ent'](),
    }
    ops = {
        'assign locs (parent of the q_loc / q2_loc views)': ('assign', 'locs', (-1.0, 1.0)),
        'assign through the q_loc view': ('assign', 'q_loc', (-1.0, 1.0)),
        'assign through the q2_loc view': ('assign', 'q2_loc', (-1.0, 1.0)),
        'assign q_logscale (under the Exp transform)': ('assign', 'q_logscale', (-1.0, 0.7)),
        'assign through the transformed q_scale': ('assign', 'q_scale', (0.3, 2.0)),
        'in-place write into q_logscale + fire_parameter_changed': ('inplace', 'q_logscale', (-1.0, 0.7)),
        'in-place write into locs + fire_parameter_changed': ('inplace', 'locs', (-1.0, 1.0)),
        'assign q2_scale': ('assign', 'q2_scale', (0.3, 2.0)),
        'assign prior hyper-parameter p_scale': ('assign', 'p_scale', (0.5, 4.0)),
        'assign prior hyper-parameter pz_loc': ('assign', 'pz_loc', (-1.0, 1.0)),
        'assign dn_loc': ('assign', 'dn_loc', (-1.0, 1.0)),
        'in-place write into dn_scale + fire_parameter_changed': ('inplace', 'dn_scale', (0.3, 2.0)),
        'assign x (the sampled variable)': ('assign', 'x', (-2.0, 2.0)),
        'var.rsample([3]) (draw by the joint variational distribution)': ('draw', 'var', ('rsample', (3,))),
        'var.sample([4]) (draw by the joint variational distribution)': ('draw', 'var', ('sample', (4,))),
    }
    return spec, base, evaluators, ops


# which base parameters an observed value of the variational scenario depends on (the sampled variables x, z_unc, w
# are re-drawn by every objective, so an objective does not depend on their current value).  Used for the vacuity
# guard of the single-observer histories: an update of a parameter in DEPENDS[observer] must be able to change the value.
_MAIN = {'locs[q]', 'locs[q2]', 'q_logscale', 'q2_scale', 'p_scale', 'pz_loc'}
DEPENDS = {
    'elbo()': _MAIN, 'elbo_ent() [entropy=True]': _MAIN, 'elbo_ms() [multi-sample]': _MAIN,
    'elbo_score() [score=True]': _MAIN, 'klpq()': _MAIN, 'klpqi()': _MAIN, 'vr()': _MAIN, 'cubo()': _MAIN,
    'elbo_q() [entropy=True, single Distribution]': {'locs[q]', 'q_logscale', 'p_scale'},
    'elbo_dn() [DeterministicNormal]': {'dn_loc', 'dn_scale'},
    'elbo_dn_ent() [DeterministicNormal, entropy=True]': {'dn_loc', 'dn_scale'},
    'var.entropy()': {'q_logscale', 'q2_scale'}, 'q.entropy()': {'q_logscale'},
    'q.log_prob(x)': {'locs[q]', 'q_logscale', 'x'}, 'q()': {'locs[q]', 'q_logscale', 'x'},
    'var()': {'locs[q]', 'locs[q2]', 'q_logscale', 'q2_scale', 'x'}, 'joint()': {'p_scale', 'pz_loc', 'x'},
    'q_scale.tensor': {'q_logscale'}, 'q_loc.tensor [view]': {'locs[q]'}, 'x.tensor': {'x'},
}
WRITES = {  # operation target -> parameters written
    'locs': {'locs[q]', 'locs[q2]'}, 'q_loc': {'locs[q]'}, 'q2_loc': {'locs[q2]'}, 'q_logscale': {'q_logscale'},
    'q_scale': {'q_logscale'}, 'q2_scale': {'q2_scale'}, 'p_scale': {'p_scale'}, 'pz_loc': {'pz_loc'}, 'dn_loc': {'dn_loc'},
    'dn_scale': {'dn_scale'}, 'x': {'x'}, 'var': {'x'}, 'q': {'x'},
}

SCENARIOS = {'phylo': scenario_phylo, 'smoothing': scenario_smoothing, 'timetree': scenario_timetree,
             'variational': scenario_variational}
STOCHASTIC = {'variational'}  # scenarios whose observers draw: sampler stub installed


# ------------------------------------------------------------------ sampler stub (common random numbers)
def _generic_noise(shape, tag):
    n = 1
    for s in shape:
        n *= s
    off = 0.11 * len(tag) + 0.07 * len(shape)
    return torch.tensor([round(-1.1 + 2.3 * (((i + 1) * 0.6180339887 + off + 0.013 * n) % 1.0), 2) for i in range(n)],
                        dtype=torch.float64).reshape(shape)


def _noise_name(shape, tag):
    return f'{tag}_' + 'x'.join(map(str, shape))


def symbolic_noise(shape, tag='eps'):
    """ONE tensor of symbols per (tag, shape) and trace: every draw of that shape uses the same base noise, in the
    model under test and in the freshly built copy alike, so that a cached objective and a recomputed one are
    comparable; the noise itself is universally quantified."""
    t = cur()
    store = t.__dict__.setdefault('_c11_noise', {})
    key = (tag, tuple(shape))
    if key not in store:
        store[key] = new_vars(_noise_name(shape, tag), _generic_noise(tuple(shape), tag))
    return store[key]


def concrete_noise(vals):
    def f(shape, tag='eps'):
        g = _generic_noise(tuple(shape), tag).reshape(-1).tolist()
        names = cm.names_shaped(_noise_name(shape, tag), tuple(shape))
        return torch.tensor([vals.get(nm, dflt) for nm, dflt in zip(names, g)], dtype=torch.float64).reshape(tuple(shape))

    return f


@contextlib.contextmanager
def sampler_stub(noise):
    """torch.distributions.Normal.rsample / .sample = loc + noise(shape) * scale (sample: under no_grad)."""
    N = torch.distributions.Normal
    saved = {m: N.__dict__.get(m) for m in ('rsample', 'sample')}

    def rsample(self, sample_shape=torch.Size()):
        shape = tuple(self._extended_shape(torch.Size(sample_shape)))
        return self.loc + noise(shape) * self.scale

    def sample(self, sample_shape=torch.Size()):
        shape = tuple(self._extended_shape(torch.Size(sample_shape)))
        with torch.no_grad():
            return self.loc + noise(shape) * self.scale

    N.rsample, N.sample = rsample, sample
    try:
        yield
    finally:
        for m, old in saved.items():
            if old is None:
                delattr(N, m)
            else:
                setattr(N, m, old)


# ------------------------------------------------------------------ machinery
def p_witness():
    def mk(i, j):
        def f(t, *rest):
            x = math.sin(12.9898 * (t + 0.37 + 0.01 * sum(rest)) * (i * 4 + j + 1)) * 43758.5453
            raw = [0.05 + 0.9 * ((math.sin(12.9898 * (t + 0.37 + 0.01 * sum(rest)) * (i * 4 + jj + 1)) * 43758.5453) % 1.0)
                   for jj in range(4)]
            return raw[j] / sum(raw)

        return f

    return {f'P{i}{j}': mk(i, j) for i in range(4) for j in range(4)}


def install_p_stub(subst):
    """P_ij(t; kappa, pi) uninterpreted: a function of the branch argument AND of the current model parameters,
    so that a stale substitution-model value is visible."""
    def p_t(branch_lengths):
        d = cur().dag
        extra = subst.kappa._ids.reshape(-1).tolist() + subst.frequencies._ids.reshape(-1).tolist()
        ids = branch_lengths._ids
        out = []
        for b in ids.reshape(-1).tolist():
            out.append([[d.uf(f'P{i}{j}', b, *extra) for j in range(4)] for i in range(4)])
        return from_ids(torch.tensor(out, dtype=torch.int64).reshape(tuple(ids.shape) + (4, 4)))

    subst.p_t = p_t


def build(name):
    import torchtree.distributions.distributions  # noqa (class registration)
    import torchtree.distributions.joint_distribution  # noqa
    import torchtree.distributions.gmrf  # noqa
    import torchtree.distributions.ctmc_scale  # noqa
    import torchtree.evolution.coalescent  # noqa
    import torchtree.evolution.substitution_model.codon  # noqa
    import torchtree.evolution.tree_likelihood  # noqa
    from torchtree.core.utils import process_objects

    import torchtree.distributions.deterministic_normal  # noqa
    import torchtree.variational  # noqa

    spec, base, evaluators, ops = SCENARIOS[name]()
    dic = {}
    for obj in spec:
        process_objects(obj, dic)
    if 'subst' in dic:
        install_p_stub(dic['subst'])
    if 'dq' in dic:
        # DeterministicNormal draws its noise at construction: the noise of every copy = the same symbols
        dic['dq'].eps = symbolic_noise(tuple(dic['dq'].eps.shape), 'dn_eps')
    return dic, base, evaluators, ops


ROUND_WITNESS = False  # set for the variational scenario: short decimals keep the ground guard queries small


def fresh_values(counter, pname, shape, rng):
    lo, hi = rng
    n = 1
    for s in shape:
        n *= s
    k = next(counter)
    vals = [lo + (hi - lo) * ((0.37 + 0.61803 * (k * 7 + i)) % 1.0) for i in range(n)]
    if ROUND_WITNESS:
        vals = [round(v, 3) for v in vals]
    if pname == 'tree.heights':
        vals = sorted(vals)
    return new_vars(f'v{k}_{pname}', torch.tensor(vals, dtype=torch.float64).reshape(shape))


def apply_op(dic, op, counter, dom):
    """Apply one update operation with fresh symbols; returns nothing (state is in the base Parameters)."""
    from torchtree.inference.mcmc import operator as opmod

    kind, target, rng = op
    d = cur().dag
    obj = dic[target]
    if kind == 'assign':
        v = fresh_values(counter, target, tuple(obj.tensor.shape), rng)
        for i in v._ids.reshape(-1).tolist():
            dom.append(d.lt(d.const(rng[0] - 1e-9), i))
            dom.append(d.lt(i, d.const(rng[1] + 1e-9)))
        obj.tensor = v
    elif kind == 'inplace':
        v = fresh_values(counter, target, tuple(obj.tensor.shape), rng)
        for i in v._ids.reshape(-1).tolist():
            dom += [d.lt(d.const(rng[0] - 1e-9), i), d.lt(i, d.const(rng[1] + 1e-9))]
        obj.tensor[...] = v  # optimiser-style in-place update of the tensor the parameter holds
        obj.fire_parameter_changed()
    elif kind == 'rsample':
        x = obj.x
        v = fresh_values(counter, target, tuple(x.tensor.shape), rng)
        saved = obj.dist.rsample
        try:
            obj.dist.rsample = lambda self_, sample_shape=torch.Size(): v
            obj.rsample()
        finally:
            obj.dist.rsample = saved
    elif kind == 'draw':
        # draw through the model's own rsample()/sample() (sampler stub: loc + noise * scale); a sample shape no
        # objective uses, hence noise symbols that no cached value mentions
        meth, shape = rng
        getattr(obj, meth)(torch.Size(shape))
    elif kind == 'op_reject':
        oper = opmod.ScalerOperator('scaler', [obj], 1.0, 0.24, 0.5)
        u = new_vars(f'v{next(counter)}_u', torch.tensor([0.4]))
        dom += [d.le(0, int(u._ids[0])), d.lt(int(u._ids[0]), 1)]
        saved_rand, saved_randint, saved_math = torch.rand, torch.randint, opmod.math
        try:
            torch.rand = lambda *a, **k: u
            torch.randint = lambda *a, **k: torch.zeros(1, dtype=torch.int64)
            opmod.math = SymMath()
            oper.step()
            _ = [e for e in ()]
            oper.reject()
        finally:
            torch.rand, torch.randint, opmod.math = saved_rand, saved_randint, saved_math
    else:
        raise KeyError(kind)


def strip_stops(d, node):
    """C11 compares VALUES: a value computed under no_grad / detach() (ELBO(score=True) evaluates and thereby caches the
    joint under torch.no_grad()) carries `stop` nodes, which are the identity on values (and in the SMT encoding).  They
    are removed so that the DAG's own simplifications (log(exp a) = a) see through them."""
    for _ in range(64):
        stops = {i: d.args[i][0] for i in d.topo([node]) if d.ops[i] == 'stop'}
        if not stops:
            break
        node = d.substitute([node], stops)[0]
    return node


def flat_ids(d, x):
    if isinstance(x, SymTensor):
        return x._ids.reshape(-1).tolist()
    if isinstance(x, torch.Tensor):
        return [d.const(float(v)) for v in x.reshape(-1).tolist()]
    raise TypeError(type(x))


def as_tuple(only):
    if not only:
        return ()
    return (only,) if isinstance(only, str) else tuple(only)


def make_label(scen, history, only):
    onlys = as_tuple(only)
    return f'{scen}: ' + ' ; '.join(history) + (' [only ' + ' + '.join(f'"{o}"' for o in onlys) + ' is evaluated between updates]'
                                                if onlys else '')


def parse_label(label):
    scen, rest = label.split(': ', 1)
    onlys = ()
    if rest.endswith(' is evaluated between updates]'):
        rest, tail = rest.rsplit(' [only ', 1)
        tail = tail[:-len(' is evaluated between updates]')]
        onlys = tuple(x.strip('"') for x in tail.split('" + "'))
    return scen, tuple(rest.split(' ; ')), onlys


def run_task(task, tr):
    scen = task[0]
    if scen in STOCHASTIC:
        import torchtree.distributions.deterministic_normal as dnmod
        import torchtree.distributions.joint_distribution as jdmod
        import torchtree.variational as vmod
        from torchtree.distributions.distributions import Distribution

        tr.fn(vmod.ELBO._call, vmod.KLpq._call, vmod.KLpqImportance._call, vmod.VR._call, vmod.CUBO._call,
              Distribution.rsample, Distribution.sample, Distribution.entropy, jdmod.JointDistributionModel.rsample,
              jdmod.JointDistributionModel.sample, jdmod.JointDistributionModel.entropy, dnmod.DeterministicNormal.rsample)
        tr.stubs.add('torch.distributions.Normal.rsample/.sample = loc + eps * scale (sample: under no_grad) with ONE tensor of '
                     'universally quantified noise symbols eps per result shape (common random numbers: every draw of that '
                     'shape, by the model under test and by the freshly built copy, uses the same base noise); '
                     'DeterministicNormal.eps (drawn at construction) = the same noise symbols in every copy')
        tr.bounds['variational scenario'] = (
            f'Monte-Carlo sample shapes [{S_DRAWS}] and [{S_DRAWS},2]; objectives ELBO (default / entropy=True / multi-sample / '
            'score=True), KLpq, KLpqImportance, VR(alpha=0.5), CUBO(n=2) over a JointDistributionModel of two Normal '
            'Distributions, ELBO(entropy=True) over a single Distribution, ELBO over DeterministicNormal; SELBO (not exported '
            'by torchtree.variational), MultivariateNormal, NormalizingFlow and RealNVP are not part of the graph; '
            'value-dependent decisions (torch.max in CUBO / '
            'KLpqImportance, argument validation) are path conditions of the witness region')
        global ROUND_WITNESS
        ROUND_WITNESS = True
        try:
            with sampler_stub(symbolic_noise):
                return _run_task(task, tr)
        finally:
            ROUND_WITNESS = False
    return _run_task(task, tr)


def _run_task(task, tr):
    from torchtree.core import model as coremodel
    from torchtree.core import parameter as coreparam

    scen, history = task[0], task[1]
    only = task[2] if len(task) > 2 else None
    onlys = as_tuple(only)
    label = make_label(scen, history, only)
    tr.fn(coreparam.Parameter.fire_parameter_changed, coreparam.TransformedParameter.handle_parameter_changed,
          coreparam.CatParameter.handle_parameter_changed, coreparam.ViewParameter.handle_parameter_changed,
          coremodel.CallableModel.__call__, coremodel.CallableModel.handle_parameter_changed,
          coremodel.CallableModel.handle_model_changed)
    tr.bounds['histories'] = ('all histories of <= 2 (quick) / 3 (thorough, sampled) update operations, each followed by evaluation of '
                              'every model value; observer-subset histories: only one observer (thorough: also every ordered pair of '
                              'observers of the variational scenario) is evaluated before / between / after the updates, so that the '
                              'models it does not read through __call__ keep an invalid cache')
    with tracing() as t:
        d = t.dag
        d.uf_eval.update(p_witness())
        counter = itertools.count()
        dom = []
        A, base, evaluators, ops = build(scen)
        # initial symbolic state
        for pname, vals in base.items():
            st = new_vars(f'init_{pname}', torch.tensor(vals, dtype=torch.float64))
            try:
                A[pname].tensor = st
            except Exception as e:
                tr.violation(f'update-raises:{scen}:assign:{pname}',
                             f'{scen}: assigning parameter "{pname}" raised {type(e).__name__}: {e}',
                             {'scenario': scen, 'history': [], 'parameter': pname})
                return
        goals = []

        if onlys:
            # only ONE observer (or a short list) is evaluated between the updates: a flag cleared by another accessor is
            # then never reset, and a model the observer reads through rsample()/entropy()/... is never called
            evaluators = {o: evaluators[o] for o in onlys}

        def evaluate(D):
            out = {}
            for en, f in evaluators.items():
                out[en] = flat_ids(d, f(D))
            return out

        twin_hyps = []

        def fresh_copy():
            B, _, _, _ = build(scen)
            for pname in base:
                cur_t = A[pname].tensor
                B[pname].tensor = from_ids(cur_t._ids.clone()) if isinstance(cur_t, SymTensor) else cur_t.clone()
            return B

        effect_checks = []

        try:
            prev = evaluate(A)  # warm every cache
            for step, oname in enumerate(history):
                try:
                    apply_op(A, ops[oname], counter, dom)
                except Exception as e:
                    tr.violation(f'update-raises:{scen}:{oname}', f'{label}: operation "{oname}" raised {type(e).__name__}: {e}',
                                 {'scenario': scen, 'history': list(history)})
                    return
                B = fresh_copy()  # holds the state the update left (an evaluation may draw, i.e. change x / z_unc / w itself)
                got = evaluate(A)
                want = evaluate(B)
                if ops[oname][0] != 'op_reject':
                    cands = []
                    if onlys and scen in STOCHASTIC:
                        # single-observer guard: the value a FRESH copy returns after the update can differ from the value
                        # before it, for every observer that depends on a written parameter (independent of the caches of A)
                        deps, redrawn = [], False
                        for en in evaluators:
                            # an objective over `var` evaluated earlier in the round has re-drawn x: what was written is gone
                            if (DEPENDS[en] - ({'x'} if redrawn else set())) & WRITES[ops[oname][1]]:
                                deps.append(en)
                            redrawn = redrawn or DEPENDS[en] is _MAIN
                        for en in deps:
                            if len(prev[en]) != len(want[en]):
                                cands.append((0, d.FALSE))
                            for x, y in zip(prev[en], want[en]):
                                if x != y:
                                    cands.append((d.size([x, y]), d.eq(x, y)))
                        if deps:
                            effect_checks.append((step, oname, [c[1] for c in sorted(cands)] or [d.TRUE]))
                    else:
                        for en in evaluators:
                            for x, y in zip(prev[en], got[en]):
                                if x != y:
                                    cands.append((d.size([x, y]), d.eq(x, y)))
                        if scen in STOCHASTIC:
                            # x = loc + eps * scale makes (x - loc) / scale syntactically new but equal: try the next candidates
                            effect_checks.append((step, oname, [c[1] for c in sorted(cands)] or [d.TRUE]))
                        else:
                            effect_checks.append((step, oname, [min(cands)[1] if cands else d.TRUE]))
                prev = got
                for en in evaluators:
                    a, b = got[en], want[en]
                    if len(a) != len(b):
                        goals.append((f'after step {step + 1} ({oname}): {en} has the shape of a fresh rebuild', d.FALSE, [],
                                      f'stale:{scen}:{en}'))
                    else:
                        node = d.and_(*[d.eq(x, y) for x, y in zip(a, b)])
                        if node != d.TRUE:
                            node = strip_stops(d, node)
                            if node == d.TRUE and len(tr.notes) < 3:
                                tr.notes.append(f'{label}: after step {step + 1} the cached {en} equals the fresh value but was '
                                                'computed under no_grad / detach (it carries no autograd graph): a gradient-level '
                                                'difference, outside the value statement of C11')
                        goals.append((f'after step {step + 1} ({oname}): {en} == value of a freshly built copy', node, [],
                                      f'stale:{scen}:{en}'))
        except Exception as e:
            tr.inconc(f'{label}: harness raised {type(e).__name__}: {e}')
            return
        if t.concretized:
            tr.inconc(f'{label}: concretised {t.concretized[:2]}')
            return
        tr.witness_runs += 1
        tr.ops_checked += t.nchecked
        tr.regions += 1
        V = {d.args[i][0]: i for g in goals for i in d.topo([g[1]]) if d.ops[i] == 'var'}
        tr.sample({'case': label, 'goals': len(goals), 'nontrivial': sum(1 for g in goals if g[1] != d.TRUE)})

        def replay(vals):
            return replay_history(scen, history, vals, only)

        # vacuity guard (solver): every update must be able to change some observed value, otherwise the
        # comparison with the fresh copy could not see a stale cache
        from symtorch.explore import prove

        def guard(same):
            hyps = dom + list(t.pcs)
            if scen not in STOCHASTIC or same == d.TRUE:
                return prove(d, hyps, same, timeout=20, tr=tr, label='vacuity guard', parallel=True)[0]
            # The guard is an existence statement (sat expected) and the general query over logsumexp towers is undecided
            # within 20 s, so the solver is asked at the witness point first: (1) every variable replaced by its witness
            # value and every exp/log/... application by its (rounded) witness value - ground rational arithmetic;
            # (2) variables replaced only, exp/log uninterpreted; (3) the general query.
            roots = [same] + hyps
            nodes = d.topo(roots)
            pin_vars = {i: d.const(d.vals[i]) for i in nodes if d.ops[i] == 'var'}
            pin_ufs = {i: d.const(float(f'{d.vals[i]:.9g}')) for i in nodes if d.ops[i] == 'uf' and math.isfinite(d.vals[i])}
            for mapping in ({**pin_vars, **pin_ufs}, pin_vars, None):
                rs = d.substitute(roots, mapping) if mapping else roots
                st = prove(d, rs[1:], rs[0], timeout=20, tr=tr, label='vacuity guard', parallel=True)[0]
                if st == 'refuted':
                    break
            return st

        seen_draws = set()
        for step, oname, sames in ([] if (onlys and scen not in STOCHASTIC) else effect_checks):
            if ops[oname][0] == 'draw':
                # common random numbers: repeating a draw of the same shape re-assigns the same value
                if oname in seen_draws:
                    continue
                seen_draws.add(oname)
            st = 'proved'
            for same in sames[:32]:  # (x - loc) / scale of a re-drawn x: up to one equal candidate per element
                st = guard(same)
                if st == 'refuted':
                    break
            if st != 'refuted':
                tr.inconc(f'{label}: vacuity guard: operation "{oname}" has no observable effect on any evaluated value ({st})')

        cm.discharge(tr, d, dom + twin_hyps + list(t.pcs), goals, label, replay=replay, varnodes=V, defined=False, timeout=30,
                     threads=4, parallel=True)


# ------------------------------------------------------------------ replay (plain tensors, real HKY p_t)
def replay_history(scen, history, vals, only=None):
    if scen in STOCHASTIC:
        with sampler_stub(concrete_noise(vals)):
            return _replay_history(scen, history, vals, only)
    return _replay_history(scen, history, vals, only)


def _replay_history(scen, history, vals, only=None):
    from torchtree.core.utils import process_objects
    from torchtree.inference.mcmc import operator as opmod

    import torchtree.distributions.distributions  # noqa
    import torchtree.distributions.joint_distribution  # noqa
    import torchtree.distributions.gmrf  # noqa
    import torchtree.distributions.ctmc_scale  # noqa
    import torchtree.evolution.coalescent  # noqa
    import torchtree.evolution.substitution_model.codon  # noqa
    import torchtree.evolution.tree_likelihood  # noqa
    import torchtree.distributions.deterministic_normal  # noqa
    import torchtree.variational  # noqa

    spec, base, evaluators, ops = SCENARIOS[scen]()
    if as_tuple(only):
        evaluators = {o: evaluators[o] for o in as_tuple(only)}

    def mk():
        dic = {}
        for obj in spec:
            process_objects(obj, dic)
        for pname, v in base.items():
            dic[pname].tensor = torch.tensor(v, dtype=torch.float64)
        if 'dq' in dic:
            dic['dq'].eps = concrete_noise(vals)(tuple(dic['dq'].eps.shape), 'dn_eps')
        return dic

    A = mk()
    k = 0

    def vals_for(pname, shape, rng):
        nonlocal k
        n = 1
        for s in shape:
            n *= s
        names = cm.names_shaped(f'v{k}_{pname}', shape)
        lo, hi = rng
        out = [min(max(vals.get(nm, lo + (hi - lo) * 0.37), lo), hi) for nm in names]
        k += 1
        return torch.tensor(out, dtype=torch.float64).reshape(shape)

    def ev(D):
        return {en: f(D).detach().clone().to(torch.float64) for en, f in evaluators.items()}

    try:
        ev(A)
        for oname in history:
            kind, target, rng = ops[oname]
            obj = A[target]
            if kind == 'assign':
                obj.tensor = vals_for(target, tuple(obj.tensor.shape), rng)
            elif kind == 'inplace':
                obj.tensor[...] = vals_for(target, tuple(obj.tensor.shape), rng)
                obj.fire_parameter_changed()
            elif kind == 'rsample':
                v = vals_for(target, tuple(obj.x.tensor.shape), rng)
                saved = obj.dist.rsample
                try:
                    obj.dist.rsample = lambda self_, sample_shape=torch.Size(): v
                    obj.rsample()
                finally:
                    obj.dist.rsample = saved
            elif kind == 'draw':
                getattr(obj, rng[0])(torch.Size(rng[1]))
            else:
                oper = opmod.ScalerOperator('scaler', [obj], 1.0, 0.24, 0.5)
                k += 1
                sr, sri = torch.rand, torch.randint
                try:
                    torch.rand = lambda *a, **kk: torch.tensor([0.4])
                    torch.randint = lambda *a, **kk: torch.zeros(1, dtype=torch.int64)
                    oper.step()
                    oper.reject()
                finally:
                    torch.rand, torch.randint = sr, sri
            B = mk()
            for pname in base:
                B[pname].tensor = A[pname].tensor.detach().clone()
            got = ev(A)
            want = ev(B)
            for en in evaluators:
                if got[en].shape != want[en].shape or not torch.allclose(got[en], want[en], rtol=1e-9, atol=1e-12, equal_nan=True):
                    return True, f'after "{oname}": {en} = {got[en].tolist()} but a freshly built copy gives {want[en].tolist()}'
    except Exception as e:
        return True, f'raised {type(e).__name__}: {e}'
    return False, 'agree'


def tasks_for(tier):
    ts = []
    for scen in SCENARIOS:
        ops = list(SCENARIOS[scen]()[3])
        for o in ops:
            ts.append((scen, (o,)))
        pairs = list(itertools.product(ops, ops))
        if tier == 'quick':
            # every operation appears as first and as second element; pairs touching different holders
            sel = [pr for k, pr in enumerate(pairs) if (k * 7) % 5 == 0 or pr[0] == pr[1]]
            pairs = sel[:40] if scen == 'phylo' else sel[:20]
            if scen == 'timetree':
                pairs = list(itertools.product(ops, ops))[::2][:24]
            if scen == 'variational':
                pairs = sel[::3][:8]  # the weight of this scenario is on the observer-subset histories below
        for pr in pairs:
            ts.append((scen, pr))
        evs = list(SCENARIOS[scen]()[2])
        if scen == 'variational':
            # observer-subset histories over the WHOLE product observer x operation: the observer is evaluated, the
            # parameter is updated, the observer is evaluated again (twice).  Models the observer reads through
            # rsample()/sample()/entropy()/log_prob() are never called, i.e. hold an invalid cache all along.
            for e in evs:
                for k, o in enumerate(ops):
                    if tier == 'thorough':
                        for o2 in ops:
                            ts.append((scen, (o, o2), e))
                    else:
                        ts.append((scen, (o, ops[(k + 1) % len(ops)]), e))
            if tier == 'thorough':
                # two observers (every ordered pair): the second evaluation re-draws / validates what the first one left
                objectives = [e for e in evs if e.split('(')[0] in ('elbo', 'elbo_ent', 'elbo_ms', 'elbo_score', 'klpq', 'klpqi', 'vr',
                                                                   'cubo', 'elbo_q', 'elbo_dn', 'elbo_dn_ent')]
                for e1, e2 in itertools.permutations(evs, 2):
                    if e1 not in objectives and e2 not in objectives:
                        continue  # two accessors: neither draws nor caches
                    for o in ops:
                        ts.append((scen, (o,), (e1, e2)))
                triples = list(itertools.product(ops, ops, ops))
                for tpl in triples[::max(1, len(triples) // 120)]:
                    ts.append((scen, tpl))
                    ts.append((scen, tpl, evs[(len(ts) // 2) % 11]))
            continue
        # single-observer histories: the same update twice with only one model value read in between
        single = [e for e in evs if e.endswith('()')]
        # ordered observer pairs around an accessor of the tree: one accessor (node_heights) may clear the flag that
        # another reader (branch_lengths(), the likelihood, the coalescent) relies on - both orders, every operation
        accessors = [e for e in evs if e in ('tree.node_heights', 'tree.branch_lengths()')]
        if len(accessors) == 2:
            for o in ops:
                ts.append((scen, (o, o), (accessors[0], accessors[1])))
                ts.append((scen, (o, o), (accessors[1], accessors[0])))
                for e in (single if tier == 'thorough' else single[:3]):
                    if e not in accessors:
                        ts.append((scen, (o,), (accessors[0], e)))
                        if tier == 'thorough':
                            ts.append((scen, (o,), (e, accessors[0])))
        for o in ops:
            for e in (single if tier == 'thorough' else single[:4]):
                ts.append((scen, (o, o), e))
        if tier == 'thorough':
            triples = list(itertools.product(ops, ops, ops))
            step = max(1, len(triples) // 120)
            for tpl in triples[::step]:
                ts.append((scen, tpl))
    return ts


def body(chk):
    chk.explanation = ('enumerated update histories over a composite model graph; every assignment writes fresh symbols, so a '
                       'stale cache is an expression that still mentions old symbols; after each operation every model value is '
                       'compared with a freshly built copy holding the same symbols: identical hash-consed expressions close the '
                       'goal syntactically, any difference goes to the solver (sat => replay => violation); a solver vacuity '
                       'guard per step shows that the operation can change an observed value; observer-subset histories '
                       '(one observer, thorough: two) over the variational graph reach the states in which a model in the middle '
                       'of the notification chain holds an invalid cache (it is read through rsample()/sample()/entropy(), never '
                       'called) while the objective listening to it holds a valid one')
    chk.total.assumptions |= {'substitution_model.p_t is an uninterpreted function of (branch argument, kappa, frequencies)',
                              'the base Parameter objects hold the current state; a fresh copy is built from the same JSON and '
                              'given the same tensors through the public setter',
                              'optimiser steps are modelled as an in-place write into the held tensor followed by fire_parameter_changed()'}
    chk.total.stubs |= {'Distribution.rsample draw = fresh symbols', 'operator uniform draw = fresh symbol'}
    chk.total.assumptions |= {'variational scenario: the value a stochastic objective is compared with is the one a freshly built '
                              'copy computes from the same parameter values AND the same base noise (common random numbers); a '
                              'cached objective that is not re-drawn while no parameter changed is the CallableModel contract',
                              'variational scenario, vacuity guard: decided by the solver at the witness point (variables replaced '
                              'by their witness values, exp/log uninterpreted)'}
    pmap(run_task, tasks_for(chk.tier), chk.total)


if __name__ == '__main__':
    if '--replay' in sys.argv:
        import json

        r = json.load(open(sys.argv[sys.argv.index('--replay') + 1]))
        rp = r['replay']
        if 'scenario' in rp:
            scen_, hist_, only_ = rp['scenario'], tuple(rp['history']), None
        else:
            scen_, hist_, only_ = parse_label(rp['label'])
        ok, detail = replay_history(scen_, hist_, rp.get('values', {}), only_)
        print(('REPRODUCED ' if ok else 'NOT REPRODUCED ') + detail)
        sys.exit(1 if ok else 0)
    sys.exit(main_for(PID, body))
