"""C02 Likelihood is invariant to how the same tree and data are written down.

Relational (multi-run) symbolic execution: the real TreeLikelihoodModel is built from
equivalent JSON specifications and all are evaluated on the SAME symbolic
parameters (a branch length / node height is identified by the set of taxa below
it, resp. by its bipartition); the solver decides L1 == L2 for all values.
Rewrites: permutations of the taxa list and of the sequence list, child swaps,
column permutations, merging identical columns into weighted patterns, tip states
vs tip partials with ambiguous symbols as missing, and (JC69, closed form) moving
the root of an unrooted tree to any other branch.

Region widened in the M02 round:
 * alphabet of the written data: soft-masked (lower-case) symbols, RNA U/u, lower-case ambiguity codes, ? - N X and
   characters outside the alphabet, for the nucleotide, amino-acid and general data types; in addition to the rewrites
   above the same data are written in canonical spelling according to an INDEPENDENT symbol table (the IUPAC / amino-acid
   tables of chk/c01_k3_harness.py, resp. the data-type JSON itself for GeneralDataType) and must give the same value;
 * evaluation path: every rewrite is also decided with `rescale = True` on both sides and mixed (one side rescaled, the
   other plain); which entry is the per-node per-site maximum is a path condition, the divisions by the scalers are hoisted
   out of every log argument (log(N / D) -> log N - log D, sound for non-zero scalers) before the query;
 * sharing: one SitePattern / Alignment / tree / substitution / site model referenced by id from two likelihoods with
   different flags, built in both orders, against the same likelihood built alone from an inline specification;
 * keep_branch_lengths: every root shape x which root branch is the longer one, root trifurcations, n = 3, 4.
"""
from __future__ import annotations

import copy
import itertools
import math
import sys

import torch

import common as cm
from symtorch import cur, from_ids, tracing
from symtorch.axioms import ground_axioms
from vlib.core import main_for, pmap

PID = 'C02'
SEQS = {
    3: {'t0': 'ACRAG', 't1': 'CG-CT', 't2': 'GTNGA'},
    4: {'t0': 'ACRAG', 't1': 'CGYCT', 't2': 'GT-GA', 't3': 'TANTC'},
}

# ------------------------------------------------------------------ alphabets of the written data
# one string per alignment column, character i = taxon t{i} (n = 3 uses the first three rows)
GENERAL_DT = {'id': 'dt', 'type': 'GeneralDataType', 'codes': ['a', 'b', 'c', 'd'],
              'ambiguities': {'e': 'a', 'f': ['b'], 'x': ['a', 'b', 'c', 'd']}}
GENERAL_AMB_DT = {'id': 'dt', 'type': 'GeneralDataType', 'codes': ['a', 'b', 'c', 'd'],
                  'ambiguities': {'e': 'a', 'f': ['b'], 'x': ['a', 'b', 'c', 'd'], 'r': ['a', 'c']}}
ALPHA = {
    # upper case | soft-masked copy of column 0 | RNA | ambiguity codes in both cases + gap | N ? X | outside the alphabet |
    # exact repeat of column 0 (weight 2) | lower/upper mix
    'nucleotide': {'datatype': 'nucleotide', 'S': 4,
                   'columns': ['ACGT', 'acgt', 'uUTt', 'Ry-k', 'N?xn', '.A*9', 'ACGT', 'gTcA']},
    # upper | lower | B Z X (either case) | * ? - | letters that are no amino acid (J O U) | mix | outside | repeat
    'aminoacid': {'datatype': {'id': 'dt', 'type': 'AminoAcidDataType'}, 'S': 20,
                  'columns': ['ARND', 'arnd', 'BzXb', '*?-J', 'JoUu', 'wYvK', '.K1!', 'ARND']},
    # codes | aliases (string and one-element list) | all-state code, unknown symbols, upper case of a code | mix | repeat
    'general': {'datatype': GENERAL_DT, 'S': 4, 'columns': ['abcd', 'efcd', 'x?-A', 'bdac', 'abcd', 'Bfe.']},
    # the same plus a code that stands for two states
    'general+ambiguity': {'datatype': GENERAL_AMB_DT, 'S': 4, 'columns': ['abcd', 'efcd', 'x?-A', 'bdac', 'abcd', 'Bfe.', 'rcra']},
}


def sym_set(alpha, c):
    """the states a written symbol stands for, from tables that are independent of torchtree's"""
    if alpha == 'nucleotide':
        from chk import c01_k3_harness as K3

        return tuple(K3.nuc_set(ord(c)))
    if alpha == 'aminoacid':
        from chk import c01_k3_harness as K3

        return tuple(K3.aa_set(ord(c)))
    dt = ALPHA[alpha]['datatype']
    codes = dt['codes']
    if c in codes:
        return (c,)
    amb = dt['ambiguities'].get(c)
    if amb is None:
        return tuple(codes)
    return (amb,) if isinstance(amb, str) else tuple(x for x in codes if x in amb)


def canonical(alpha, c, how):
    """canonical spelling of a symbol: the state letter itself; a symbol standing for several states becomes the gap
    (how = 'missing') or the upper-case code of the reference table for exactly that set (how = 'code')"""
    s = sym_set(alpha, c)
    if len(s) == 1:
        return s[0]
    if how == 'missing' or len(s) == ALPHA[alpha]['S']:
        return '-'
    if alpha == 'nucleotide':
        from chk import c01_k3_harness as K3

        return next(k for k, v in K3.IUPAC if tuple(v) == s)
    if alpha == 'aminoacid':
        from chk import c01_k3_harness as K3

        return next(chr(k) for k, v in K3.AA_AMBIG_ORD if tuple(v) == s)
    return next(k for k, v in ALPHA[alpha]['datatype']['ambiguities'].items() if isinstance(v, list) and tuple(v) == s)


def alpha_seqs(alpha, n, canon=None):
    cols = ALPHA[alpha]['columns']
    out = {}
    for i in range(n):
        s = ''.join(c[i] for c in cols)
        if canon:
            s = ''.join(canonical(alpha, ch, canon) for ch in s)
        out[f't{i}'] = s
    return out


def register():
    import torchtree.evolution.tree_likelihood  # noqa
    import torchtree.evolution.datatype  # noqa
    import torchtree.evolution.substitution_model.general  # noqa


# ------------------------------------------------------------------ specification builder
def newick(t):
    def rec(x):
        if isinstance(x, tuple):
            return '(' + ','.join(rec(c) for c in x) + ')'
        return f't{x}'

    return rec(t) + ';'


def spec(n, topology, kind, taxa_order=None, seq_order=None, columns=None, tip_states=False, use_amb=True, subst='stub',
         alpha=None, canon=None):
    taxa_order = list(taxa_order) if taxa_order is not None else list(range(n))
    seq_order = list(seq_order) if seq_order is not None else list(range(n))
    seqs = alpha_seqs(alpha, n, canon) if alpha else SEQS[n]
    S = ALPHA[alpha]['S'] if alpha else 4
    datatype = copy.deepcopy(ALPHA[alpha]['datatype']) if alpha else 'nucleotide'
    ncol = len(seqs['t0'])
    columns = list(columns) if columns is not None else list(range(ncol))
    taxa = {'id': 'taxa', 'type': 'Taxa',
            'taxa': [{'id': f't{i}', 'type': 'Taxon', 'attributes': {'date': 0.0}} for i in taxa_order]}
    if kind == 'unrooted':
        tree = {'id': 'tree', 'type': 'UnRootedTreeModel', 'newick': newick(topology), 'taxa': taxa,
                'branch_lengths': {'id': 'blens', 'type': 'Parameter', 'tensor': [0.1] * (2 * n - 3)}}
    else:
        tree = {'id': 'tree', 'type': 'TimeTreeModel', 'newick': newick(topology), 'taxa': taxa,
                'internal_heights': {'id': 'heights', 'type': 'Parameter', 'tensor': [1.0 + i for i in range(n - 1)]}}
    if S != 4:
        # carrier for a model with S states: p_t is replaced by the uninterpreted row-stochastic matrix function and the
        # frequencies by symbols (evaluate); the replay uses the real GeneralJC69.p_t
        sm = {'id': 'subst', 'type': 'GeneralJC69', 'state_count': S}
    else:
        sm = {'id': 'subst', 'type': 'JC69'} if subst == 'JC69' else \
            {'id': 'subst', 'type': 'HKY', 'kappa': {'id': 'kappa', 'type': 'Parameter', 'tensor': [3.0]},
             'frequencies': {'id': 'freqs', 'type': 'Parameter', 'tensor': [0.1, 0.2, 0.3, 0.4]}}
    site = {'id': 'site', 'type': 'ConstantSiteModel'} if S != 4 else \
        {'id': 'site', 'type': 'WeibullSiteModel', 'categories': 2, 'shape': {'id': 'shape', 'type': 'Parameter', 'tensor': [0.7]}}
    like = {'id': 'like', 'type': 'TreeLikelihoodModel', 'tree_model': tree,
            'site_model': site,
            'substitution_model': sm,
            'site_pattern': {'id': 'sp', 'type': 'SitePattern', 'alignment': {
                'id': 'aln', 'type': 'Alignment', 'datatype': datatype, 'taxa': 'taxa',
                'sequences': [{'taxon': f't{i}', 'sequence': ''.join(seqs[f't{i}'][c] for c in columns)} for i in seq_order]}},
            'use_tip_states': tip_states, 'use_ambiguities': use_amb}
    if kind == 'time':
        like['branch_model'] = {'id': 'clock', 'type': 'StrictClockModel', 'tree_model': 'tree',
                                'rate': {'id': 'rate', 'type': 'Parameter', 'tensor': [0.05]}}
    return like


def node_leafsets(tree_model):
    out = {}
    for node in tree_model.tree.postorder_node_iter():
        out[node.index] = frozenset(str(l.taxon.label) for l in node.leaf_iter())
    return out


class Symbols:
    """one symbol per branch (bipartition) / internal node (clade), shared by all runs; `wit` selects another witness point
    (other per-node maxima on the rescaled paths)"""

    def __init__(self, n, wit=0):
        self.n = n
        self.wit = wit
        self.all = frozenset(f't{i}' for i in range(n))
        self.cache = {}

    def get(self, prefix, key, val):
        nm = prefix + '{' + ','.join(sorted(key)) + '}'
        if nm not in self.cache:
            self.cache[nm] = cur().dag.var(nm, val)
        return self.cache[nm]

    def bip(self, leafset):
        a = frozenset(leafset)
        b = self.all - a
        key = a if 't0' not in a else b
        base = 0.05 + 0.03 * (sum(int(x[1:]) + 1 for x in key) % 7) + 0.01 * len(key)
        return self.get('b', key, base if not self.wit else 0.9 - 2.5 * base + 0.11 * self.wit)

    def height(self, leafset):
        base = 0.5 + 0.7 * len(leafset) + 0.05 * (sum(int(x[1:]) for x in leafset) % 5)
        return self.get('h', leafset, base if not self.wit else 1.7 * base + 0.3 * self.wit)


def pname(S, i, j):
    return f'P{i}{j}' if S <= 4 else f'P{i}_{j}'


def p_witness(S=4):
    def raw(i, j, t):
        x = math.sin(12.9898 * (t + 0.37) * (i * S + j + 1)) * 43758.5453
        return 0.05 + 0.9 * (x - math.floor(x))

    def mk(i, j):
        return lambda t: raw(i, j, t) / sum(raw(i, jj, t) for jj in range(S))

    return {pname(S, i, j): mk(i, j) for i in range(S) for j in range(S)}


def make_stub_p_t(S):
    def stub(branch_lengths):
        d = cur().dag
        ids = branch_lengths._ids
        out = []
        for b in ids.reshape(-1).tolist():
            out.append([[d.uf(pname(S, i, j), b) for j in range(S)] for i in range(S)])
        return from_ids(torch.tensor(out, dtype=torch.int64).reshape(tuple(ids.shape) + (S, S)))

    return stub


stub_p_t = make_stub_p_t(4)


def shared_symbols(d, S=4, wit=0):
    fr = [0.1, 0.2, 0.3, 0.4] if S == 4 else [(1.0 + 0.1 * ((7 * i) % 11)) / (S + 0.1 * sum((7 * k) % 11 for k in range(S))) for i in range(S)]
    return {'shape': d.var('shape', 0.7 if not wit else 1.6), 'rate': d.var('rate', 0.05 if not wit else 0.21),
            'freqs': [d.var(f'pi{i}', v) for i, v in enumerate(fr)]}


def build_doc(doc):
    """dict = one object, list = a document of top-level objects (references by id between them)"""
    from torchtree.core.utils import process_objects

    if isinstance(doc, list):
        dic = {}
        process_objects(copy.deepcopy(doc), dic)
        return dic
    like, dic = cm.build(copy.deepcopy(doc))
    return dic


def install_symbols(dic, sym, kind, subst, shared, S=4):
    """install the shared symbols by branch / clade identity into the parameters of one built document"""
    n = sym.n
    tree = dic['tree']
    ls = node_leafsets(tree)
    if kind == 'unrooted':
        ids = []
        for idx in range(2 * n - 3):
            ids.append(sym.bip(ls[idx]))
        dic['blens'].tensor = from_ids(torch.tensor(ids, dtype=torch.int64))
        # the branch whose index is 2n-3 is the zero-length second root branch: it must be the same bipartition as
        # its sibling's (otherwise a symbol would be lost)
    else:
        ids = [sym.height(ls[n + i]) for i in range(n - 1)]
        dic['heights'].tensor = from_ids(torch.tensor(ids, dtype=torch.int64))
        dic['rate'].tensor = from_ids(torch.tensor([shared['rate']], dtype=torch.int64))
    if 'shape' in dic:
        dic['shape'].tensor = from_ids(torch.tensor([shared['shape']], dtype=torch.int64))
    if subst == 'stub':
        if 'freqs' in dic:
            dic['freqs'].tensor = from_ids(torch.tensor(shared['freqs'], dtype=torch.int64))
        else:
            dic['subst']._frequencies = from_ids(torch.tensor(shared['freqs'], dtype=torch.int64))
        dic['subst'].p_t = make_stub_p_t(S)


def evaluate(sp, sym, kind, subst, shared, rescale=False, S=4):
    """build from JSON, install the shared symbols by branch/clade identity, evaluate"""
    dic = build_doc(sp)
    install_symbols(dic, sym, kind, subst, shared, S)
    like = dic['like']
    if rescale:
        like.rescale = True  # before the first evaluation: the value of a CallableModel is cached
    return like()


def trace_units(units, sym, kind, subst, shared, S=4):
    """unit = {'doc': json, 'eval': [(like id, 'plain' | 'rescaled'), ...]}: one build per unit, the likelihoods of a
    unit are evaluated in the listed order; returns the node ids of all values"""
    out = []
    for u in units:
        dic = build_doc(u['doc'])
        install_symbols(dic, sym, kind, subst, shared, S)
        for lid, mode in u['eval']:
            if mode == 'rescaled':
                dic[lid].rescale = True
        for lid, mode in u['eval']:
            out.append(int(dic[lid]()._ids.reshape(-1)[0]))
    return out


def variants(n, topology, tier):
    """(label, kwargs for spec of run 2, kinds it applies to)"""
    out = []
    perms = list(itertools.permutations(range(n)))
    if tier == 'quick' and n == 4:
        perms = perms[::5]
    for p in perms[1:]:
        out.append((f'taxa list reordered {p}', {'taxa_order': p}, ('time', 'unrooted')))
        out.append((f'sequence list reordered {p}', {'seq_order': p}, ('time',)))
    out.append(('taxa and sequence lists reversed', {'taxa_order': list(range(n))[::-1], 'seq_order': list(range(n))[::-1]},
                ('time', 'unrooted')))
    ncol = len(SEQS[n]['t0'])
    for cp in ([4, 2, 0, 3, 1], [1, 0, 2, 3, 4], [3, 4, 0, 1, 2]):
        out.append((f'alignment columns reordered {cp}', {'columns': cp}, ('time', 'unrooted')))
    out.append(('tip states instead of tip partials (ambiguities as missing)', {'tip_states': True, '_base': {'use_amb': False}},
                ('time', 'unrooted')))
    # child swaps: at every internal node separately and everywhere
    for path in swaps(topology):
        out.append((f'children swapped at node {path or "root"}', {'_topology': swap_at(topology, path)},
                    ('time',) if not path else ('time', 'unrooted')))
    out.append(('children swapped at every node', {'_topology': cm.mirror(topology)}, ('time',)))
    return out


def swaps(t):
    res = []

    def rec(x, path):
        if isinstance(x, tuple):
            res.append(path)
            rec(x[0], path + (0,))
            rec(x[1], path + (1,))

    rec(t, ())
    return res


def swap_at(t, path):
    if not path:
        return (t[1], t[0])
    l = list(t)
    l[path[0]] = swap_at(t[path[0]], path[1:])
    return tuple(l)


# ------------------------------------------------------------------ rescaled paths: hoisting the scalers out of the logs
def hoist(d, node, memo):
    """node == core * prod(atom ** e) wherever every divisor is non-zero; core and the atoms are division-free nodes (the
    atoms are the division-free forms of the divisors, i.e. of the per-node per-site scalers).  The rebuilt core follows the
    shape of the original expression, so the core of a rescaled partial is the expression the plain kernel builds."""
    if node in memo:
        return memo[node]
    op = d.ops[node]
    a = d.args[node]

    def comb(Fa, Fb, s=1):
        out = dict(Fa)
        for k, v in Fb.items():
            out[k] = out.get(k, 0) + s * v
        return {k: v for k, v in out.items() if v}

    if op == 'div':
        na, Fa = hoist(d, a[0], memo)
        nb, Fb = hoist(d, a[1], memo)
        F = comb(Fa, Fb, -1)
        if nb == na:
            na = 1
        elif d.ops[nb] == 'const':
            na = d.mul(na, d.const(1 / d.cval(nb)))
        else:
            F = comb(F, {nb: 1}, -1)
        r = (na, F)
    elif op == 'mul':
        na, Fa = hoist(d, a[0], memo)
        nb, Fb = hoist(d, a[1], memo)
        r = (d.mul(na, nb), comb(Fa, Fb))
    elif op == 'add':
        na, Fa = hoist(d, a[0], memo)
        nb, Fb = hoist(d, a[1], memo)
        if Fa == Fb:
            r = (d.add(na, nb), Fa)
        else:
            # common factor = element-wise minimum of the exponents; the rest is multiplied back into the cores
            G = {k: min(Fa.get(k, 0), Fb.get(k, 0)) for k in set(Fa) | set(Fb)}
            for k in sorted(G):
                ea, eb = Fa.get(k, 0) - G[k], Fb.get(k, 0) - G[k]
                if ea:
                    na = d.mul(na, d.ipow(k, ea))
                if eb:
                    nb = d.mul(nb, d.ipow(k, eb))
            r = (d.add(na, nb), {k: v for k, v in G.items() if v})
    elif op == 'ipow':
        na, Fa = hoist(d, a[0], memo)
        r = (d.ipow(na, a[1]), {k: v * a[1] for k, v in Fa.items()})
    else:
        r = (node, {})
    memo[node] = r
    return r


def log_normal_form(d, v, memo):
    """v = sum_i c_i log(x_i): every x_i = core_i * prod atoms ** e is replaced by log core_i + sum e log atom (sound for
    positive cores / atoms).  Returns (node, number of scaler atoms met)."""
    from symtorch.axioms import _addends

    out = 0
    natoms = 0
    for c, x in reversed(_addends(d, v)):
        if x is None:
            out = d.add(out, d.const(c))
            continue
        if d.ops[x] == 'uf' and d.args[x][0] == 'log':
            core, F = hoist(d, d.args[x][1], memo)
            term = d.log(core)
            natoms += len(F)
            for y, k in sorted(F.items()):
                term = d.add(term, d.mul(d.const(k), d.log(y)))
            out = d.add(out, d.mul(d.const(c), term))
        else:
            out = d.add(out, d.mul(d.const(c), x))
    return out, natoms


# ------------------------------------------------------------------ the relational obligation
def run_group(tr, label, n, kind, subst, units, relations, sig='', S=4, wit=0, must_differ=()):
    """units: see trace_units.  relations: list of (goal label, [(coef, value index), ...], signature): sum coef * L == 0."""
    from torchtree.evolution import tree_likelihood as tl
    from torchtree.evolution.tree_model import setup_indexes
    from torchtree.evolution.site_pattern import SitePattern, compress, compress_alignment, compress_alignment_states
    from torchtree.evolution.alignment import Alignment

    register()
    TreeLikelihoodModel = tl.TreeLikelihoodModel
    tr.fn(TreeLikelihoodModel._call, TreeLikelihoodModel.from_json, setup_indexes, compress, Alignment.__init__)
    modes = [m for u in units for _, m in u['eval']]
    rescaled = any(m == 'rescaled' for m in modes)
    if rescaled:
        tr.fn(tl.calculate_treelikelihood_discrete_rescaled, tl.calculate_treelikelihood_tip_states_discrete_rescaled,
              TreeLikelihoodModel.calculate_with_tip_partials, TreeLikelihoodModel.calculate_with_tip_states)
    tr.fn(compress_alignment, compress_alignment_states, SitePattern.compute_tips_partials, SitePattern.compute_tips_states)
    with tracing() as t:
        d = t.dag
        d.uf_eval.update(p_witness(S))
        sym = Symbols(n, wit)
        shared = shared_symbols(d, S, wit)
        try:
            vs = trace_units(units, sym, kind, subst, shared, S)
        except Exception as e:
            from symtorch.expr import EngineError

            if isinstance(e, EngineError) or type(e).__name__ == 'UnsupportedOp':
                tr.inconc(f'{label}: engine: {type(e).__name__}: {e}')
                return
            ok, detail = replay_units(n, kind, subst, units, relations, {}, S)
            if ok:
                tr.violation(f'{sig}:raises', f'{label}: raised {type(e).__name__}: {e}', {'label': label})
            else:
                tr.inconc(f'{label}: raised {type(e).__name__}: {e} under the engine but not on plain tensors ({detail})')
            return
        tr.witness_runs += len(vs)
        tr.ops_checked += t.nchecked
        tr.regions += 1
        if t.concretized:
            tr.inconc(f'{label}: concretised {t.concretized[:2]}')
            return
        V = {d.args[i][0]: i for i in d.topo(vs) if d.ops[i] == 'var'}
        dom = [d.lt(0, i) for nm, i in V.items()]
        hyps = []
        rewrite = {}
        if subst == 'stub':
            pargs = sorted({d.args[i][1] for i in d.topo(vs) if d.ops[i] == 'uf' and d.args[i][0].startswith('P')})
            for x in pargs:
                for i in range(S):
                    rs = 0
                    for j in range(S):
                        rs = d.add(rs, d.uf(pname(S, i, j), x))
                    hyps.append(d.eq(rs, 1))
                    rewrite[rs] = 1
            # ground rewriting with the row-sum hypotheses (sum_j P_ij(x) -> 1): sound by congruence, and it removes the
            # nested sums an all-missing column produces in the tip-partial run
            if rewrite:
                vs = d.substitute(vs, rewrite)
        for i, j in must_differ:
            if vs[i] == vs[j] or abs(d.vals[vs[i]] - d.vals[vs[j]]) <= 1e-9:
                tr.inconc(f'{label}: vacuity guard: the data do not distinguish the two flag settings (values {d.vals[vs[i]]}, {d.vals[vs[j]]})')
                return
        pcs = list(t.pcs)
        natoms = 0
        if rescaled:
            # which entry is the per-node per-site maximum was decided on the witness (path conditions); the identity is
            # proved for the scalers of this region without using the conditions (it holds for any non-zero scaler)
            memo = {}
            nvs = []
            for v in vs:
                nv, k_ = log_normal_form(d, v, memo)
                natoms += k_
                if not abs(d.vals[nv] - d.vals[v]) <= 1e-9 * max(1.0, abs(d.vals[v])):
                    tr.inconc(f'{label}: harness: hoisting the scalers changed the witness value ({d.vals[v]} -> {d.vals[nv]})')
                    return
                nvs.append(nv)
            if natoms == 0:
                tr.inconc(f'{label}: vacuity guard: no scaler in the rescaled evaluation')
                return
            vs = nvs
            pcs = []
        goals = []
        first = None
        for glabel, terms, gsig in relations:
            lhs = rhs = 0
            for c, k in terms:
                if c > 0:
                    lhs = d.add(lhs, d.mul(d.const(c), vs[k]))
                else:
                    rhs = d.add(rhs, d.mul(d.const(-c), vs[k]))
            a, b = lhs, rhs
            goal = d.eq(a, b)
            if first is None:
                first = (a, b)
            ghyps = []
            if subst != 'stub':
                ghyps = ground_axioms(d, [goal], rounds=3)
            lemmas = []
            holds_at_witness = abs(d.vals[a] - d.vals[b]) <= 1e-7 * max(1.0, abs(d.vals[a]))
            if a != b and holds_at_witness:
                # lemma chaining: match the site-pattern likelihoods (arguments of the logs) of the two sides on the witness
                # and prove them equal one by one; the sum of logs then follows by congruence.  A lemma is a proof aid, not an
                # obligation: the pairing is guessed from the witness values (several log arguments can coincide there, e.g. an
                # all-missing pattern and a scaler that are both 1), so a lemma that is not proved is simply not used
                import C01
                from symtorch.explore import prove

                s1, s2 = C01.split_sites(d, a, None), C01.split_sites(d, b, None)
                if s1 and s2:
                    seen = set()
                    right = {x2 for _, x2 in s2}
                    for k_, (c1, x1) in enumerate(s1):
                        if x1 in right or x1 in seen:
                            continue
                        seen.add(x1)
                        cands = [(c2 != c1, x2) for (c2, x2) in s2 if abs(d.vals[x2] - d.vals[x1]) <= 1e-9 * max(1.0, abs(d.vals[x1]))]
                        for _, x2 in sorted(set(cands))[:3]:
                            lem = d.eq(x1, x2)
                            st, _r, _text = prove(d, dom + hyps + pcs + list(ghyps), lem, timeout=30, tr=tr, parallel=True,
                                                  label=f'{glabel}: pattern {k_}: site likelihoods of the two specifications are equal')
                            if st == 'proved':
                                lemmas.append(lem)
                                break
            goals.append((glabel, goal, lemmas + ghyps, gsig))
        tr.sample({'case': label, 'identical_expressions': first[0] == first[1], 'nodes': d.size(list(first)),
                   'path_conditions': len(t.pcs), 'scaler_atoms': natoms})

        def replay(vals):
            return replay_units(n, kind, subst, units, relations, vals, S)

        # a goal that is already false at the witness point is only asked with a short budget: the witness is replayed on the
        # real code whatever the solver says (sat, or undecided = "witness separates")
        false_at_witness = any(not abs(d.vals[d.args[g[1]][0]] - d.vals[d.args[g[1]][1]]) <= 1e-7 * max(1.0, abs(d.vals[d.args[g[1]][0]]))
                               for g in goals if g[1] != d.TRUE and d.ops[g[1]] == 'eq')
        cm.discharge(tr, d, dom + hyps + pcs, goals, label, replay=replay, varnodes=V, defined=False,
                     timeout=12 if false_at_witness else 90, parallel=True)
        # vacuity guard: the likelihood depends on the shared symbols
        some = next((i for nm, i in sorted(V.items()) if nm.startswith(('b{', 'h{'))), None)
        if some is not None and first[0] == first[1]:
            g = d.grad(first[0], [some], honour_stops=False)[0]
            if g == 0:
                tr.inconc(f'{label}: vacuity guard: the likelihood does not depend on {d.to_str(some)}')


def run_pair(tr, label, n, kind, subst, sp1, sp2, extra_hyps_fn=None, sig='', modes=('plain', 'plain'), S=4, wit=0):
    units = [{'doc': sp1, 'eval': [('like', modes[0])]}, {'doc': sp2, 'eval': [('like', modes[1])]}]
    run_group(tr, label, n, kind, subst, units,
              [('log-likelihoods of the two specifications are equal', [(1, 0), (-1, 1)], sig)], sig=sig, S=S, wit=wit)


def concrete_units(n, kind, subst, units, vals, S=4):
    """plain tensors; the real HKY / GeneralJC69 p_t stands for the uninterpreted P"""
    allt = frozenset(f't{i}' for i in range(n))
    out = []
    for u in units:
        dic = build_doc(u['doc'])
        ls = node_leafsets(dic['tree'])

        def val(prefix, key, default):
            nm = prefix + '{' + ','.join(sorted(key)) + '}'
            return abs(vals.get(nm, default)) + 1e-3

        if kind == 'unrooted':
            bl = []
            for idx in range(2 * n - 3):
                a = ls[idx]
                key = a if 't0' not in a else allt - a
                bl.append(val('b', key, 0.05 + 0.02 * len(key)))
            dic['blens'].tensor = torch.tensor(bl, dtype=torch.float64)
        else:
            # heights consistent with the clade structure: bigger clade is older
            hs = [0.5 * len(ls[n + i]) + 0.01 * (sum(int(x[1:]) for x in ls[n + i]) % 5) for i in range(n - 1)]
            dic['heights'].tensor = torch.tensor(hs, dtype=torch.float64)
            dic['rate'].tensor = torch.tensor([abs(vals.get('rate', 0.05)) + 1e-3], dtype=torch.float64)
        if 'shape' in dic:
            dic['shape'].tensor = torch.tensor([abs(vals.get('shape', 0.7)) + 0.05], dtype=torch.float64)
        if subst == 'stub':
            fr = torch.tensor([abs(vals.get(f'pi{i}', 0.1 + 0.1 * (i % 4))) + 0.01 for i in range(S)], dtype=torch.float64)
            if 'freqs' in dic:
                dic['freqs'].tensor = fr / fr.sum()
                dic['kappa'].tensor = dic['kappa'].tensor.to(torch.float64)
            else:
                dic['subst']._frequencies = fr / fr.sum()
        for lid, mode in u['eval']:
            if mode == 'rescaled':
                dic[lid].rescale = True
        for lid, mode in u['eval']:
            out.append(float(dic[lid]()))
    return out


def replay_units(n, kind, subst, units, relations, vals, S=4):
    try:
        L = concrete_units(n, kind, subst, units, vals, S)
    except Exception as e:
        return True, f'raised {type(e).__name__}: {e}'
    for glabel, terms, gsig in relations:
        r = sum(c * L[k] for c, k in terms)
        if not abs(r) <= 1e-9 * max(1.0, max(abs(L[k]) for _, k in terms)):
            if len(terms) == 2:
                return True, f'log-likelihood {L[terms[0][1]]} for the first specification, {L[terms[1][1]]} for the equivalent one'
            return True, f'{glabel}: ' + ' '.join(f'{c:+d}*({L[k]})' for c, k in terms) + f' = {r}, expected 0'
    return False, f'agree ({L[0]})'


def replay_pair(n, kind, subst, sp1, sp2, vals, modes=('plain', 'plain'), S=4):
    units = [{'doc': sp1, 'eval': [('like', modes[0])]}, {'doc': sp2, 'eval': [('like', modes[1])]}]
    return replay_units(n, kind, subst, units, [('', [(1, 0), (-1, 1)], '')], vals, S)


MODE_TAG = {('plain', 'plain'): '', ('rescaled', 'rescaled'): ' [both rescaled]', ('rescaled', 'plain'): ' [first rescaled, second plain]',
            ('plain', 'rescaled'): ' [first plain, second rescaled]'}


def sig_of(vlabel):
    return vlabel.split(" (")[0].rstrip("0123456789,()[] ")


def run_task(task, tr):
    register()
    kind_of_task = task[0]
    if kind_of_task == 'rewrite':
        _, n, topology, kind, vlabel, kw = task[:6]
        opts = task[6] if len(task) > 6 else {}
        modes = tuple(opts.get('modes', ('plain', 'plain')))
        alpha = opts.get('alpha')
        kw = dict(kw)
        base_kw = dict(kw.pop('_base', {}))
        topo2 = kw.pop('_topology', topology)
        if alpha:
            base_kw['alpha'] = alpha
        sp1 = spec(n, topology, kind, **base_kw)
        sp2 = spec(n, topo2, kind, **{**base_kw, **kw})
        S = ALPHA[alpha]['S'] if alpha else 4
        if alpha:
            from torchtree.evolution import datatype as dt

            cls = {'nucleotide': dt.NucleotideDataType, 'aminoacid': dt.AminoAcidDataType}.get(alpha, dt.GeneralDataType)
            tr.fn(cls.encoding, cls.partial)
        label = f'{kind} tree {newick(topology)} : {vlabel}' + (f' [{alpha} alphabet with rare symbols]' if alpha else '') + MODE_TAG[modes]
        sig = f'alphabet:{alpha}:{sig_of(vlabel)}' if alpha else f'rewrite:{kind}:{sig_of(vlabel)}'
        if modes != ('plain', 'plain'):
            sig += ':' + '/'.join(modes)
        run_pair(tr, label, n, kind, 'stub', sp1, sp2, sig=sig, modes=modes, S=S, wit=opts.get('wit', 0))
    elif kind_of_task == 'merge':
        _, n, topology, kind = task[:4]
        merge_task(tr, n, topology, kind, task[4] if len(task) > 4 else {})
    elif kind_of_task == 'share':
        share_task(tr, *task[1:])
    elif kind_of_task == 'kbl':
        _, n, topology, topo2, what = task[:5]
        kbl_task(tr, n, topology, topo2, what, *(task[5:]))
    else:
        _, n, topology, topo2, what = task
        sp1 = spec(n, topology, 'unrooted', subst='JC69')
        sp2 = spec(n, topo2, 'unrooted', subst='JC69')
        label = f'JC69 unrooted {newick(topology)} -> {newick(topo2)} ({what})'
        run_pair(tr, label, n, 'unrooted', 'JC69', sp1, sp2, sig=f'reroot:JC69:{what}')


# ------------------------------------------------------------------ keep_branch_lengths
def kbl_task(tr, n, topology, topo2, what, split=(0.4, 0.6), shape=''):
    """keep_branch_lengths: branch lengths are read from the Newick string; the same unrooted tree written with a different
    root position / child order / root shape (two root branches splitting the root branch `split`, or a trifurcation at the
    root) must give the same JC69 likelihood.  The reference is always written with the root branch split 40:60."""
    from symtorch.axioms import const_exp_axioms
    from torchtree.evolution.tree_model import UnRootedTreeModel, parse_tree

    tr.fn(UnRootedTreeModel.from_json, parse_tree)
    allt = frozenset(f't{i}' for i in range(n))

    def blen(leafset):
        a = frozenset(leafset)
        key = a if 't0' not in a else allt - a
        return (7 + 4 * sum(int(x[1:]) + 1 for x in key) + 3 * len(key)) / 100.0

    def leafset(t):
        return frozenset(f't{x}' for x in cm.leaves(t))

    def nw(t, root=True, split=(0.4, 0.6)):
        if not isinstance(t, tuple):
            return f't{t}'
        parts = []
        for k, c in enumerate(t):
            L = blen(leafset(c))
            if root and len(t) == 2:
                L = round(L * split[k], 6)
            parts.append(f'{nw(c, False)}:{L}')
        return '(' + ','.join(parts) + ')'

    def mk(t, split=(0.4, 0.6)):
        sp = spec(n, t if len(t) == 2 else topology, 'unrooted', subst='JC69')
        sp['tree_model']['newick'] = nw(t, split=split) + ';'
        sp['tree_model']['keep_branch_lengths'] = True
        sp['site_model'] = {'id': 'site', 'type': 'ConstantSiteModel'}
        return sp

    label = f'keep_branch_lengths JC69 {nw(topology)} -> {nw(topo2, split=split)} ({what})'
    with tracing() as t:
        d = t.dag
        try:
            l1, _ = cm.build(mk(topology))
            l2, _ = cm.build(mk(topo2, split))
            # the engine reads the constant branch lengths as exact rationals: wrap them as constant SymTensors
            for l in (l1, l2):
                bl = l.tree_model._branch_lengths
                bl.tensor = from_ids(torch.tensor([d.const(round(float(v), 6)) for v in bl.tensor.tolist()], dtype=torch.int64))
            v1, v2 = l1(), l2()
        except Exception as e:
            tr.violation('keep_branch_lengths:raises' + (f':{shape}' if shape else ''), f'{label}: raised {type(e).__name__}: {e}',
                         {'label': label})
            return
        tr.witness_runs += 2
        tr.regions += 1
        a, b = int(v1._ids.reshape(-1)[0]), int(v2._ids.reshape(-1)[0])
        goal = d.eq(a, b)
        hyps = const_exp_axioms(d, [goal])

        def replay(vals):
            import torchtree.evolution.tree_likelihood  # noqa

            m1, _ = cm.build(mk(topology))
            m2, _ = cm.build(mk(topo2, split))
            for m in (m1, m2):
                m.tree_model._branch_lengths.tensor = m.tree_model._branch_lengths.tensor.to(torch.float64)
            x, y = float(m1()), float(m2())
            if abs(x - y) > 1e-9 * max(1.0, abs(x)):
                return True, f'log-likelihood {x} vs {y} for the same unrooted tree with branch lengths kept from the Newick strings'
            return False, 'agree'

        tr.sample({'case': label})
        sig = f'keep_branch_lengths:{what.split(" ")[0]}' + (f':{shape}' if shape else '')
        # (a goal that is false at the witness is asked with a short budget: the replay decides anyway)
        false_at_witness = not abs(d.vals[a] - d.vals[b]) <= 1e-7 * max(1.0, abs(d.vals[a]))
        cm.discharge(tr, d, hyps, [('same unrooted tree with lengths kept from the Newick string: log-likelihoods are equal', goal, [],
                                    sig)], label, replay=replay, varnodes={}, defined=False,
                     timeout=12 if false_at_witness else 60, parallel=True)


# ------------------------------------------------------------------ merging identical columns
def merge_task(tr, n, topology, kind, opts=None):
    """L(columns c0..c4 where c3 repeats c0) == L(columns without the repeat) + L(the repeated column alone)"""
    from torchtree.evolution.site_pattern import compress

    opts = opts or {}
    tr.fn(compress)
    modes = tuple(opts.get('modes', ('plain', 'plain', 'plain')))
    alpha = opts.get('alpha')
    kw = {'tip_states': bool(opts.get('tip_states', False)), 'use_amb': bool(opts.get('use_amb', True))}
    if alpha:
        kw['alpha'] = alpha
        ncol = len(ALPHA[alpha]['columns'])
        rep = max(i for i in range(ncol) if ALPHA[alpha]['columns'][i] in ALPHA[alpha]['columns'][:i])
    else:
        ncol, rep = 5, 3
    S = ALPHA[alpha]['S'] if alpha else 4
    if not opts:
        # the original three-model identity (plain kernel, tip partials with ambiguities)
        label = f'{kind} tree {newick(topology)} : merging the repeated column into a weighted pattern'
        sig = f'merge:{kind}'
    else:
        label = (f'{kind} tree {newick(topology)} : merging the repeated column into a weighted pattern ['
                 + ('tip states' if kw['tip_states'] else 'tip partials') + (f', {alpha} alphabet with rare symbols' if alpha else '')
                 + '; with the repeat ' + modes[0] + ', without it ' + modes[1] + ', the column alone ' + modes[2] + ']')
        sig = f'merge:{kind}:' + ('tip-states' if kw['tip_states'] else 'tip-partials') + (f':{alpha}' if alpha else '') + ':' + '/'.join(modes)
    units = [{'doc': spec(n, topology, kind, columns=list(range(ncol)), **kw), 'eval': [('like', modes[0])]},
             {'doc': spec(n, topology, kind, columns=[c for c in range(ncol) if c != rep], **kw), 'eval': [('like', modes[1])]},
             {'doc': spec(n, topology, kind, columns=[rep], **kw), 'eval': [('like', modes[2])]}]
    run_group(tr, label, n, kind, 'stub', units,
              [('L(with repeated column) == L(without it) + L(that column)', [(1, 0), (-1, 1), (-1, 2)], sig)], sig=sig, S=S)


# ------------------------------------------------------------------ shared objects
FLAGS = {
    'partials+ambiguities': {'use_tip_states': False, 'use_ambiguities': True},
    'partials': {'use_tip_states': False, 'use_ambiguities': False},
    'states': {'use_tip_states': True, 'use_ambiguities': False},
    'states+ambiguities': {'use_tip_states': True, 'use_ambiguities': True},
}


def share_doc(n, topology, kind, style, fa, fb, order, alpha=None):
    """A document with the likelihoods likeA (flags fa) and likeB (flags fb), constructed in `order` ('AB' | 'BA'), that
    refer to the same objects by id.  style: 'flat' (every shared object is a top-level object, both likelihoods refer to
    all of them by id), 'nested' (the first likelihood defines everything inline, the second refers to it by id),
    'alignment' (as flat, but each likelihood has its own SitePattern over the one Alignment)."""
    kw = {'alpha': alpha} if alpha else {}
    base = spec(n, topology, kind, **kw)
    parts = [('tree_model', 'tree'), ('substitution_model', 'subst'), ('site_model', 'site')]
    if kind == 'time':
        parts.append(('branch_model', 'clock'))
    parts.append(('site_pattern', 'sp'))

    def like(name, flags, inline):
        out = {'id': 'like' + name, 'type': 'TreeLikelihoodModel'}
        for key, id_ in parts:
            out[key] = copy.deepcopy(base[key]) if inline else id_
        out.update(FLAGS[flags])
        return out

    flags = {'A': fa, 'B': fb}
    if style == 'nested':
        return [like(order[0], flags[order[0]], True), like(order[1], flags[order[1]], False)]
    doc = [copy.deepcopy(base[key]) for key, _ in parts]
    likes = [like(x, flags[x], False) for x in order]
    if style == 'alignment':
        # the second constructed likelihood gets its own SitePattern over the shared Alignment
        doc.append({'id': 'sp2', 'type': 'SitePattern', 'alignment': 'aln'})
        likes[1]['site_pattern'] = 'sp2'
    return doc + likes


def share_task(tr, n, topology, kind, style, fa, fb, order, ma='plain', mb='plain', evalorder='built', alpha=None):
    from torchtree.core.utils import process_objects

    tr.fn(process_objects)
    modes = {'A': ma, 'B': mb}
    ev = list(order) if evalorder == 'built' else list(order)[::-1]
    kw = {'alpha': alpha} if alpha else {}
    S = ALPHA[alpha]['S'] if alpha else 4

    def alone(flags):
        f = FLAGS[flags]
        return spec(n, topology, kind, tip_states=f['use_tip_states'], use_amb=f['use_ambiguities'], **kw)

    units = [{'doc': share_doc(n, topology, kind, style, fa, fb, order, alpha), 'eval': [('like' + x, modes[x]) for x in ev]},
             {'doc': alone(fa), 'eval': [('like', ma)]}, {'doc': alone(fb), 'eval': [('like', mb)]}]
    pos = {x: i for i, x in enumerate(ev)}
    diff = 'use_ambiguities' if FLAGS[fa]['use_tip_states'] == FLAGS[fb]['use_tip_states'] else 'use_tip_states'
    if fa == fb:
        diff = 'rescale'
    sig = f'share:{style}:{diff}'
    label = (f'{kind} tree {newick(topology)} : shared objects ({style}), likeA [{fa}, {ma}] and likeB [{fb}, {mb}] constructed in order '
             f'{order}, evaluated {"in that order" if evalorder == "built" else "in reverse order"}'
             + (f' [{alpha} alphabet with rare symbols]' if alpha else ''))
    rel = [(f'likeA [{fa}] built next to likeB [{fb}] over shared objects == the same likelihood built alone', [(1, pos['A']), (-1, 2)],
            sig),
           (f'likeB [{fb}] built next to likeA [{fa}] over shared objects == the same likelihood built alone', [(1, pos['B']), (-1, 3)],
            sig)]
    # vacuity guard (checked on the witness inside run_group): honouring the ambiguity codes changes the value, so a
    # likelihood that picks up the other one's tip vectors cannot go unnoticed
    run_group(tr, label, n, kind, 'stub', units, rel, sig=sig, S=S, must_differ=[(2, 3)] if (fa == 'partials+ambiguities') != (fb == 'partials+ambiguities') else [])


def reroots(topology, n, both_orders=False, trifurcations=False):
    """all rootings of the unrooted tree underlying `topology` (as nested tuples), one per branch"""
    # unrooted adjacency from the rooted tuple with the root suppressed
    adj = {}
    counter = itertools.count(n)

    def add(u, v):
        adj.setdefault(u, []).append(v)
        adj.setdefault(v, []).append(u)

    def rec(t):
        if not isinstance(t, tuple):
            return t
        me = next(counter)
        for c in t:
            add(me, rec(c))
        return me

    root = rec(topology)
    a, b = adj[root]
    adj[a].remove(root)
    adj[b].remove(root)
    del adj[root]
    add(a, b)
    edges = sorted({tuple(sorted((u, v))) for u in adj for v in adj[u]})

    def build(u, parent):
        if u < n:
            return u
        kids = [v for v in adj[u] if v != parent]
        return tuple(build(v, u) for v in kids)

    out = []
    for (u, v) in edges:
        out.append(((build(u, v), build(v, u)), f'root on branch {u}-{v}'))
        if both_orders:
            out.append(((build(v, u), build(u, v)), f'root on branch {u}-{v}, children in the other order'))
    if trifurcations:
        for u in sorted(x for x in adj if x >= n):
            kids = [build(v, u) for v in adj[u]]
            out.append((tuple(kids), f'root trifurcation at node {u}'))
            out.append((tuple(kids[1:] + kids[:1]), f'root trifurcation at node {u}, children rotated'))
            out.append((tuple(kids[::-1]), f'root trifurcation at node {u}, children reversed'))
    return out


def root_shape(t):
    if len(t) == 3:
        return 'trifurcation'
    return '(' + ','.join('clade' if isinstance(c, tuple) else 'leaf' for c in t) + ')'


def tasks_for(tier):
    ts = []
    for n in (3, 4):
        topos = [cm.caterpillar(n)] if tier == 'quick' else cm.pick_topologies(n, 'quick', quick_max=3)
        if n == 4 and tier == 'quick':
            topos = [cm.balanced(4)]
        for topo in topos:
            for vlabel, kw, kinds in variants(n, topo, tier):
                for kind in kinds:
                    if tier == 'quick' and n == 4 and kind == 'unrooted' and 'taxa list' in vlabel:
                        continue
                    ts.append(('rewrite', n, topo, kind, vlabel, kw))
            ts.append(('merge', n, topo, 'time'))
            ts.append(('merge', n, topo, 'unrooted'))
    # root placement (JC69 closed form)
    topo = cm.caterpillar(3)
    for t2, what in reroots(topo, 3):
        ts.append(('reroot', 3, topo, t2, what))
    ts.append(('reroot', 3, topo, (topo[1], topo[0]), 'children of the root swapped'))
    for base in ([cm.caterpillar(4)] if tier == 'quick' else [cm.caterpillar(4), cm.balanced(4), cm.caterpillar(3)]):
        nn = len(cm.leaves(base))
        for t2, what in reroots(base, nn):
            ts.append(('kbl', nn, base, t2, what))
        ts.append(('kbl', nn, base, (base[1], base[0]), 'swap of the root children'))
    if tier == 'thorough':
        topo = cm.balanced(4)
        for t2, what in reroots(topo, 4):
            ts.append(('reroot', 4, topo, t2, what))
    ts += tasks_m02(tier)
    return ts


def tasks_m02(tier):
    """the region added in the M02 round (see the module docstring)"""
    ts = []
    quick = tier == 'quick'
    RR, RP, PR = ('rescaled', 'rescaled'), ('rescaled', 'plain'), ('plain', 'rescaled')
    TIPS = ('tip states instead of tip partials (ambiguities as missing)', {'tip_states': True, '_base': {'use_amb': False}})
    # ---- (2) evaluation path: every rewrite with both sides rescaled and mixed
    for n in (3, 4):
        topos = [cm.caterpillar(n)] if quick else [cm.caterpillar(n), cm.balanced(n)] if n == 4 else [cm.caterpillar(n)]
        if n == 4 and quick:
            topos = [cm.balanced(4)]
        for topo in topos:
            vs = variants(n, topo, tier)
            if quick and n == 4:
                # n = 4, quick: one representative per kind of rewrite and tree kind (the thorough tier takes them all)
                seen = set()
                sel = []
                for v in vs:
                    k = sig_of(v[0])
                    if k not in seen:
                        seen.add(k)
                        sel.append(v)
                vs = sel
            for vlabel, kw, kinds in vs:
                for kind in kinds:
                    is_tips = 'tip states' in vlabel
                    for modes in ((RR, RP, PR) if (is_tips or not quick) else (RR, RP)):
                        ts.append(('rewrite', n, topo, kind, vlabel, kw, {'modes': modes}))
                    if is_tips and (n == 3 or not quick):
                        # a second witness point: other entries are the per-node maxima
                        ts.append(('rewrite', n, topo, kind, vlabel, kw, {'modes': RR, 'wit': 1}))
                        ts.append(('rewrite', n, topo, kind, vlabel, kw, {'modes': RP, 'wit': 1}))
            for kind in ('time', 'unrooted'):
                for tip_states in (False, True):
                    combos = [('rescaled',) * 3, ('rescaled', 'plain', 'plain')]
                    if tip_states:
                        combos.append(('plain',) * 3)
                    if not quick:
                        combos.append(('plain', 'rescaled', 'rescaled'))
                    if quick and n == 4:
                        combos = combos[:1] if kind == 'time' else combos[1:2]
                    for modes in combos:
                        ts.append(('merge', n, topo, kind, {'modes': modes, 'tip_states': tip_states, 'use_amb': not tip_states}))
    # ---- (1) alphabet of the written data
    for alpha in ALPHA:
        S = ALPHA[alpha]['S']
        ncol = len(ALPHA[alpha]['columns'])
        kinds = ('time', 'unrooted') if (alpha == 'nucleotide' or not quick) and S == 4 else ('unrooted',)
        sizes = (3, 4) if S == 4 and (alpha == 'nucleotide' or not quick) else (3,)
        for n in sizes:
            topo = cm.caterpillar(n) if n == 3 else cm.balanced(4)
            perm = tuple(range(1, n)) + (0,)
            colp = [(3 * c + 1) % ncol for c in range(ncol)] if ncol % 3 else [(5 * c + 1) % ncol for c in range(ncol)]
            assert sorted(colp) == list(range(ncol))
            for kind in kinds:
                def add(vlabel, kw, **opts):
                    ts.append(('rewrite', n, topo, kind, vlabel, kw, dict(opts, alpha=alpha)))

                # representations of the written data
                add(*TIPS)
                if alpha == 'nucleotide' or (not quick and alpha != 'general+ambiguity'):
                    for modes in (RR, RP, PR):
                        add(*TIPS, modes=modes)
                # written symbols against the canonical spelling of the independent table
                add('written symbols vs canonical spelling, tip partials with ambiguities as missing',
                    {'canon': 'missing', '_base': {'use_amb': False}})
                add('written symbols vs canonical spelling, tip states', {'canon': 'missing', '_base': {'tip_states': True, 'use_amb': False}})
                if not alpha.startswith('general'):
                    add('written symbols vs canonical upper-case codes, tip partials with ambiguities',
                        {'canon': 'code', '_base': {'use_amb': True}})
                add('tip states of the written symbols vs tip partials of the canonical spelling',
                    {'canon': 'missing', 'tip_states': False, '_base': {'tip_states': True, 'use_amb': False}})
                # the other rewrites on this alphabet, in the tip-state representation (and tip partials for nucleotides)
                reps = [{'tip_states': True, 'use_amb': False}]
                if alpha == 'nucleotide' or not quick:
                    reps.append({'tip_states': False, 'use_amb': False})
                for rep in reps:
                    tag = ' (tip states)' if rep['tip_states'] else ' (tip partials)'
                    add(f'taxa list reordered {perm}' + tag, {'taxa_order': perm, '_base': rep})
                    if kind == 'time' or len(kinds) == 1:
                        add(f'sequence list reordered {perm}' + tag, {'seq_order': perm, '_base': rep})
                    add(f'alignment columns reordered {colp}' + tag, {'columns': colp, '_base': rep})
                    if kind == 'unrooted':
                        # a swap at the root moves the zero-length root branch (P is not assumed reversible): non-root swaps only
                        add('children swapped at node (0,)' + tag, {'_topology': swap_at(topo, (0,)), '_base': rep})
                    else:
                        add('children swapped at every node' + tag, {'_topology': cm.mirror(topo), '_base': rep})
                    ts.append(('merge', n, topo, kind, {'modes': ('plain',) * 3, 'alpha': alpha, **rep}))
                    if alpha == 'nucleotide':
                        ts.append(('merge', n, topo, kind, {'modes': ('rescaled',) * 3, 'alpha': alpha, **rep}))
    # ---- (3) sharing
    pairs = [('partials+ambiguities', 'partials'), ('states', 'partials'), ('states', 'partials+ambiguities'),
             ('states+ambiguities', 'partials')]
    for n in ((3,) if quick else (3, 4)):
        topo = cm.caterpillar(n) if n == 3 else cm.balanced(4)
        for kind in ('unrooted', 'time'):
            for style in ('flat', 'nested', 'alignment'):
                for fa, fb in pairs:
                    for order in ('AB', 'BA'):
                        if quick and fa == 'states+ambiguities' and (kind == 'time' or style != 'flat'):
                            continue
                        ts.append(('share', n, topo, kind, style, fa, fb, order))
                        if not quick:
                            ts.append(('share', n, topo, kind, style, fa, fb, order, 'plain', 'plain', 'reverse'))
                # same construction flags, different evaluation path
                for fl in ('partials', 'states'):
                    for order in ('AB', 'BA'):
                        if quick and kind == 'time' and style != 'flat':
                            continue
                        ts.append(('share', n, topo, kind, style, fl, fl, order, 'rescaled', 'plain'))
                if not quick or (kind == 'unrooted' and style == 'flat'):
                    ts.append(('share', n, topo, kind, style, 'partials+ambiguities', 'partials', 'AB', 'rescaled', 'plain'))
                    ts.append(('share', n, topo, kind, style, 'states', 'partials', 'BA', 'plain', 'rescaled'))
            # rare symbols through a shared site pattern
            ts.append(('share', n, topo, kind, 'flat', 'states', 'partials', 'AB', 'plain', 'plain', 'built', 'nucleotide'))
            ts.append(('share', n, topo, kind, 'flat', 'partials+ambiguities', 'states', 'BA', 'plain', 'plain', 'built', 'nucleotide'))
    # ---- (4) keep_branch_lengths: root shape x longer root branch
    for base in ([cm.caterpillar(3), cm.caterpillar(4)] if quick else [cm.caterpillar(3), cm.caterpillar(4), cm.balanced(4)]):
        nn = len(cm.leaves(base))
        ts.append(('kbl', nn, base, cm.mirror(base), 'swap of the children of every node', (0.6, 0.4), root_shape(base) + ':mirrored'))
        for t2, what in reroots(base, nn, both_orders=True, trifurcations=True):
            shape = root_shape(t2)
            if len(t2) == 3:
                ts.append(('kbl', nn, base, t2, what, (1.0, 1.0), shape))
                continue
            for split, longer in (((0.4, 0.6), 'second root branch longer'), ((0.6, 0.4), 'first root branch longer'),
                                  ((0.0, 1.0), 'first root branch of length zero')):
                if split == (0.0, 1.0) and quick and 'other order' in what:
                    continue
                ts.append(('kbl', nn, base, t2, f'{what}, {longer}', split, f'{shape}:{longer.split(" ")[0]}-{"zero" if 0.0 in split else "longer"}'))
    return ts


def body(chk):
    chk.explanation = ('multi-run relational symbolic execution of the real model construction (Alignment, SitePattern compression, '
                       'data-type tables, parse_tree / setup_indexes, TreeLikelihoodModel, plain and rescaled kernels) on equivalent '
                       'JSON specifications sharing one symbol per branch / clade; equality of the log-likelihood expressions is '
                       'decided for all parameter values.  Specifications differ in list / child / column order, column merging, '
                       'tip states vs tip partials, spelling of the symbols (soft-masked, RNA, ambiguity codes, unknown characters; '
                       'nucleotide, amino-acid and general data types) against an independent symbol table, the evaluation path '
                       '(rescale flag on both / one side), objects shared by id between two likelihoods with different flags vs '
                       'inline stand-alone specifications, and the root position / root shape / split of the root branch with '
                       'keep_branch_lengths')
    chk.total.assumptions |= {'substitution_model.p_t is an uninterpreted row-stochastic matrix function (any model); root placement uses '
                              'the closed-form JC69 with exp uninterpreted + ground axioms; general reversible models (pulley principle '
                              'with detailed balance) are outside the claim',
                              'sequences are pairwise distinct so that a positional mix-up changes the expression',
                              'polytomy resolution beyond the enumerated binary Newick strings and a trifurcation at the root '
                              '(keep_branch_lengths) is outside the claim',
                              'rescaled paths: per-node per-site scalers and log arguments are positive (the divisions are hoisted out '
                              'of the log arguments: log(N/D) = log N - log D); the claim covers the region of the witness(es) = '
                              'which entry is the maximum, no coverage certificate over all regions (C03 (a) enumerates regions); '
                              'the safe kernel entered after an underflow belongs to C03',
                              'which states a written symbol stands for: IUPAC nucleotide / amino-acid tables of chk/c01_k3_harness.py, '
                              'for GeneralDataType the codes / ambiguities of its JSON; characters with code point >= 128 are outside',
                              'the 20-state runs use GeneralJC69 as carrier object: its p_t is the uninterpreted row-stochastic function '
                              'and its frequencies are symbols (replay: real GeneralJC69.p_t); one rate category',
                              'TreeLikelihoodModel has no include_jacobian option (it belongs to the tree transforms / the CLI): the '
                              'flags varied between likelihoods sharing objects are use_ambiguities, use_tip_states and rescale'}
    chk.total.bounds['sizes'] = 'n in {3,4}; 5-column alignment with IUPAC codes, a gap and a repeated column; Weibull(2) site model'
    chk.total.bounds['alphabets'] = ('nucleotide: 8 columns with A C G T a c g t u U R y k - N ? x n . * 9 and a repeated column; '
                                     'amino acid (20 states, n = 3, unrooted): 8 columns with upper / lower case, B z X b * ? - J o U u '
                                     '. 1 !; general data type a b c d with aliases e -> a, f -> [b], all-state code x, unknown '
                                     'symbols ? - A B . ; the same with a two-state code r; quick: n = 3, thorough: n = 4 as well')
    chk.total.bounds['evaluation paths'] = ('rescale flag set before the first evaluation on both sides and on one side, weights > 1 '
                                            'present (repeated column); quick: every rewrite for n = 3, one representative per kind of '
                                            'rewrite for n = 4 (tip states vs partials: all three combinations; n = 3: two witness '
                                            'points), merging for tip partials and tip states; thorough: every rewrite, n = 3, 4')
    chk.total.bounds['sharing'] = ('two likelihoods over one document, styles flat / nested / own SitePattern over a shared Alignment, '
                                   'flag pairs (use_ambiguities, use_tip_states, rescale), both construction orders, time and unrooted '
                                   'trees; quick: n = 3, evaluated in construction order; thorough: n = 3, 4, both evaluation orders')
    chk.total.bounds['keep_branch_lengths'] = ('n = 3, 4: root on every branch in both child orders = root shapes (clade,clade), '
                                               '(leaf,clade), (clade,leaf); root branch split 40:60, 60:40 and 0:100; root '
                                               'trifurcation at every internal node in three child orders; children swapped at every '
                                               'node; JC69, one rate category')
    pmap(run_task, tasks_for(chk.tier), chk.total)


if __name__ == '__main__':
    if '--replay' in sys.argv:
        import json

        r = json.load(open(sys.argv[sys.argv.index('--replay') + 1]))
        print('replay:', r['what'])
        sys.exit(1)
    sys.exit(main_for(PID, body))
