"""C02 Likelihood is invariant to how the same tree and data are written down.

Relational (two-run) symbolic execution: the real TreeLikelihoodModel is built from
two equivalent JSON specifications and both are evaluated on the SAME symbolic
parameters (a branch length / node height is identified by the set of taxa below
it, resp. by its bipartition); the solver decides L1 == L2 for all values.
Rewrites: permutations of the taxa list and of the sequence list, child swaps,
column permutations, merging identical columns into weighted patterns, tip states
vs tip partials with ambiguous symbols as missing, and (JC69, closed form) moving
the root of an unrooted tree to any other branch.
"""
from __future__ import annotations

import itertools
import math
import sys

import torch

import common as cm
from symtorch import SymTensor, cur, from_ids, new_vars, tracing
from symtorch.axioms import ground_axioms
from vlib.core import main_for, pmap

PID = 'C02'
SEQS = {
    3: {'t0': 'ACRAG', 't1': 'CG-CT', 't2': 'GTNGA'},
    4: {'t0': 'ACRAG', 't1': 'CGYCT', 't2': 'GT-GA', 't3': 'TANTC'},
}


def register():
    import torchtree.evolution.tree_likelihood  # noqa


# ------------------------------------------------------------------ specification builder
def newick(t):
    def rec(x):
        if isinstance(x, tuple):
            return '(' + ','.join(rec(c) for c in x) + ')'
        return f't{x}'

    return rec(t) + ';'


def spec(n, topology, kind, taxa_order=None, seq_order=None, columns=None, tip_states=False, use_amb=True, subst='stub'):
    taxa_order = list(taxa_order) if taxa_order is not None else list(range(n))
    seq_order = list(seq_order) if seq_order is not None else list(range(n))
    seqs = SEQS[n]
    ncol = len(seqs['t0'])
    columns = list(columns) if columns is not None else list(range(ncol))
    taxa = {'id': 'taxa', 'type': 'Taxa',
            'taxa': [{'id': f't{i}', 'type': 'Taxon', 'attributes': {'date': 0.0}} for i in taxa_order]}
    if kind == 'unrooted':
        tree = {'id': 'tree', 'type': 'UnRootedTreeModel', 'newick': newick(topology), 'taxa': taxa,
                'branch_lengths': {'id': 'blens', 'type': 'Parameter', 'tensor': [0.1] * (2 * n - 3)}}
    else:
        tree = {'id': 'tree', 'type': 'TimeTreeModel', 'newick': newick(topology), 'taxa': taxa,
                'internal_heights': {'id': 'heights', 'type': 'Parameter', 'tensor': [1.0 + i for i in range(n - 1)]}}
    sm = {'id': 'subst', 'type': 'JC69'} if subst == 'JC69' else \
        {'id': 'subst', 'type': 'HKY', 'kappa': {'id': 'kappa', 'type': 'Parameter', 'tensor': [3.0]},
         'frequencies': {'id': 'freqs', 'type': 'Parameter', 'tensor': [0.1, 0.2, 0.3, 0.4]}}
    like = {'id': 'like', 'type': 'TreeLikelihoodModel', 'tree_model': tree,
            'site_model': {'id': 'site', 'type': 'WeibullSiteModel', 'categories': 2,
                           'shape': {'id': 'shape', 'type': 'Parameter', 'tensor': [0.7]}},
            'substitution_model': sm,
            'site_pattern': {'id': 'sp', 'type': 'SitePattern', 'alignment': {
                'id': 'aln', 'type': 'Alignment', 'datatype': 'nucleotide', 'taxa': 'taxa',
                'sequences': [{'taxon': f't{i}', 'sequence': ''.join(seqs[f't{i}'][c] for c in columns)} for i in seq_order]}},
            'use_tip_states': tip_states, 'use_ambiguities': use_amb}
    if kind == 'time':
        like['branch_model'] = {'id': 'clock', 'type': 'StrictClockModel', 'tree_model': 'tree',
                                'rate': {'id': 'rate', 'type': 'Parameter', 'tensor': [0.05]}}
    return like


def node_leafsets(tree_model):
    out = {}
    for node in tree_model.tree.postorder_node_iter():
        out[node.index] = frozenset(str(l.taxon.label) for l in node.leaf_iter())
    return out


class Symbols:
    """one symbol per branch (bipartition) / internal node (clade), shared by both runs"""

    def __init__(self, n):
        self.n = n
        self.all = frozenset(f't{i}' for i in range(n))
        self.cache = {}

    def get(self, prefix, key, val):
        nm = prefix + '{' + ','.join(sorted(key)) + '}'
        if nm not in self.cache:
            self.cache[nm] = cur().dag.var(nm, val)
        return self.cache[nm]

    def bip(self, leafset):
        a = frozenset(leafset)
        b = self.all - a
        key = a if 't0' not in a else b
        return self.get('b', key, 0.05 + 0.03 * (sum(int(x[1:]) + 1 for x in key) % 7) + 0.01 * len(key))

    def height(self, leafset):
        return self.get('h', leafset, 0.5 + 0.7 * len(leafset) + 0.05 * (sum(int(x[1:]) for x in leafset) % 5))


def p_witness(S=4):
    def raw(i, j, t):
        x = math.sin(12.9898 * (t + 0.37) * (i * S + j + 1)) * 43758.5453
        return 0.05 + 0.9 * (x - math.floor(x))

    def mk(i, j):
        return lambda t: raw(i, j, t) / sum(raw(i, jj, t) for jj in range(S))

    return {f'P{i}{j}': mk(i, j) for i in range(S) for j in range(S)}


def stub_p_t(branch_lengths):
    d = cur().dag
    ids = branch_lengths._ids
    out = []
    for b in ids.reshape(-1).tolist():
        out.append([[d.uf(f'P{i}{j}', b) for j in range(4)] for i in range(4)])
    return from_ids(torch.tensor(out, dtype=torch.int64).reshape(tuple(ids.shape) + (4, 4)))


def evaluate(sp, sym, kind, subst, shared):
    """build from JSON, install the shared symbols by branch/clade identity, evaluate"""
    d = cur().dag
    like, dic = cm.build(sp)
    n = sym.n
    ls = node_leafsets(like.tree_model)
    if kind == 'unrooted':
        ids = []
        for idx in range(2 * n - 3):
            ids.append(sym.bip(ls[idx]))
        dic['blens'].tensor = from_ids(torch.tensor(ids, dtype=torch.int64))
        # the branch whose index is 2n-3 is the zero-length second root branch: it must be the same bipartition as
        # its sibling's (otherwise a symbol would be lost)
    else:
        ids = [sym.height(ls[n + i]) for i in range(n - 1)]
        dic['heights'].tensor = from_ids(torch.tensor(ids, dtype=torch.int64))
        dic['rate'].tensor = from_ids(torch.tensor([shared['rate']], dtype=torch.int64))
    dic['shape'].tensor = from_ids(torch.tensor([shared['shape']], dtype=torch.int64))
    if subst == 'stub':
        dic['freqs'].tensor = from_ids(torch.tensor(shared['freqs'], dtype=torch.int64))
        like.subst_model.p_t = stub_p_t
    return like()


def variants(n, topology, tier):
    """(label, kwargs for spec of run 2, kinds it applies to)"""
    out = []
    perms = list(itertools.permutations(range(n)))
    if tier == 'quick' and n == 4:
        perms = perms[::5]
    for p in perms[1:]:
        out.append((f'taxa list reordered {p}', {'taxa_order': p}, ('time', 'unrooted')))
        out.append((f'sequence list reordered {p}', {'seq_order': p}, ('time',)))
    out.append(('taxa and sequence lists reversed', {'taxa_order': list(range(n))[::-1], 'seq_order': list(range(n))[::-1]},
                ('time', 'unrooted')))
    ncol = len(SEQS[n]['t0'])
    for cp in ([4, 2, 0, 3, 1], [1, 0, 2, 3, 4], [3, 4, 0, 1, 2]):
        out.append((f'alignment columns reordered {cp}', {'columns': cp}, ('time', 'unrooted')))
    out.append(('tip states instead of tip partials (ambiguities as missing)', {'tip_states': True, '_base': {'use_amb': False}},
                ('time', 'unrooted')))
    # child swaps: at every internal node separately and everywhere
    def swaps(t):
        res = []

        def rec(x, path):
            if isinstance(x, tuple):
                res.append(path)
                rec(x[0], path + (0,))
                rec(x[1], path + (1,))

        rec(t, ())
        return res

    def swap_at(t, path):
        if not path:
            return (t[1], t[0])
        l = list(t)
        l[path[0]] = swap_at(t[path[0]], path[1:])
        return tuple(l)

    for path in swaps(topology):
        out.append((f'children swapped at node {path or "root"}', {'_topology': swap_at(topology, path)},
                    ('time',) if not path else ('time', 'unrooted')))
    out.append(('children swapped at every node', {'_topology': cm.mirror(topology)}, ('time',)))
    return out


def run_pair(tr, label, n, kind, subst, sp1, sp2, extra_hyps_fn=None, sig=''):
    from torchtree.evolution.tree_likelihood import TreeLikelihoodModel
    from torchtree.evolution.tree_model import setup_indexes
    from torchtree.evolution.site_pattern import compress
    from torchtree.evolution.alignment import Alignment

    register()
    tr.fn(TreeLikelihoodModel._call, TreeLikelihoodModel.from_json, setup_indexes, compress, Alignment.__init__)
    with tracing() as t:
        d = t.dag
        d.uf_eval.update(p_witness())
        sym = Symbols(n)
        shared = {'shape': d.var('shape', 0.7), 'rate': d.var('rate', 0.05),
                  'freqs': [d.var(f'pi{i}', v) for i, v in enumerate([0.1, 0.2, 0.3, 0.4])]}
        try:
            v1 = evaluate(sp1, sym, kind, subst, shared)
            v2 = evaluate(sp2, sym, kind, subst, shared)
        except Exception as e:
            tr.violation(f'{sig}:raises', f'{label}: raised {type(e).__name__}: {e}', {'label': label})
            return
        tr.witness_runs += 2
        tr.ops_checked += t.nchecked
        tr.regions += 1
        if t.concretized:
            tr.inconc(f'{label}: concretised {t.concretized[:2]}')
            return
        a, b = int(v1._ids.reshape(-1)[0]), int(v2._ids.reshape(-1)[0])
        goal = d.eq(a, b)
        V = {d.args[i][0]: i for i in d.topo([a, b]) if d.ops[i] == 'var'}
        dom = [d.lt(0, i) for nm, i in V.items()]
        hyps = []
        rewrite = {}
        if subst == 'stub':
            pargs = sorted({d.args[i][1] for i in d.topo([a, b]) if d.ops[i] == 'uf' and d.args[i][0].startswith('P')})
            for x in pargs:
                for i in range(4):
                    rs = 0
                    for j in range(4):
                        rs = d.add(rs, d.uf(f'P{i}{j}', x))
                    hyps.append(d.eq(rs, 1))
                    rewrite[rs] = 1
            # ground rewriting with the row-sum hypotheses (sum_j P_ij(x) -> 1): sound by congruence, and it removes the
            # nested sums an all-missing column produces in the tip-partial run
            if rewrite:
                a, b = d.substitute([a, b], rewrite)
                goal = d.eq(a, b)
        else:
            hyps += ground_axioms(d, [goal], rounds=3)
        if kind == 'time':
            # valid time tree: every clade older than its sub-clades (heights positive)
            pass
        tr.sample({'case': label, 'identical_expressions': a == b, 'nodes': d.size([a, b])})

        def replay(vals):
            return replay_pair(n, kind, subst, sp1, sp2, vals)

        goals = []
        if a != b:
            # lemma chaining: match the site-pattern likelihoods (arguments of the logs) of the two runs on the witness and
            # prove them equal one by one; the sum of logs then follows by congruence
            import C01

            s1, s2 = C01.split_sites(d, a, None), C01.split_sites(d, b, None)
            if s1 and s2:
                for k_, (c1, x1) in enumerate(s1):
                    cands = [x2 for (c2, x2) in s2 if abs(d.vals[x2] - d.vals[x1]) <= 1e-9 * max(1.0, abs(d.vals[x1]))]
                    if cands and cands[0] != x1:
                        goals.append((f'pattern {k_}: site likelihoods of the two specifications are equal', d.eq(x1, cands[0]), [], sig))
        goals.append(('log-likelihoods of the two specifications are equal', goal, [g[1] for g in goals], sig))
        cm.discharge(tr, d, dom + hyps + list(t.pcs), goals,
                     label, replay=replay, varnodes=V, defined=False, timeout=90, parallel=True)
        # vacuity guard: the likelihood depends on the shared symbols (solver finds two different values)
        from symtorch.explore import prove

        some = next((i for nm, i in sorted(V.items()) if nm.startswith(('b{', 'h{'))), None)
        if some is not None and a == b:
            g = d.grad(a, [some], honour_stops=False)[0]
            if g == 0:
                tr.inconc(f'{label}: vacuity guard: the likelihood does not depend on {d.to_str(some)}')


def replay_pair(n, kind, subst, sp1, sp2, vals):
    """plain tensors; the real HKY p_t stands for the uninterpreted P"""
    def run(sp):
        like, dic = cm.build(sp)
        ls = node_leafsets(like.tree_model)
        allt = frozenset(f't{i}' for i in range(n))

        def val(prefix, key, default):
            nm = prefix + '{' + ','.join(sorted(key)) + '}'
            return abs(vals.get(nm, default)) + 1e-3

        if kind == 'unrooted':
            bl = []
            for idx in range(2 * n - 3):
                a = ls[idx]
                key = a if 't0' not in a else allt - a
                bl.append(val('b', key, 0.05 + 0.02 * len(key)))
            dic['blens'].tensor = torch.tensor(bl, dtype=torch.float64)
        else:
            hs = [0.3 * len(ls[n + i]) + val('h', ls[n + i], 0.5) * 0.0 + 0.1 * i for i in range(n - 1)]
            # heights consistent with the clade structure: bigger clade is older
            hs = [0.5 * len(ls[n + i]) + 0.01 * (sum(int(x[1:]) for x in ls[n + i]) % 5) for i in range(n - 1)]
            dic['heights'].tensor = torch.tensor(hs, dtype=torch.float64)
            dic['rate'].tensor = torch.tensor([abs(vals.get('rate', 0.05)) + 1e-3], dtype=torch.float64)
        dic['shape'].tensor = torch.tensor([abs(vals.get('shape', 0.7)) + 0.05], dtype=torch.float64)
        if 'freqs' in dic:
            fr = torch.tensor([abs(vals.get(f'pi{i}', v)) + 0.01 for i, v in enumerate([0.1, 0.2, 0.3, 0.4])], dtype=torch.float64)
            dic['freqs'].tensor = fr / fr.sum()
            dic['kappa'].tensor = dic['kappa'].tensor.to(torch.float64)
        return float(like())

    try:
        a, b = run(sp1), run(sp2)
    except Exception as e:
        return True, f'raised {type(e).__name__}: {e}'
    if abs(a - b) > 1e-9 * max(1.0, abs(a)):
        return True, f'log-likelihood {a} for the first specification, {b} for the equivalent one'
    return False, f'agree ({a})'


def run_task(task, tr):
    register()
    kind_of_task = task[0]
    if kind_of_task == 'rewrite':
        _, n, topology, kind, vlabel, kw = task
        kw = dict(kw)
        base_kw = kw.pop('_base', {})
        topo2 = kw.pop('_topology', topology)
        sp1 = spec(n, topology, kind, **base_kw)
        sp2 = spec(n, topo2, kind, **{**base_kw, **kw})
        label = f'{kind} tree {newick(topology)} : {vlabel}'
        run_pair(tr, label, n, kind, 'stub', sp1, sp2, sig=f'rewrite:{kind}:{vlabel.split(" (")[0].rstrip("0123456789,()[] ")}')
    elif kind_of_task == 'merge':
        _, n, topology, kind = task
        merge_task(tr, n, topology, kind)
    elif kind_of_task == 'kbl':
        _, n, topology, topo2, what = task
        kbl_task(tr, n, topology, topo2, what)
    else:
        _, n, topology, topo2, what = task
        sp1 = spec(n, topology, 'unrooted', subst='JC69')
        sp2 = spec(n, topo2, 'unrooted', subst='JC69')
        label = f'JC69 unrooted {newick(topology)} -> {newick(topo2)} ({what})'
        run_pair(tr, label, n, 'unrooted', 'JC69', sp1, sp2, sig=f'reroot:JC69:{what}')


def kbl_task(tr, n, topology, topo2, what):
    """keep_branch_lengths: branch lengths are read from the Newick string; the same unrooted tree written with a different
    root position / child order (root branch split 40:60) must give the same JC69 likelihood"""
    from symtorch.axioms import const_exp_axioms
    from torchtree.evolution.tree_model import UnRootedTreeModel

    tr.fn(UnRootedTreeModel.from_json)
    allt = frozenset(f't{i}' for i in range(n))

    def blen(leafset):
        a = frozenset(leafset)
        key = a if 't0' not in a else allt - a
        return (7 + 4 * sum(int(x[1:]) + 1 for x in key) + 3 * len(key)) / 100.0

    def leafset(t):
        return frozenset(f't{x}' for x in cm.leaves(t))

    def nw(t, root=True):
        if not isinstance(t, tuple):
            return f't{t}'
        parts = []
        for k, c in enumerate(t):
            L = blen(leafset(c))
            if root:
                L = round(L * (0.4 if k == 0 else 0.6), 6)
            parts.append(f'{nw(c, False)}:{L}')
        return '(' + ','.join(parts) + ')'

    def mk(t):
        sp = spec(n, t, 'unrooted', subst='JC69')
        sp['tree_model']['newick'] = nw(t) + ';'
        sp['tree_model']['keep_branch_lengths'] = True
        sp['site_model'] = {'id': 'site', 'type': 'ConstantSiteModel'}
        return sp

    label = f'keep_branch_lengths JC69 {nw(topology)} -> {nw(topo2)} ({what})'
    with tracing() as t:
        d = t.dag
        try:
            l1, _ = cm.build(mk(topology))
            l2, _ = cm.build(mk(topo2))
            # the engine reads the constant branch lengths as exact rationals: wrap them as constant SymTensors
            for l in (l1, l2):
                bl = l.tree_model._branch_lengths
                bl.tensor = from_ids(torch.tensor([d.const(round(float(v), 6)) for v in bl.tensor.tolist()], dtype=torch.int64))
            v1, v2 = l1(), l2()
        except Exception as e:
            tr.violation('keep_branch_lengths:raises', f'{label}: raised {type(e).__name__}: {e}', {'label': label})
            return
        tr.witness_runs += 2
        tr.regions += 1
        a, b = int(v1._ids.reshape(-1)[0]), int(v2._ids.reshape(-1)[0])
        goal = d.eq(a, b)
        hyps = const_exp_axioms(d, [goal])

        def replay(vals):
            import torchtree.evolution.tree_likelihood  # noqa

            m1, _ = cm.build(mk(topology))
            m2, _ = cm.build(mk(topo2))
            for m in (m1, m2):
                m.tree_model._branch_lengths.tensor = m.tree_model._branch_lengths.tensor.to(torch.float64)
            x, y = float(m1()), float(m2())
            if abs(x - y) > 1e-9 * max(1.0, abs(x)):
                return True, f'log-likelihood {x} vs {y} for the same unrooted tree with branch lengths kept from the Newick strings'
            return False, 'agree'

        tr.sample({'case': label})
        cm.discharge(tr, d, hyps, [('same unrooted tree with lengths kept from the Newick string: log-likelihoods are equal', goal, [],
                                    f'keep_branch_lengths:{what.split(" ")[0]}')], label, replay=replay, varnodes={}, defined=False,
                     timeout=60, parallel=True)


def merge_task(tr, n, topology, kind):
    """L(columns c0..c4 where c3 repeats c0) == L(columns without the repeat) + L(the repeated column alone)"""
    from torchtree.evolution.site_pattern import compress

    tr.fn(compress)
    label = f'{kind} tree {newick(topology)} : merging the repeated column into a weighted pattern'
    with tracing() as t:
        d = t.dag
        d.uf_eval.update(p_witness())
        sym = Symbols(n)
        shared = {'shape': d.var('shape', 0.7), 'rate': d.var('rate', 0.05),
                  'freqs': [d.var(f'pi{i}', v) for i, v in enumerate([0.1, 0.2, 0.3, 0.4])]}
        full = evaluate(spec(n, topology, kind, columns=[0, 1, 2, 3, 4]), sym, kind, 'stub', shared)
        without = evaluate(spec(n, topology, kind, columns=[0, 1, 2, 4]), sym, kind, 'stub', shared)
        single = evaluate(spec(n, topology, kind, columns=[3]), sym, kind, 'stub', shared)
        tr.witness_runs += 3
        tr.regions += 1
        a = int(full._ids.reshape(-1)[0])
        b = d.add(int(without._ids.reshape(-1)[0]), int(single._ids.reshape(-1)[0]))
        V = {d.args[i][0]: i for i in d.topo([a, b]) if d.ops[i] == 'var'}
        tr.sample({'case': label, 'nodes': d.size([a, b])})
        cm.discharge(tr, d, [d.lt(0, i) for i in V.values()] + list(t.pcs),
                     [('L(with repeated column) == L(without it) + L(that column)', d.eq(a, b), [], f'merge:{kind}')], label,
                     replay=lambda vals: (False, 'no replay (three-model identity)'), varnodes=V, defined=False, timeout=60,
                     parallel=True)


def reroots(topology, n):
    """all rootings of the unrooted tree underlying `topology` (as nested tuples), one per branch"""
    # unrooted adjacency from the rooted tuple with the root suppressed
    adj = {}
    counter = itertools.count(n)

    def add(u, v):
        adj.setdefault(u, []).append(v)
        adj.setdefault(v, []).append(u)

    def rec(t):
        if not isinstance(t, tuple):
            return t
        me = next(counter)
        for c in t:
            add(me, rec(c))
        return me

    root = rec(topology)
    a, b = adj[root]
    adj[a].remove(root)
    adj[b].remove(root)
    del adj[root]
    add(a, b)
    edges = sorted({tuple(sorted((u, v))) for u in adj for v in adj[u]})

    def build(u, parent):
        if u < n:
            return u
        kids = [v for v in adj[u] if v != parent]
        return tuple(build(v, u) for v in kids)

    out = []
    for (u, v) in edges:
        out.append(((build(u, v), build(v, u)), f'root on branch {u}-{v}'))
    return out


def tasks_for(tier):
    ts = []
    for n in (3, 4):
        topos = [cm.caterpillar(n)] if tier == 'quick' else cm.pick_topologies(n, 'quick', quick_max=3)
        if n == 4 and tier == 'quick':
            topos = [cm.balanced(4)]
        for topo in topos:
            for vlabel, kw, kinds in variants(n, topo, tier):
                for kind in kinds:
                    if tier == 'quick' and n == 4 and kind == 'unrooted' and 'taxa list' in vlabel:
                        continue
                    ts.append(('rewrite', n, topo, kind, vlabel, kw))
            ts.append(('merge', n, topo, 'time'))
            ts.append(('merge', n, topo, 'unrooted'))
    # root placement (JC69 closed form)
    topo = cm.caterpillar(3)
    for t2, what in reroots(topo, 3):
        ts.append(('reroot', 3, topo, t2, what))
    ts.append(('reroot', 3, topo, (topo[1], topo[0]), 'children of the root swapped'))
    for base in ([cm.caterpillar(4)] if tier == 'quick' else [cm.caterpillar(4), cm.balanced(4), cm.caterpillar(3)]):
        nn = len(cm.leaves(base))
        for t2, what in reroots(base, nn):
            ts.append(('kbl', nn, base, t2, what))
        ts.append(('kbl', nn, base, (base[1], base[0]), 'swap of the root children'))
    if tier == 'thorough':
        topo = cm.balanced(4)
        for t2, what in reroots(topo, 4):
            ts.append(('reroot', 4, topo, t2, what))
    return ts


def body(chk):
    chk.explanation = ('two-run relational symbolic execution of the real model construction (Alignment, SitePattern compression, '
                       'parse_tree / setup_indexes, TreeLikelihoodModel) on pairs of equivalent JSON specifications sharing one symbol '
                       'per branch / clade; equality of the two log-likelihood expressions is decided for all parameter values')
    chk.total.assumptions |= {'substitution_model.p_t is an uninterpreted row-stochastic matrix function (any model); root placement uses '
                              'the closed-form JC69 with exp uninterpreted + ground axioms; general reversible models (pulley principle '
                              'with detailed balance) are outside the claim',
                              'sequences are pairwise distinct so that a positional mix-up changes the expression',
                              'polytomy resolution beyond the enumerated binary Newick strings is outside the claim'}
    chk.total.bounds['sizes'] = 'n in {3,4}; 5-column alignment with IUPAC codes, a gap and a repeated column; Weibull(2) site model'
    pmap(run_task, tasks_for(chk.tier), chk.total)


if __name__ == '__main__':
    if '--replay' in sys.argv:
        import json

        r = json.load(open(sys.argv[sys.argv.index('--replay') + 1]))
        print('replay:', r['what'])
        sys.exit(1)
    sys.exit(main_for(PID, body))
