"""C12 Gradients are the derivatives of the reported densities.

For every density and parameter the gradient autograd would deliver (symbolic reverse
differentiation of the recorded DAG that STOPS where autograd stops: detach(),
no_grad(), .item()/torch.tensor rebuilds) must equal the true derivative of the
reported value (same DAG, stops ignored), and every parameter the value depends on
must have a gradient that is not identically zero.  The autograd model is validated
against real torch.autograd at the witness on every run.

Eigendecompositions (HKY / GTR / general symmetric models: torch.linalg.eigh + inverse;
general non-symmetric model: torch.matrix_exp) are differentiable in this check: on C12's
traces the stubs return uninterpreted functions of the entries of their symbolic input
(symtorch/ext_c12.py), DAG.grad differentiates them by derivative symbols, and a cut of
the autograd history anywhere on the path parameters -> q -> symmetrisation -> eigh -> p_t
-> pruning makes the two gradients different expressions in those (free) symbols.  For such
cases the witness cross-check is "real torch.autograd == central finite differences on the
real model at the witness" (derivative symbols carry pseudo-witness values).
"""
from __future__ import annotations

import math
import re
import sys
import time

import torch

import C10
import common as cm
import symtorch.ext_c12 as ext  # registers the opt-in differentiable eigh / inverse stubs and the dead-branch records; only traces prepared by ext.prepare use them
from symtorch import SymTensor, cur, from_ids, new_vars
from symtorch.axioms import ground_axioms
from symtorch.explore import Explorer, Goal, triage
from vlib.core import main_for, pmap

PID = 'C12'
SEQS = C10.SEQS
PIN_TIMEOUT = 8  # s, z3 only: queries with every input pinned at the witness


def P(vals, lo=None, hi=None):
    return (vals, lo, hi)


def register():
    """classes the cases below name in their JSON (C10.register covers the rest)"""
    import torchtree.distributions.gmrf_integrated  # noqa
    import torchtree.evolution.bdsk  # noqa
    import torchtree.evolution.birth_death  # noqa
    import torchtree.evolution.substitution_model.general  # noqa
    import torchtree.evolution.substitution_model.nucleotide  # noqa


def build(specs):
    register()
    return C10.build(specs)


# ------------------------------------------------------------------ cases
# a case is (spec list, params {id: (values, lo, hi)}, target id, opts); opts:
#   rescale       the likelihood keeps rescale=True (rescaled kernels)
#   evaluate      'q' | 'p_t' : the evaluated quantity is subst.q() / subst.p_t(t) instead of target()
#   weighted      the scalar that is differentiated is sum_k w_k value_k with fixed generic weights w_k = 1 + k/8
#                 (rows of q sum to 0 and rows of p_t to 1: the plain sum would be constant)
#   heights_order tree.heights[0] < tree.heights[1]
#   domain        callable(d, V) -> extra constraints
#   event_time_equalities   an `eq` among the path conditions of a region is a tie between event times (BDSK: tip time == epoch boundary)
#   start / witness_signature / witness_note   exploration started at a chosen point (degenerate cases)
#   fixed         names 'p[i]' of parameter elements held at their initial value (no gradient obligation for them)
#   max_regions / no_closure   explorer budget for cases with many path regions
def ratio_tree():
    taxa = cm.taxa_json(3)
    tree = cm.ratio_tree_json(((0, 1), 2), 3)
    tree['taxa'] = taxa
    return tree, {'tree.ratios': P([0.4], 0.01, 0.99), 'tree.root_height': P([3.0], 0.05, None)}


def shift_tree():
    taxa = cm.taxa_json(3)
    tree = cm.shift_tree_json(((0, 1), 2), 3)
    tree['taxa'] = taxa
    return tree, {'tree.shifts': P([1.0, 1.5], 0.01, None)}


def case_chain(kind):
    """densities reached through the ratio / root-height parameterisation (chain of transforms)"""
    tree, params = ratio_tree()
    if kind == 'jacobian':
        return [tree], params, 'tree', {}
    if kind == 'coalescent':
        m = {'id': 'm', 'type': 'ConstantCoalescentModel',
             'theta': {'id': 'theta', 'type': 'TransformedParameter', 'transform': 'torch.distributions.ExpTransform',
                       'x': {'id': 'theta_unc', 'type': 'Parameter', 'tensor': [0.4]}},
             'tree_model': tree}
        params['theta_unc'] = P([0.4])
        return [m], params, 'm', {}
    if kind in ('likelihood', 'likelihood-rescaled', 'likelihood-rescaled-tipstates'):
        like = {'id': 'm', 'type': 'TreeLikelihoodModel', 'tree_model': tree,
                'site_model': {'id': 'site', 'type': 'WeibullSiteModel', 'categories': 2,
                               'shape': {'id': 'shape', 'type': 'Parameter', 'tensor': [0.7]}},
                'substitution_model': {'id': 'subst', 'type': 'JC69'},
                'branch_model': {'id': 'clock', 'type': 'StrictClockModel', 'tree_model': 'tree',
                                 'rate': {'id': 'rate', 'type': 'Parameter', 'tensor': [0.05]}},
                'site_pattern': {'id': 'sp', 'type': 'SitePattern', 'alignment': cm.alignment_json(SEQS, taxa='taxa')}}
        params['shape'] = P([0.7], 0.05, None)
        params['rate'] = P([0.05], 0.001, None)
        if 'tipstates' in kind:
            like['use_tip_states'] = True
        return [like], params, 'm', {'rescale': 'rescaled' in kind}
    if kind == 'joint':
        specs = [
            {'id': 'like', 'type': 'TreeLikelihoodModel', 'tree_model': tree,
             'site_model': {'id': 'site', 'type': 'ConstantSiteModel'},
             'substitution_model': {'id': 'subst', 'type': 'JC69'},
             'branch_model': {'id': 'clock', 'type': 'StrictClockModel', 'tree_model': 'tree',
                              'rate': {'id': 'rate', 'type': 'Parameter', 'tensor': [0.05]}},
             'site_pattern': {'id': 'sp', 'type': 'SitePattern', 'alignment': cm.alignment_json(SEQS, taxa='taxa')}},
            {'id': 'coal', 'type': 'ConstantCoalescentModel', 'theta': {'id': 'theta', 'type': 'Parameter', 'tensor': [2.0]},
             'tree_model': 'tree'},
            {'id': 'prior', 'type': 'CTMCScale', 'x': 'rate', 'tree_model': 'tree'},
            {'id': 'm', 'type': 'JointDistributionModel', 'distributions': ['like', 'coal', 'prior', 'tree']},
        ]
        params['rate'] = P([0.05], 0.001, None)
        params['theta'] = P([2.0], 0.01, None)
        return specs, params, 'm', {}
    raise KeyError(kind)


def case_chain_eigen(subst, site, tip_states=False, rescale=False, mu=False):
    """TreeLikelihoodModel with a numerically diagonalised substitution model through a strict clock on a
    ratio-parameterised time tree: kappa / rates / frequencies -> q -> eigh -> p_t -> pruning, and
    ratios / root height -> node heights -> branch lengths x clock rate x site rates -> p_t"""
    specs, params, target, opts = C10.case_likelihood('strict', site, subst, categories=2, tip_states=tip_states, mu=mu, rescale=rescale)
    tree, tparams = ratio_tree()
    specs[0]['tree_model'] = tree
    del params['tree.heights']
    params = dict(tparams, **params)
    params['rate'] = P([0.05], 0.001, None)
    specs[0]['branch_model']['rate']['tensor'] = [0.05]
    return specs, params, target, {'rescale': rescale}


def case_site_invariant_mu():
    """Weibull (2 categories) + invariant class + mu: K = 3, rates = [0, r1, r2] * mu / mean"""
    specs, params, target, opts = C10.case_likelihood('unrooted', 'weibull', 'JC69', categories=2, mu=True)
    specs[0]['site_model']['invariant'] = {'id': 'pinv', 'type': 'Parameter', 'tensor': [0.2]}
    params['pinv'] = P([0.2], 0.01, 0.9)
    return specs, params, target, {}


GENERAL_DT = {'id': 'dt', 'type': 'GeneralDataType', 'codes': ['a', 'b', 'c']}


def subst_json(kind):
    """(spec, params) of a substitution model alone"""
    if kind in ('HKY', 'GTR'):
        specs, params, target, opts = C10.case_subst(kind)
        if kind == 'HKY':
            params['kappa'] = P([3.0], 0.1, None)
        return specs[0], params
    if kind == 'GeneralSymmetric':  # 3 states, one rate per pair
        return ({'id': 'subst', 'type': 'GeneralSymmetricSubstitutionModel', 'data_type': GENERAL_DT, 'mapping': [0, 1, 2],
                 'rates': {'id': 'rates', 'type': 'Parameter', 'tensor': [0.8, 1.3, 2.1]},
                 'frequencies': {'id': 'freqs', 'type': 'Parameter', 'tensor': [0.2, 0.3, 0.5]}},
                {'rates': P([0.8, 1.3, 2.1], 0.01, None), 'freqs': P([0.2, 0.3, 0.5], 0.01, None)})
    if kind == 'GeneralNonSymmetric':  # 3 states, 6 rates, torch.matrix_exp
        return ({'id': 'subst', 'type': 'GeneralNonSymmetricSubstitutionModel', 'data_type': GENERAL_DT, 'mapping': [0, 1, 2, 3, 4, 5],
                 'rates': {'id': 'rates', 'type': 'Parameter', 'tensor': [0.8, 1.3, 2.1, 0.6, 1.7, 1.1]},
                 'frequencies': {'id': 'freqs', 'type': 'Parameter', 'tensor': [0.2, 0.3, 0.5]}},
                {'rates': P([0.8, 1.3, 2.1, 0.6, 1.7, 1.1], 0.01, None), 'freqs': P([0.2, 0.3, 0.5], 0.01, None)})
    raise KeyError(kind)


def case_subst(kind, what):
    """q() or p_t(t) of a substitution model as the differentiated quantity (weighted sum of the entries)"""
    sm, params = subst_json(kind)
    specs = [sm]
    if what == 'p_t':
        specs.append({'id': 't', 'type': 'Parameter', 'tensor': [0.3]})
        params['t'] = P([0.3], 0.001, None)
    return specs, params, 'subst', {'evaluate': what, 'weighted': True}


SIG_DEGENERATE = 'eigen:nan-gradient-at-repeated-eigenvalue'


def case_degenerate(kind):
    """interior points of the domain at which the rate matrix has a repeated eigenvalue: HKY at kappa = 1 (F81: eigenvalue -beta three
    times), GTR with six equal exchangeabilities (the same matrix).  The density is smooth there; the case starts the exploration AT
    that point, so the witness cross-check (torch.autograd vs finite differences on the real model) is made there"""
    if kind == 'HKY':
        specs, params, target, opts = C10.case_likelihood('unrooted', 'constant', 'HKY')
        start = {'kappa[0]': 1.0}
    else:
        specs, params, target, opts = C10.case_likelihood('unrooted', 'constant', 'GTR')
        start = {f'rates[{i}]': 1.0 for i in range(6)}
    note = (' [an interior point of the domain at which the normalised rate matrix has the eigenvalue -beta three times: torch.linalg.eigh '
            'has no finite derivative there (1 / (e_i - e_j) in its backward), SymmetricSubstitutionModel.p_t differentiates through it, '
            'and the log-likelihood - smooth at this point - receives NaN gradients for every substitution-model parameter]')
    return specs, params, target, {'start': start, 'witness_signature': SIG_DEGENERATE, 'witness_note': note}


def case_like_general(kind):
    """likelihood over a 3-state alphabet with the general (a)symmetric model on an unrooted tree"""
    sm, params = subst_json(kind)
    sm = dict(sm, data_type='dt')
    taxa = cm.taxa_json(3)
    tree = cm.unrooted_tree_json(((0, 1), 2), 3)
    tree['taxa'] = taxa
    params['tree.blens'] = P([0.1, 0.2, 0.15], 0.001, None)
    aln = cm.alignment_json({'t0': 'abca', 't1': 'bcab', 't2': 'cabb'}, datatype='dt', taxa='taxa')
    like = {'id': 'm', 'type': 'TreeLikelihoodModel', 'tree_model': tree, 'site_model': {'id': 'site', 'type': 'ConstantSiteModel'},
            'substitution_model': sm, 'site_pattern': {'id': 'sp', 'type': 'SitePattern', 'alignment': aln}}
    return [dict(GENERAL_DT), like], params, 'm', {}


def case_gmrf_time(rescale, integrated=False):
    taxa = cm.taxa_json(3)
    tree = cm.time_tree_json(((0, 1), 2), 3)
    tree['taxa'] = taxa
    params = {'field': P([0.1, 0.5]), 'tree.heights': P([1.0, 2.5], 0.01, None)}
    if integrated:
        m = {'id': 'm', 'type': 'GMRFGammaIntegrated', 'x': {'id': 'field', 'type': 'Parameter', 'tensor': [0.1, 0.5]},
             'shape': 1.5, 'rate': 0.5, 'tree_model': tree, 'rescale': rescale}
    else:
        m = {'id': 'm', 'type': 'GMRF', 'x': {'id': 'field', 'type': 'Parameter', 'tensor': [0.1, 0.5]},
             'precision': {'id': 'tau', 'type': 'Parameter', 'tensor': [1.5]}, 'tree_model': tree, 'rescale': rescale}
        params['tau'] = P([1.5], 0.01, None)
    return [m], params, 'm', {'heights_order': True}


def case_gmrf_integrated():
    m = {'id': 'm', 'type': 'GMRFGammaIntegrated', 'x': {'id': 'field', 'type': 'Parameter', 'tensor': [0.1, 0.5, 0.2]},
         'shape': 1.5, 'rate': 0.5}
    return [m], {'field': P([0.1, 0.5, 0.2])}, 'm', {}


def case_gmrf_weights(integrated=False):
    """weighted squared differences; the weights are a Parameter (a differentiation leaf like any other)"""
    specs, params, target, opts = case_gmrf_integrated() if integrated else C10.case_gmrf()
    specs[0]['weights'] = {'id': 'w', 'type': 'Parameter', 'tensor': [0.7, 1.4]}
    params['w'] = P([0.7, 1.4], 0.01, None)
    return specs, params, target, opts


def case_gmrf_covariate():
    m = {'id': 'm', 'type': 'GMRFCovariate', 'field': {'id': 'field', 'type': 'Parameter', 'tensor': [0.1, 0.5, 0.2]},
         'precision': {'id': 'tau', 'type': 'Parameter', 'tensor': [1.5]},
         'covariates': [[1.0, 0.3], [0.5, -0.2], [0.25, 0.9]],
         'beta': {'id': 'beta', 'type': 'Parameter', 'tensor': [0.7, -0.4]}}
    return [m], {'field': P([0.1, 0.5, 0.2]), 'tau': P([1.5], 0.01, None), 'beta': P([0.7, -0.4])}, 'm', {}


def case_gmrf_chain():
    """time-aware GMRF on a ratio-parameterised tree: ratios / root height -> heights -> argsort -> durations"""
    tree, params = ratio_tree()
    m = {'id': 'm', 'type': 'GMRF', 'x': {'id': 'field', 'type': 'Parameter', 'tensor': [0.1, 0.5]},
         'precision': {'id': 'tau', 'type': 'Parameter', 'tensor': [1.5]}, 'tree_model': tree, 'rescale': True}
    params.update({'field': P([0.1, 0.5]), 'tau': P([1.5], 0.01, None)})
    return [m], params, 'm', {}


def case_coalescent_integrated(chain=False):
    if chain:
        tree, params = ratio_tree()
        opts = {}
    else:
        taxa = cm.taxa_json(3)
        tree = cm.time_tree_json(((0, 1), 2), 3)
        tree['taxa'] = taxa
        params = {'tree.heights': P([1.0, 2.5], 0.01, None)}
        opts = {'heights_order': True}
    m = {'id': 'm', 'type': 'ConstantCoalescentIntegratedModel', 'alpha': 2.5, 'beta': 1.5, 'tree_model': tree}
    return [m], params, 'm', opts


def case_coalescent_chain(kind, parameterisation):
    """coalescent densities w.r.t. the node heights THROUGH the ratio (GeneralNodeHeightTransform) or the shift
    (DifferenceNodeHeightTransform) parameterisation; the grid point 1.7 of the grid models is compared with heights
    that are products / sums of the parameters"""
    specs, params, target, opts = C10.case_plinear() if kind == 'piecewise-linear' else C10.case_coalescent(kind)
    tree, tparams = ratio_tree() if parameterisation == 'ratio' else shift_tree()
    specs[0]['tree_model'] = tree
    del params['tree.heights']
    params = dict(tparams, **params)
    return specs, params, target, {}


DATES4 = [0.0, 0.3, 0.6, 0.1]  # tip heights of t0..t3 ("time starts at 0": the date is the height)
SEQS4 = {'t0': 'ACRA', 't1': 'CG-C', 't2': 'GTNG', 't3': 'ATTA'}


def tree4(parameterisation, topology=((0, 1), (2, 3))):
    """4 heterochronous taxa: two ratios (one per cherry; the preorder loop of GeneralNodeHeightTransform writes both into the
    clone) with lower bounds max(date of the descendants), or three shifts with max() over children of different heights"""
    taxa = cm.taxa_json(4, DATES4)
    if parameterisation == 'ratio':
        tree = cm.ratio_tree_json(topology, 4)
        params = {'tree.ratios': P([0.4, 0.7], 0.01, 0.99), 'tree.root_height': P([3.0], 0.7, None)}
    else:
        tree = cm.shift_tree_json(topology, 4)
        params = {'tree.shifts': P([1.0, 0.5, 1.5], 0.01, None)}
    tree['taxa'] = taxa
    return tree, params


CATERPILLAR4 = (((0, 1), 2), 3)


def case_chain4(kind, parameterisation, topology=((0, 1), (2, 3))):
    tree, params = tree4(parameterisation, topology)
    if kind == 'jacobian':
        return [tree], params, 'tree', {}
    if kind == 'likelihood':
        specs, lparams, target, opts = C10.case_likelihood('strict', 'weibull', 'HKY', categories=2)
        specs[0]['tree_model'] = tree
        specs[0]['site_pattern']['alignment'] = cm.alignment_json(SEQS4, taxa='taxa')
        del lparams['tree.heights']
        lparams['rate'] = P([0.05], 0.001, None)
        specs[0]['branch_model']['rate']['tensor'] = [0.05]
        return specs, dict(params, **lparams), target, {}
    specs, cparams, target, opts = C10.case_coalescent(kind)
    specs[0]['tree_model'] = tree
    del cparams['tree.heights']
    if kind == 'skyride':
        specs[0]['theta']['tensor'] = [2.0, 3.0, 2.5]
        cparams['theta'] = P([2.0, 3.0, 2.5], 0.01, None)
    return specs, dict(params, **cparams), target, {'max_regions': 80}


def case_likelihood_shift():
    """JC69 + Weibull likelihood through a strict clock on a shift-parameterised tree (DifferenceNodeHeightTransform)"""
    specs, params, target, opts = case_chain('likelihood')
    tree, tparams = shift_tree()
    specs[0]['tree_model'] = tree
    for k in ('tree.ratios', 'tree.root_height'):
        del params[k]
    return specs, dict(tparams, **params), target, opts


BDSK_DATES = [0.5, 0.0, 0.2]  # tip heights of t0, t1, t2 ("time starts at 0": the date is the height)


def case_bdsk(m=1, survival=True, serial=True, rho=True, times=None, removal=False):
    """BDSKModel -> PiecewiseConstantBirthDeath on ((t0,t1),t2), origin given; epochs of equal length origin / m, or
    (times='abs' | 'rel', m = 2) rate-shift times given as a parameter [t_0, t_1] (absolute, or fractions of the origin)"""
    taxa = cm.taxa_json(3, BDSK_DATES if serial else None)
    tree = cm.time_tree_json(((0, 1), 2), 3)
    tree['taxa'] = taxa
    R, dl, s = [1.5, 1.1, 1.3][:m], [1.2, 0.9, 1.0][:m], [0.3, 0.45, 0.4][:m]
    js = {'id': 'm', 'type': 'BDSKModel', 'tree_model': tree,
          'R': {'id': 'R', 'type': 'Parameter', 'tensor': R}, 'delta': {'id': 'delta', 'type': 'Parameter', 'tensor': dl},
          's': {'id': 's', 'type': 'Parameter', 'tensor': s}, 'origin': {'id': 'origin', 'type': 'Parameter', 'tensor': [4.0]},
          'survival': survival}
    params = {'R': P(R, 0.05, None), 'delta': P(dl, 0.05, None), 's': P(s, 0.02, 0.95), 'origin': P([4.0], None, None),
              'tree.heights': P([1.0, 2.5], 0.5 if serial else 0.01, None)}
    if rho:
        js['rho'] = {'id': 'rho', 'type': 'Parameter', 'tensor': [0.2]}
        params['rho'] = P([0.2], 0.01, 0.95)
    if removal:
        js['removal_probability'] = {'id': 'r', 'type': 'Parameter', 'tensor': [0.7][:m]}
        params['r'] = P([0.7][:m], 0.02, 0.98)
    if times:
        tv = [0.0, 1.5] if times == 'abs' else [0.0, 0.4]
        js['times'] = {'id': 'times', 'type': 'Parameter', 'tensor': tv}
        js['relative_times'] = times == 'rel'
        params['times'] = P(tv, -0.1, None)

    def domain(d, V):
        cs = [d.lt(V['tree.heights[1]'], V['origin[0]'])]
        if times:
            cs += [d.lt(d.const(0.2), V['times[1]']),
                   d.lt(V['times[1]'], V['origin[0]'] if times == 'abs' else d.const(0.95))]
        return cs

    # bdsk.py compares tip times with epoch boundaries by `==`: an equality among the path conditions of a region is a tie
    opts = {'heights_order': True, 'domain': domain, 'max_regions': 60, 'event_time_equalities': True}
    if times:
        opts['fixed'] = ('times[0]',)  # the process starts at time 0: not a free parameter
    return [js], params, 'm', opts


def case_bdsk4(m=2, survival=True):
    """BDSKModel on 4 heterochronous taxa, balanced topology ((t0,t1),(t2,t3)); internal heights [h(t0,t1), h(t2,t3), root]"""
    specs, params, target, opts = case_bdsk(m, survival, True)
    tree = cm.time_tree_json(((0, 1), (2, 3)), 4)
    tree['taxa'] = cm.taxa_json(4, DATES4)
    tree['internal_heights']['tensor'] = [1.0, 1.6, 2.5]
    specs[0]['tree_model'] = tree
    params['tree.heights'] = P([1.0, 1.6, 2.5], 0.01, None)

    def domain(d, V):
        h = [V[f'tree.heights[{i}]'] for i in range(3)]
        return [d.lt(d.const(0.3), h[0]), d.lt(d.const(0.6), h[1]), d.lt(h[0], h[2]), d.lt(h[1], h[2]), d.lt(h[2], V['origin[0]'])]

    return specs, params, target, {'domain': domain, 'max_regions': 150, 'event_time_equalities': True}


def case_birthdeath(survival=True, serial=True):
    """BirthDeathModel -> BirthDeath (constant rates), origin given"""
    taxa = cm.taxa_json(3, BDSK_DATES if serial else None)
    tree = cm.time_tree_json(((0, 1), 2), 3)
    tree['taxa'] = taxa
    js = {'id': 'm', 'type': 'BirthDeathModel', 'tree_model': tree,
          'lambda': {'id': 'lambda', 'type': 'Parameter', 'tensor': [1.8]}, 'mu': {'id': 'mu', 'type': 'Parameter', 'tensor': [0.9]},
          'psi': {'id': 'psi', 'type': 'Parameter', 'tensor': [0.4]}, 'rho': {'id': 'rho', 'type': 'Parameter', 'tensor': [0.2]},
          'origin': {'id': 'origin', 'type': 'Parameter', 'tensor': [4.0]}, 'survival': survival}
    params = {'lambda': P([1.8], 0.05, None), 'mu': P([0.9], 0.05, None), 'psi': P([0.4], 0.05, None), 'rho': P([0.2], 0.01, 0.95),
              'origin': P([4.0], None, None), 'tree.heights': P([1.0, 2.5], 0.5 if serial else 0.01, None)}

    def domain(d, V):
        return [d.lt(V['tree.heights[1]'], V['origin[0]'])]

    return [js], params, 'm', {'heights_order': True, 'domain': domain}


# ---- the evaluation that switches rescaling on (calculate_treelikelihood_discrete_safe) and the one after it
_THRESHOLDS = {}


def partial_minima(case):
    """min over sites / categories of the per-site maximum of every internal node's partials after the plain pass at the case's
    initial point (real model, plain tensors): what calculate_treelikelihood_discrete_safe compares with model.threshold"""
    specs, params, target, opts = case
    plain = (specs, params, target, {k: v for k, v in opts.items() if k not in ('switch', 'threshold', 'history')})
    with torch.no_grad():
        A, _, _ = run_case(plain, plain_mk(plain, {}), 'value')
    parts = A[target].partials
    n = len(parts)
    return [float(parts[node].max(-2)[0].min()) for node in range((n + 1) // 2, n)]


def case_switch(tree_kind, subst, below, second=False, taxa4=False):
    """TreeLikelihoodModel, tip partials, Weibull(2): the call on which the plain pass is declared to have underflowed (underflow
    oracle) so that calculate_treelikelihood_discrete_safe runs with model.threshold = a value chosen so that at the initial point
    `below` = 'all' (every internal node), 'root' (only the root) or a tuple of internal-node offsets (plus the root) has a site whose
    largest partial is below it; the threshold comparisons and the per-site maxima are path conditions"""
    if taxa4:
        specs, params, target, opts = C10.case_likelihood('unrooted', 'weibull', subst, categories=2, rescale=True)
        tree = cm.unrooted_tree_json(((0, 1), (2, 3)), 4)
        tree['taxa'] = cm.taxa_json(4)
        specs[0]['tree_model'] = tree
        specs[0]['site_pattern']['alignment'] = cm.alignment_json({'t0': 'ACGA', 't1': 'CGTC', 't2': 'GTAG', 't3': 'GAAT'}, taxa='taxa')
        params['tree.blens'] = P([0.1, 0.2, 0.9, 1.3, 0.25], 0.001, None)
    elif tree_kind == 'ratio':
        specs, params, target, opts = case_chain_eigen(subst, 'weibull', rescale=True) if subst != 'JC69' else case_chain('likelihood-rescaled')
        if subst == 'JC69':
            specs[0]['site_pattern']['alignment'] = cm.alignment_json(C10.SEQS_RESCALED, taxa='taxa')
    else:
        specs, params, target, opts = C10.case_likelihood('unrooted', 'weibull', subst, categories=2, rescale=True)
    opts = {'switch': 'second' if second else 'first', 'below': below}
    key = (tree_kind, subst, below, taxa4)
    if key not in _THRESHOLDS:
        mins = partial_minima((specs, params, target, opts))
        if below == 'all':
            thr = 1.0
        else:
            inside = [mins[-1]] if below == 'root' else [mins[i] for i in below]
            outside = mins[:-1] if below == 'root' else [m for i, m in enumerate(mins[:-1]) if i not in below]
            if not max(inside) < min(outside):
                raise RuntimeError(f'no threshold puts exactly the nodes {below} below it: minima of the per-site maxima {mins}')
            thr = math.sqrt(max(inside) * min(outside))
        _THRESHOLDS[key] = (thr, mins)
    opts['threshold'], opts['minima'] = _THRESHOLDS[key]
    return specs, params, target, opts


# ---- two-evaluation histories on ONE model object
NEWICK_LENGTHS = '((t0:1.0,t1:1.0):1.5,t2:2.5);'  # heights 1.0 and 2.5: shifts [1.0, 1.5], ratio 0.4 of root height 2.5


def build_single_parameter_tree(specs):
    """ReparameterizedTimeTreeModel built through its public constructor with ONE plain Parameter [ratio, root height] (what a user
    who does not go through JSON writes; from_json joins two Parameters in a CatParameter instead), then the models that refer to it"""
    from torchtree.core.parameter import Parameter
    from torchtree.core.utils import process_object, process_objects
    from torchtree.evolution.tree_model import ReparameterizedTimeTreeModel, initialize_dates_from_taxa, parse_tree

    dic = {}
    taxa = process_object(cm.taxa_json(3), dic)
    dtree = parse_tree(taxa, {'newick': cm.to_newick(((0, 1), 2))})
    initialize_dates_from_taxa(dtree, taxa)
    dic['tree.rrh'] = Parameter('tree.rrh', torch.tensor([0.4, 3.0], dtype=torch.float64))
    dic['tree'] = ReparameterizedTimeTreeModel('tree', dtree, taxa, ratios_root_height=dic['tree.rrh'])
    for sp in specs:
        process_objects(sp, dic)
    return dic


def case_history(param, density, kind):
    """density on a tree-transform chain, evaluated twice on one model object with a change of the tree parameters in between
    (HISTORY_TEXT[kind]); param: 'ratio' (from_json: CatParameter of ratios and root height), 'shift' (from_json: one Parameter),
    'single' (public constructor with one ratios_root_height Parameter)"""
    opts = {}
    if param == 'single':
        tree, tparams = 'tree', {'tree.rrh': P([0.4, 3.0], None, None)}
        opts['builder'] = build_single_parameter_tree

        def domain(d, V):
            return [d.lt(d.const(0.01), V['tree.rrh[0]']), d.lt(V['tree.rrh[0]'], d.const(0.99)), d.lt(d.const(0.05), V['tree.rrh[1]'])]

        opts['domain'] = domain
    else:
        tree, tparams = ratio_tree() if param == 'ratio' else shift_tree()
        if kind == 'keep':
            tree['newick'] = NEWICK_LENGTHS
            tree['keep_branch_lengths'] = True
    if density == 'coalescent':
        specs = [{'id': 'm', 'type': 'ConstantCoalescentModel', 'theta': {'id': 'theta', 'type': 'Parameter', 'tensor': [2.0]}, 'tree_model': tree}]
        params = dict(tparams, theta=P([2.0], 0.01, None))
    else:
        specs, params, target, _ = case_chain('likelihood')
        specs[0]['tree_model'] = tree
        for k in ('tree.ratios', 'tree.root_height'):
            del params[k]
        params = dict(tparams, **params)
        if param == 'single':
            specs = [dict(cm.taxa_json(3))] + specs
            specs[1]['site_pattern']['alignment']['taxa'] = 'taxa'
            specs.pop(0)  # the builder creates the taxa itself; the alignment refers to them by id
    opts['history'] = {'kind': kind, 'tree': list(tparams)}
    return specs, params, 'm', opts


def case_plinear_alias():
    """two equal adjacent population sizes as an aliasing configuration: both grid values are ONE symbol, the segment between
    them is flat (theta_1 - theta_0 is the literal constant 0) on every region"""
    specs, params, target, opts = C10.case_plinear()
    return specs, params, target, dict(opts, alias={'theta': [0, 0]})


# C10's cases are differentiated as they are (every parameter un-batched); cases another builder adds to C10 under the
# prefixes below are batching scenarios of models that have their own gradient cases here
CASES = {k: v for k, v in C10.CASES.items()
         if not k.startswith(('bdsk:', 'birthdeath:', 'extra:', 'substitution:'))}
CASES.update({
    'chain:node-height log-Jacobian': lambda: case_chain('jacobian'),
    'chain:constant coalescent on exp-transformed theta, ratio tree': lambda: case_chain('coalescent'),
    'chain:likelihood JC69+Weibull on ratio tree with strict clock': lambda: case_chain('likelihood'),
    'chain:likelihood (rescaling active)': lambda: case_chain('likelihood-rescaled'),
    'chain:likelihood with tip states (rescaling active)': lambda: case_chain('likelihood-rescaled-tipstates'),
    'chain:joint = likelihood + coalescent + CTMC scale + Jacobian': lambda: case_chain('joint'),
    'gmrf:time-aware': lambda: case_gmrf_time(True),
    'gmrf:time-aware no rescale': lambda: case_gmrf_time(False),
    'coalescent:piecewise-linear': C10.case_plinear,
    # ---- gap 1: gradients through the eigendecomposition
    'eigen:chain likelihood HKY+Weibull, ratio tree, strict clock': lambda: case_chain_eigen('HKY', 'weibull'),
    'eigen:chain likelihood HKY+Weibull, tip states': lambda: case_chain_eigen('HKY', 'weibull', tip_states=True),
    'eigen:chain likelihood HKY+Invariant': lambda: case_chain_eigen('HKY', 'invariant'),
    'eigen:chain likelihood GTR+Weibull': lambda: case_chain_eigen('GTR', 'weibull'),
    'eigen:chain likelihood GTR+Invariant, tip states': lambda: case_chain_eigen('GTR', 'invariant', tip_states=True),
    'eigen:chain likelihood HKY+Weibull (rescaling active)': lambda: case_chain_eigen('HKY', 'weibull', rescale=True),
    'eigen:chain likelihood GTR+Invariant+mu, tip states (rescaling active)':
        lambda: case_chain_eigen('GTR', 'invariant', tip_states=True, rescale=True, mu=True),
    'eigen:likelihood GeneralSymmetric (3 states)': lambda: case_like_general('GeneralSymmetric'),
    'eigen:likelihood GeneralNonSymmetric (3 states, matrix_exp)': lambda: case_like_general('GeneralNonSymmetric'),
    'degenerate:likelihood HKY at kappa = 1 (repeated eigenvalue)': lambda: case_degenerate('HKY'),
    'degenerate:likelihood GTR at equal exchangeabilities (repeated eigenvalue)': lambda: case_degenerate('GTR'),
    'substitution:HKY.q': lambda: case_subst('HKY', 'q'),
    'substitution:GTR.q': lambda: case_subst('GTR', 'q'),
    'substitution:HKY.p_t': lambda: case_subst('HKY', 'p_t'),
    'substitution:GTR.p_t': lambda: case_subst('GTR', 'p_t'),
    'substitution:GeneralSymmetric.p_t': lambda: case_subst('GeneralSymmetric', 'p_t'),
    'substitution:GeneralNonSymmetric.p_t (matrix_exp)': lambda: case_subst('GeneralNonSymmetric', 'p_t'),
    # ---- the switching evaluation of the tree likelihood: calculate_treelikelihood_discrete_safe, and the evaluation after it
    'switch:first call, unrooted JC69+Weibull, every node below the threshold': lambda: case_switch('unrooted', 'JC69', 'all'),
    'switch:first call, unrooted JC69+Weibull, only the root below the threshold': lambda: case_switch('unrooted', 'JC69', 'root'),
    'switch:first call, ratio tree + strict clock JC69+Weibull, every node below the threshold': lambda: case_switch('ratio', 'JC69', 'all'),
    'switch:first call, ratio tree + strict clock JC69+Weibull, only the root below the threshold': lambda: case_switch('ratio', 'JC69', 'root'),
    'switch:first call, unrooted HKY+Weibull, every node below the threshold': lambda: case_switch('unrooted', 'HKY', 'all'),
    'switch:first call, unrooted HKY+Weibull, only the root below the threshold': lambda: case_switch('unrooted', 'HKY', 'root'),
    'switch:first call, ratio tree + strict clock HKY+Weibull, only the root below the threshold': lambda: case_switch('ratio', 'HKY', 'root'),
    'switch:first call, unrooted 4 taxa JC69+Weibull, (t0,t1) and the root below the threshold, (t2,t3) kept':
        lambda: case_switch('unrooted', 'JC69', (0,), taxa4=True),
    'switch:second call (after the switch), unrooted JC69+Weibull': lambda: case_switch('unrooted', 'JC69', 'all', second=True),
    'switch:second call (after the switch), ratio tree + strict clock HKY+Weibull': lambda: case_switch('ratio', 'HKY', 'root', second=True),
    'coalescent:piecewise-linear, two equal adjacent population sizes (one symbol)': case_plinear_alias,
    # ---- two evaluations of ONE model object with a change of the tree parameters in between
    'history:coalescent on ratio tree, assign': lambda: case_history('ratio', 'coalescent', 'assign'),
    'history:coalescent on ratio tree, inplace': lambda: case_history('ratio', 'coalescent', 'inplace'),
    'history:coalescent on ratio tree, requires_grad': lambda: case_history('ratio', 'coalescent', 'requires_grad'),
    'history:coalescent on ratio tree, requires_grad_': lambda: case_history('ratio', 'coalescent', 'requires_grad_'),
    'history:coalescent on ratio tree, keep': lambda: case_history('ratio', 'coalescent', 'keep'),
    'history:likelihood on ratio tree, assign': lambda: case_history('ratio', 'likelihood', 'assign'),
    'history:likelihood on ratio tree, inplace': lambda: case_history('ratio', 'likelihood', 'inplace'),
    'history:likelihood on ratio tree, requires_grad': lambda: case_history('ratio', 'likelihood', 'requires_grad'),
    'history:likelihood on ratio tree, requires_grad_': lambda: case_history('ratio', 'likelihood', 'requires_grad_'),
    'history:likelihood on ratio tree, keep': lambda: case_history('ratio', 'likelihood', 'keep'),
    'history:coalescent on shift tree, assign': lambda: case_history('shift', 'coalescent', 'assign'),
    'history:coalescent on shift tree, inplace': lambda: case_history('shift', 'coalescent', 'inplace'),
    'history:coalescent on shift tree, requires_grad': lambda: case_history('shift', 'coalescent', 'requires_grad'),
    'history:coalescent on shift tree, requires_grad_': lambda: case_history('shift', 'coalescent', 'requires_grad_'),
    'history:coalescent on shift tree, keep': lambda: case_history('shift', 'coalescent', 'keep'),
    'history:likelihood on shift tree, assign': lambda: case_history('shift', 'likelihood', 'assign'),
    'history:likelihood on shift tree, inplace': lambda: case_history('shift', 'likelihood', 'inplace'),
    'history:likelihood on shift tree, requires_grad': lambda: case_history('shift', 'likelihood', 'requires_grad'),
    'history:likelihood on shift tree, requires_grad_': lambda: case_history('shift', 'likelihood', 'requires_grad_'),
    'history:likelihood on shift tree, keep': lambda: case_history('shift', 'likelihood', 'keep'),
    'history:coalescent on single tree, assign': lambda: case_history('single', 'coalescent', 'assign'),
    'history:coalescent on single tree, inplace': lambda: case_history('single', 'coalescent', 'inplace'),
    'history:coalescent on single tree, requires_grad': lambda: case_history('single', 'coalescent', 'requires_grad'),
    'history:coalescent on single tree, requires_grad_': lambda: case_history('single', 'coalescent', 'requires_grad_'),
    'history:likelihood on single tree, assign': lambda: case_history('single', 'likelihood', 'assign'),
    'history:likelihood on single tree, inplace': lambda: case_history('single', 'likelihood', 'inplace'),
    'history:likelihood on single tree, requires_grad': lambda: case_history('single', 'likelihood', 'requires_grad'),
    'history:likelihood on single tree, requires_grad_': lambda: case_history('single', 'likelihood', 'requires_grad_'),
    # ---- gap 2: birth-death models
    'bdsk:1 epoch, survival, serial tips': lambda: case_bdsk(1, True, True),
    'bdsk:1 epoch, no survival, serial tips': lambda: case_bdsk(1, False, True),
    'bdsk:1 epoch, survival, contemporaneous tips': lambda: case_bdsk(1, True, False),
    'bdsk:2 epochs, survival, serial tips': lambda: case_bdsk(2, True, True),
    'bdsk:2 epochs, no survival, serial tips': lambda: case_bdsk(2, False, True),
    'bdsk:2 epochs, survival, contemporaneous tips': lambda: case_bdsk(2, True, False),
    'bdsk:2 epochs, no survival, contemporaneous tips': lambda: case_bdsk(2, False, False),
    'bdsk:1 epoch, no survival, contemporaneous tips': lambda: case_bdsk(1, False, False),
    'bdsk:3 epochs, survival, serial tips': lambda: case_bdsk(3, True, True),
    'bdsk:2 epochs, absolute shift times given, serial tips': lambda: case_bdsk(2, True, True, times='abs'),
    'bdsk:2 epochs, relative shift times given, serial tips': lambda: case_bdsk(2, True, True, times='rel'),
    'bdsk:1 epoch, removal probability, serial tips': lambda: case_bdsk(1, True, True, removal=True),
    'bdsk:1 epoch, no rho parameter (rho = 0), serial tips': lambda: case_bdsk(1, True, True, rho=False),
    'bdsk:2 epochs, survival, 4 heterochronous taxa': lambda: case_bdsk4(2, True),
    'bdsk:1 epoch, no survival, 4 heterochronous taxa': lambda: case_bdsk4(1, False),
    'birthdeath:survival, serial tips': lambda: case_birthdeath(True, True),
    'birthdeath:no survival, serial tips': lambda: case_birthdeath(False, True),
    'birthdeath:survival, contemporaneous tips': lambda: case_birthdeath(True, False),
    'birthdeath:no survival, contemporaneous tips': lambda: case_birthdeath(False, False),
    # ---- gap 3: remaining densities
    'likelihood:unrooted/weibull+invariant+mu/JC69': case_site_invariant_mu,
    'likelihood:unrooted/invariant+mu/JC69': lambda: C10.case_likelihood('unrooted', 'invariant', 'JC69', mu=True)[:3] + ({},),
    'likelihood:strict/weibull+mu/JC69 tip states': lambda: C10.case_likelihood('strict', 'weibull', 'JC69', mu=True, tip_states=True)[:3]
    + ({'heights_order': True},),
    'gmrf:integrated (GMRFGammaIntegrated)': case_gmrf_integrated,
    'gmrf:integrated time-aware': lambda: case_gmrf_time(True, integrated=True),
    'gmrf:integrated time-aware no rescale': lambda: case_gmrf_time(False, integrated=True),
    'gmrf:covariate (GMRFCovariate)': case_gmrf_covariate,
    'gmrf:weights': lambda: case_gmrf_weights(False),
    'gmrf:integrated weights': lambda: case_gmrf_weights(True),
    'chain:time-aware GMRF on ratio tree': case_gmrf_chain,
    'coalescent:constant integrated (ConstantCoalescentIntegrated)': lambda: case_coalescent_integrated(False),
    'chain:constant integrated coalescent on ratio tree': lambda: case_coalescent_integrated(True),
    'chain:skygrid on ratio tree': lambda: case_coalescent_chain('skygrid', 'ratio'),
    'chain:skyride on ratio tree': lambda: case_coalescent_chain('skyride', 'ratio'),
    'chain:exponential coalescent on ratio tree': lambda: case_coalescent_chain('exponential', 'ratio'),
    'chain:piecewise-linear coalescent on ratio tree': lambda: case_coalescent_chain('piecewise-linear', 'ratio'),
    'chain:constant coalescent on shift tree': lambda: case_coalescent_chain('constant', 'shift'),
    'chain:skygrid on shift tree': lambda: case_coalescent_chain('skygrid', 'shift'),
    'chain:skyride on shift tree': lambda: case_coalescent_chain('skyride', 'shift'),
    'chain:exponential coalescent on shift tree': lambda: case_coalescent_chain('exponential', 'shift'),
    'chain:piecewise-linear coalescent on shift tree': lambda: case_coalescent_chain('piecewise-linear', 'shift'),
    'chain:likelihood JC69+Weibull on shift tree with strict clock': case_likelihood_shift,
    # 4 heterochronous taxa, balanced topology
    'chain4:node-height log-Jacobian, ratio tree': lambda: case_chain4('jacobian', 'ratio'),
    'chain4:constant coalescent, ratio tree': lambda: case_chain4('constant', 'ratio'),
    'chain4:constant coalescent, shift tree': lambda: case_chain4('constant', 'shift'),
    'chain4:skyride, ratio tree': lambda: case_chain4('skyride', 'ratio'),
    'chain4:skygrid, shift tree': lambda: case_chain4('skygrid', 'shift'),
    'chain4:likelihood HKY+Weibull, ratio tree, strict clock': lambda: case_chain4('likelihood', 'ratio'),
    'chain4:likelihood HKY+Weibull, shift tree, strict clock': lambda: case_chain4('likelihood', 'shift'),
    # 4 heterochronous taxa, caterpillar topology (thorough tier)
    'chain4c:node-height log-Jacobian, ratio tree, caterpillar': lambda: case_chain4('jacobian', 'ratio', CATERPILLAR4),
    'chain4c:constant coalescent, ratio tree, caterpillar': lambda: case_chain4('constant', 'ratio', CATERPILLAR4),
    'chain4c:skygrid, ratio tree, caterpillar': lambda: case_chain4('skygrid', 'ratio', CATERPILLAR4),
    'chain4c:constant coalescent, shift tree, caterpillar': lambda: case_chain4('constant', 'shift', CATERPILLAR4),
    'chain4c:likelihood HKY+Weibull, ratio tree, strict clock, caterpillar': lambda: case_chain4('likelihood', 'ratio', CATERPILLAR4),
})


def weights(n):
    return [1.0 + k / 8.0 for k in range(n)]


# ------------------------------------------------------------------ variables of a case
def elem_names(p, n, opts):
    """variable name of every element of parameter p (opts['alias'][p][i] = index of the symbol element i shares)"""
    al = opts.get('alias', {}).get(p)
    return [f'{p}[{al[i] if al else i}]' for i in range(n)]


def leaf_names(params, opts):
    """{parameter: distinct variable names in order of first use}"""
    out = {}
    for p, (vals, lo, hi) in params.items():
        seen = []
        for nm in elem_names(p, len(vals), opts):
            if nm not in seen:
                seen.append(nm)
        out[p] = seen
    return out


def initial_witness(params, opts):
    W = {}
    for p, (vals, lo, hi) in params.items():
        for nm, v in zip(elem_names(p, len(vals), opts), vals):
            W.setdefault(nm, float(v))
    W.update(opts.get('start', {}))
    return W


# ------------------------------------------------------------------ the switching evaluation (underflow oracle)
ORACLE_STUB = ('torch.isinf(log_p) in TreeLikelihoodModel.calculate_with_tip_partials is an underflow oracle that answers True on the '
               'first evaluation of the model (over the reals, and on 3-4 taxa in float64, the plain pass never underflows)')


class underflow_oracle:
    """torch.isinf answers "every entry is infinite" for its first `n` calls inside the block: the evaluation on which the plain
    pass is declared to have underflowed and calculate_treelikelihood_discrete_safe runs.  The same patch serves the symbolic run
    (the answer is a plain bool tensor: no path condition) and the concrete replay on plain tensors."""

    def __init__(self, n=1):
        self.n = n

    def __enter__(self):
        self.real = torch.isinf
        left = [self.n]
        real = self.real

        def fake(x):
            if left[0] > 0:
                left[0] -= 1
                return torch.ones(tuple(x.shape), dtype=torch.bool)
            return real(x)

        torch.isinf = fake
        return self

    def __exit__(self, *exc):
        torch.isinf = self.real
        return False


def evaluate_case(A, target, opts, params=()):
    """the tensor whose (weighted) sum is differentiated; same code for SymTensors and plain tensors"""
    obj = A[target]
    ev = opts.get('evaluate')
    if ev == 'q':
        return obj.q()
    if ev == 'p_t':
        return obj.p_t(A['t'].tensor.unsqueeze(-1))
    if opts.get('rescale'):
        obj.rescale = True
    if opts.get('switch'):
        # the call on which the plain pass reports -inf (oracle) and calculate_treelikelihood_discrete_safe runs with the
        # model's threshold; opts['switch'] == 'second': the evaluation AFTER it (the model has set its rescale flag itself)
        obj.threshold = opts['threshold']
        with underflow_oracle(1):
            val = obj()
        if not obj.rescale:
            raise RuntimeError('the underflow oracle did not switch rescaling on')
        if opts['switch'] == 'second':
            for p in params:  # a change event: the model would otherwise return its cached value
                A[p].tensor = A[p].tensor
            val = obj()
        return val
    return obj()


def scalar_of(val, opts):
    """plain tensors: the differentiated scalar"""
    if opts.get('weighted'):
        flat = val.reshape(-1)
        return (flat * torch.tensor(weights(flat.numel()), dtype=flat.dtype)).sum()
    return val.sum()


# ------------------------------------------------------------------ one evaluation of a case, with its history
HISTORY_TEXT = {
    'assign': 'evaluate at the JSON values; assign fresh tensors to the tree parameters (parameter.tensor = ...); evaluate',
    'inplace': 'evaluate; write the new values INTO the same tensor objects (tensor[...] = v, optimiser idiom) + fire_parameter_changed(); evaluate',
    'keep': 'model built by from_json with keep_branch_lengths (the parameter tensor is the one transform.inv returned); evaluate; '
            'write in place + fire_parameter_changed(); evaluate',
    'requires_grad': 'every parameter first does not require grad; evaluate; parameter.requires_grad = True on the same tensor objects; evaluate',
    'requires_grad_': 'every parameter first does not require grad; evaluate; tensor.requires_grad_() on the same objects + '
                      'fire_parameter_changed(); evaluate',
}


def build_case(specs, opts):
    if opts.get('builder'):
        register()
        C10.register()
        return opts['builder'](specs)
    return build(specs)


def run_case(case, mk, mode):
    """Build the model of a case, drive it through the case's history and return (A, value of the LAST evaluation, leaves).
    mk(p, requires_grad) -> tensor with the current value of parameter p (symbols in mode 'sym').
    mode 'sym'  : under tracing, SymTensors
         'grad' : plain tensors, real autograd; leaves = {p: tensor whose .grad is read after backward}
         'value': plain or symbolic, a FRESH model evaluated once at the current values (no history): the reference"""
    specs, params, target, opts = case
    A = build_case(specs, opts)
    hist = opts.get('history') if mode != 'value' else None
    leaves = {}

    def ev():
        return evaluate_case(A, target, opts, list(params))

    if hist is None:
        for p in params:
            leaves[p] = mk(p, mode == 'grad')
            A[p].tensor = leaves[p]
        return A, ev(), leaves
    kind, tp = hist['kind'], hist['tree']
    others = [p for p in params if p not in tp]
    if kind == 'assign':
        for p in others:
            leaves[p] = mk(p, mode == 'grad')
            A[p].tensor = leaves[p]
        ev()
        for p in tp:
            leaves[p] = mk(p, mode == 'grad')
            A[p].tensor = leaves[p]
    elif kind in ('inplace', 'keep'):
        for p in others:
            leaves[p] = mk(p, mode == 'grad')
            A[p].tensor = leaves[p]
        if mode == 'grad':
            # optimiser idiom: the tensors require grad, a first evaluation is back-propagated, then the step is written in place
            for p in tp:
                A[p].tensor.requires_grad_(True)
                A[p].fire_parameter_changed()
            # (retain_graph: parameters that are NOT touched by the step - site-model shape, clock rate - keep values cached
            # by their models, e.g. the site rates, whose graph the second backward() walks again)
            scalar_of(ev(), opts).backward(retain_graph=True)
            with torch.no_grad():
                for p in tp:
                    A[p].tensor.copy_(mk(p, False))
            for p in tp:
                A[p].fire_parameter_changed()
                leaves[p] = A[p].tensor
            for x in leaves.values():
                x.grad = None
        else:
            ev()
            for p in tp:
                A[p].tensor[...] = mk(p, False)
                A[p].fire_parameter_changed()
    elif kind in ('requires_grad', 'requires_grad_'):
        for p in params:
            leaves[p] = mk(p, False)
            A[p].tensor = leaves[p]
        if mode == 'sym':
            # no leaf requires grad yet: torch records no history for anything computed now - which is what no_grad does
            with torch.no_grad():
                ev()
        else:
            ev()
        for p in params:
            if kind == 'requires_grad':
                A[p].requires_grad = True
            else:
                A[p].tensor.requires_grad_()
                A[p].fire_parameter_changed()
    else:
        raise KeyError(kind)
    return A, ev(), leaves


def plain_mk(case, vals):
    specs, params, target, opts = case

    def mk(p, rg):
        base = params[p][0]
        names = elem_names(p, len(base), opts)
        uniq = leaf_names(params, opts)[p]
        x = torch.tensor([vals.get(nm, initial_witness(params, opts)[nm]) for nm in uniq], dtype=torch.float64, requires_grad=rg)
        if len(uniq) != len(names):  # aliased elements: one leaf feeds several elements, autograd sums
            mk.alias[p] = x
            return x[[uniq.index(nm) for nm in names]]
        return x

    mk.alias = {}
    return mk


_DERIV = re.compile(r'^d\d+~')


def has_derivative_symbols(d, nodes):
    return any(_DERIV.match(name) for name in d.ufs([n for n in nodes if n not in (0, 1)]))


def structural_region_keys(d):
    """The explorer identifies a region by the printed form of its path conditions (to_str with depth 50: a TREE expansion).
    With 16-argument eigen symbols nested in the path conditions of the rescaled kernels that expansion takes tens of
    seconds; on C12's DAGs the deep form is replaced by a structural digest of the node (same structure <=> same digest),
    the shallow forms used for messages and samples are unchanged."""
    import hashlib

    orig = d.to_str
    memo = {}

    def digest(n):
        for m in d.topo([n]):
            if m not in memo:
                a = d.args[m]
                if d.ops[m] in ('const', 'var', 'bconst'):
                    body_ = repr(a)
                elif d.ops[m] == 'ipow':
                    body_ = f'{memo[a[0]]}^{a[1]}'
                elif d.ops[m] == 'uf':
                    body_ = a[0] + ','.join(memo[x] for x in a[1:])
                else:
                    body_ = ','.join(memo[x] for x in a)
                memo[m] = hashlib.sha1((d.ops[m] + ':' + body_).encode()).hexdigest()[:20]
        return memo[n]

    def to_str(n, depth=6):
        return digest(n) if depth >= 50 else orig(n, depth)

    d.to_str = to_str


def unstop(d, roots):
    """the same expressions with every stop(x) replaced by x.  A stop node is the identity as a VALUE (it only cuts
    differentiation): two gradients that differ only by stop wrappers inside their operands are the same function, and are
    recognised as such by hash-consing instead of being sent to the solver."""
    out = {}
    for n in d.topo(list(roots)):
        op, a = d.ops[n], d.args[n]
        if op in ('const', 'var', 'bconst'):
            out[n] = n
        elif op == 'stop':
            out[n] = out[a[0]]
        elif op == 'add':
            out[n] = d.add(out[a[0]], out[a[1]])
        elif op == 'mul':
            out[n] = d.mul(out[a[0]], out[a[1]])
        elif op == 'div':
            out[n] = d.div(out[a[0]], out[a[1]])
        elif op == 'ipow':
            out[n] = d.ipow(out[a[0]], a[1])
        elif op == 'ite':
            out[n] = d.ite(out[a[0]], out[a[1]], out[a[2]])
        elif op == 'uf':
            out[n] = d.uf(a[0], *[out[x] for x in a[1:]])
        elif op == 'le':
            out[n] = d.le(out[a[0]], out[a[1]])
        elif op == 'lt':
            out[n] = d.lt(out[a[0]], out[a[1]])
        elif op == 'eq':
            out[n] = d.eq(out[a[0]], out[a[1]])
        elif op == 'and':
            out[n] = d.and_(*[out[c] for c in a])
        elif op == 'or':
            out[n] = d.or_(*[out[c] for c in a])
        elif op == 'not':
            out[n] = d.not_(out[a[0]])
        else:
            raise KeyError(op)
    return [out[r] for r in roots]


def dead_branch_goal(t, out, cname):
    """torch.where / masked_fill evaluate both branches and send a zero gradient through the unselected one: an operation in it
    whose local derivative is not finite (x / 0, log 0, sqrt 0) makes 0 * inf = NaN, and the NaN reaches every leaf of that
    branch while the value is fine.  For every where / masked_fill element whose result the value depends on, the obligation
    "the branch that is NOT selected has no zero denominator, no log / sqrt argument that is not positive, and no division by
    the literal constant 0" - hazards that the selected branch shares are the business of the value, not of this obligation."""
    d = t.dag
    cone_out = set(d.topo([out]))
    memo = {}

    def hazards(n):
        if n not in memo:
            hz = set()
            for m in d.topo([n]):
                op = d.ops[m]
                if op == 'div':
                    hz.add(('den', d.args[m][1]))
                elif op == 'uf' and d.args[m][0] in ('log', 'sqrt'):
                    hz.add(('pos', d.args[m][1]))
                elif op == 'var' and m in t.undefined:
                    hz.add(('undef', m))
            memo[n] = hz
        return memo[n]

    def ok(hz):
        cs = []
        for kind, b in sorted(hz):
            cs.append(d.FALSE if kind == 'undef' else (d.not_(d.eq(b, 0)) if kind == 'den' else d.lt(0, b)))
        return d.and_(*cs)

    parts = []
    kinds = set()
    for kind, rec in t.where_records:
        for c, x, y, res in rec:
            if res not in cone_out or x == y:
                continue
            hx, hy = hazards(x), hazards(y)
            o = d.and_(d.or_(c, ok(hx - hy)), d.or_(d.not_(c), ok(hy - hx)))
            if o != d.TRUE:
                parts.append(o)
                kinds.add(kind)
    if not parts:
        return None
    node = d.and_(*parts)
    g = Goal(f'every unselected branch of {" / ".join(sorted(kinds))} is well-defined (no zero denominator, no log / sqrt of a non-positive '
             f'number): back-propagation through it yields 0, not NaN', node, hyps=ground_axioms(d, [node]),
             signature=f'{cname}:gradient-not-finite:dead-branch')
    g.param = None
    return g


def make_body(cname):
    case = CASES[cname]()
    specs, params, target, opts = case
    leafs = leaf_names(params, opts)
    fixed = opts.get('fixed', ())

    def reduce_(d, val):
        vi = val._ids.reshape(-1).tolist()
        ws = weights(len(vi)) if opts.get('weighted') else None
        out = 0
        for k, i in enumerate(vi):
            out = d.add(out, i if ws is None else d.mul(d.const(ws[k]), i))  # (weighted) model().sum()
        return out

    def body(t, V, W):
        ext.prepare(t)  # differentiable eigh / inverse stubs, where / masked_fill records, x / literal 0 (symtorch/ext_c12.py); C12's traces only
        d = t.dag
        structural_region_keys(d)

        def mk(p, rg):
            return cm.var_tensor(V, elem_names(p, len(params[p][0]), opts))

        try:
            A, val, _ = run_case(case, mk, 'sym')
        except (ValueError, RuntimeError) as e:
            if opts.get('switch') and 'non-empty' in str(e):
                # the oracle said "underflow" but no node is below the threshold at this witness: torch.cat of an empty list of
                # scalers - outside the contract of calculate_treelikelihood_discrete_safe (C03), nothing to differentiate
                body.last = None
                return []
            raise
        out = reduce_(d, val)
        out_ref = out
        if opts.get('history'):
            # what the gradient has to be the derivative OF: the density at the current parameter values, i.e. the value a
            # freshly built model reports for the same symbols (on the unchanged tree the two values are the same expression)
            _, vref, _ = run_case(case, mk, 'value')
            out_ref = reduce_(d, vref)
        dep = set(d.variables([out_ref]))
        goals = []
        for p, names in leafs.items():
            names = [nm for nm in names if nm not in fixed]
            ids = [V[nm] for nm in names]
            g_auto = d.grad(out, ids, honour_stops=True)
            g_true = d.grad(out_ref, ids, honour_stops=False)
            goal = d.and_(*[d.eq(a, b) for a, b in zip(unstop(d, g_auto), unstop(d, g_true))])
            goals.append(Goal(f'd value / d {p}: autograd gradient == derivative of the reported value', goal,
                              hyps=ground_axioms(d, [goal]), signature=f'{cname}:{p}:gradient-differs'))
            goals[-1].param = p
            for nm, ga in zip(names, g_auto):
                if nm in dep:
                    # must NOT be identically zero: there has to be a point with a non-zero gradient
                    g = Goal(f'd value / d {nm} is not identically zero', d.TRUE, signature=f'{cname}:{p}:gradient-missing')
                    g.nonzero_node = ga
                    g.param = nm
                    goals.append(g)
        if out_ref != out:
            g = Goal('the value reported after the history == the value of a freshly built model at the current parameters', d.eq(out, out_ref),
                     hyps=ground_axioms(d, [d.eq(out, out_ref)]), signature=f'{cname}:value-after-history-is-stale')
            g.param = None
            goals.append(g)
        dead = dead_branch_goal(t, out, cname)
        if dead is not None:
            goals.append(dead)
        grads = {nm: g_ for p, names in leafs.items() for nm, g_ in zip(names, d.grad(out, [V[nm] for nm in names], True))}
        pseudo = has_derivative_symbols(d, list(grads.values()))
        guard = []
        if pseudo:
            # vacuity guard of the eigen encoding: the derivative that a cut AT the eigendecomposition / matrix exponential would
            # leave (partials of the eigh / inverse / matrix_exp symbols replaced by 0) must be distinguishable from the true one
            def cut(dag, name, xs, k, n):
                return 0 if name.startswith(('eigh', 'inv', 'expm')) else None

            for p in params:
                if p in ('kappa', 'rates', 'freqs'):
                    ids = [V[nm] for nm in leafs[p]]
                    g_cut = d.grad(out, ids, honour_stops=False, uf_deriv=cut)
                    g_true = d.grad(out, ids, honour_stops=False)
                    guard.append((p, d.and_(*[d.eq(a, b) for a, b in zip(g_cut, g_true)])))
        body.last = {'A': A, 'out': out, 'grads': grads, 'pseudo': pseudo, 'guard': guard, 'stubs': sorted(set(t.stubs_used))}
        return goals

    def domain(d, V):
        cs = []
        done = set()
        for p, (vals, lo, hi) in params.items():
            for nm in elem_names(p, len(vals), opts):
                if nm in done:
                    continue
                done.add(nm)
                v = V[nm]
                if lo is not None:
                    cs.append(d.lt(d.const(lo), v))
                if hi is not None:
                    cs.append(d.lt(v, d.const(hi)))
        if opts.get('heights_order') and 'tree.heights' in params:
            cs.append(d.lt(V['tree.heights[0]'], V['tree.heights[1]']))
        if opts.get('domain'):
            cs += opts['domain'](d, V)
        for n in fixed:
            cs.append(d.eq(V[n], d.const(W[n])))
        return cs

    W = initial_witness(params, opts)
    return body, domain, W, case


def real_gradients(cname, vals):
    """plain tensors + real torch.autograd on the real model, driven through the case's history: (value, {variable: gradient}, A)"""
    case = CASES[cname]()
    specs, params, target, opts = case
    mk = plain_mk(case, vals)
    A, val, leaves = run_case(case, mk, 'grad')
    out = scalar_of(val, opts)
    out.backward()
    grads = {}
    for p, names in leaf_names(params, opts).items():
        g = mk.alias.get(p, leaves[p]).grad
        for j, nm in enumerate(names):
            grads[nm] = None if g is None else float(g[j])
    return float(out.detach()), grads, A


def finite_difference(cname, vals, name, h=1e-6, sides=False):
    """central difference of the DENSITY: a freshly built model evaluated at the displaced point (no history)"""
    case = CASES[cname]()
    opts = case[3]
    base = initial_witness(case[1], opts)

    def f(delta):
        v = dict(base, **vals)
        v[name] = v[name] + delta
        with torch.no_grad():
            _, val, _ = run_case(case, plain_mk(case, v), 'value')
            return float(scalar_of(val, opts))

    if sides:
        f0, fp, fm = f(0.0), f(h), f(-h)
        return (fp - fm) / (2 * h), (fp - f0) / h, (f0 - fm) / h
    return (f(h) - f(-h)) / (2 * h)


def replay(cname, vals, first=None):
    """real torch.autograd (through the case's history, with the stubs named in the case) against central finite differences of
    the density on a freshly built real model (plain tensors); `first`: parameter examined first"""
    specs, params, target, opts = CASES[cname]()
    try:
        out, grads, _ = real_gradients(cname, vals)
    except Exception as e:
        return True, f'backward on the real model raised {type(e).__name__}: {e}'
    leafs = leaf_names(params, opts)
    for p in sorted(params, key=lambda q: q != first):
        for nm in leafs[p]:
            if nm in opts.get('fixed', ()):
                continue
            fd = finite_difference(cname, vals, nm)
            g = grads[nm]
            if g is None:
                if abs(fd) > 1e-6:
                    return True, f'{nm} receives no gradient but the numerical derivative is {fd}'
                continue
            if not (abs(g - fd) <= 1e-4 * max(1.0, abs(fd))):
                # a point ON a boundary between path regions (a tie between event times: outside the claim) has a kink: the
                # central difference straddles it while autograd returns the derivative of one side
                _, fwd, bwd = finite_difference(cname, vals, nm, sides=True)
                if abs(fwd - bwd) > 1e-4 * max(1.0, abs(fd)) and min(abs(g - fwd), abs(g - bwd)) <= 1e-3 * max(1.0, abs(fd)):
                    continue
                return True, f'd/d{nm}: autograd {g} vs numerical derivative {fd}'
    return False, 'agree with finite differences'


def replay_dict(cname, vals):
    """what a replay file carries: case, point, and the stubs the concrete replay runs with"""
    opts = CASES[cname]()[3]
    rp = {'case': cname, 'values': dict(vals)}
    if opts.get('switch'):
        rp['stubs'] = [ORACLE_STUB]
        rp['threshold'] = opts['threshold']
    if opts.get('history'):
        rp['history'] = HISTORY_TEXT[opts['history']['kind']]
    return rp


def run_task(task, tr):
    from torchtree.core import model as coremodel
    from symtorch.explore import prove

    cname, alt = (task, False) if isinstance(task, str) else (task[0], True)
    label = cname + (' [second starting point]' if alt else '')
    body, domain, W, (specs, params, target, opts) = make_body(cname)
    if opts.get('switch'):
        tr.stubs.add(ORACLE_STUB)
    if alt:
        # thorough tier: the same case explored from a second generic point (every input x 1.3; fixed elements kept)
        for n in W:
            if n not in opts.get('fixed', ()):
                W[n] = W[n] * 1.3
    tr.fn(coremodel.CallableModel.__call__)
    describe(cname, tr)

    nonzero_pending = []
    nonzero_open = []
    explicit = []
    witness_failures = []
    concrete = []
    ties = []

    def body2(t, V, Wt):
        goals = body(t, V, Wt)
        d = t.dag
        nviol = len(tr.violations)
        if body.last is None:
            tr.notes.append(f'{label}: region at {Wt}: no node below the threshold, the safe kernel has nothing to rescale (outside its contract)')
            return []
        for s_ in body.last['stubs']:
            tr.stubs.add(s_)
        if body.last['pseudo']:
            # derivative symbols of the eigh / inverse / matrix_exp stubs carry pseudo-witness values: the engine gradient has no
            # numerical meaning at the witness.  Concrete by-product instead: real torch.autograd == central finite differences
            # on the real model at this witness (also exposes a backward() that raises)
            bad, detail = replay(cname, Wt)
            if bad:
                sig = f'{cname}:backward-raises' if detail.startswith('backward on the real model raised') else \
                    opts.get('witness_signature', f'{cname}:gradient-differs-at-witness')
                witness_failures.append((sig, f'{label}: on the real model at the region witness {Wt}: {detail}' + opts.get('witness_note', ''),
                                         replay_dict(cname, Wt)))
            else:
                tr.notes.append(f'{label}: real torch.autograd == central finite differences at the witness (replaces the engine-vs-autograd '
                                f'cross-check: derivative symbols of the eigen stubs have pseudo-witness values)')
        else:
            # engine autograd model vs real torch.autograd at this witness
            try:
                out, grads, _ = real_gradients(cname, Wt)
                if any(g_ is not None and not math.isfinite(g_) for g_ in grads.values()):
                    # the real gradient is not finite at this witness (NaN out of an unselected torch.where branch, ...): not a
                    # disagreement between engine and autograd but a candidate violation, decided against finite differences
                    bad, detail = replay(cname, Wt)
                    if bad:
                        witness_failures.append((f'{cname}:gradient-not-finite', f'{label}: on the real model at the region witness {Wt}: {detail}',
                                                 replay_dict(cname, Wt)))
                    else:
                        tr.inconc(f'{label}: real torch.autograd gradient not finite at the witness {Wt}, finite differences undecided ({detail})')
                else:
                    for nm, gi in body.last['grads'].items():
                        ev = d.vals[gi]
                        rv = 0.0 if grads[nm] is None else grads[nm]
                        if not (abs(ev - rv) <= 1e-6 * max(1.0, abs(rv))):
                            tr.inconc(f'{label}: engine gradient model {ev} != real torch.autograd {rv} for {nm} at the witness')
                    tr.notes.append(f'{label}: engine autograd model == torch.autograd at witness')
            except Exception as e:
                tr.violation(f'{cname}:backward-raises', f'{label}: backward on the real model raised {type(e).__name__}: {e}',
                             replay_dict(cname, Wt))
        # non-zero obligations are existential: decided separately (sat expected)
        dom = domain(d, V)
        hyps = dom + list(t.pcs)
        pseudo = body.last['pseudo']
        # `sat` questions (existential obligations, separating points) are settled AT the region witness first: the model is
        # exhibited - inputs and uninterpreted applications (exp, log, sqrt, pow, eigen / derivative symbols) take their witness
        # values, the hypotheses must hold and the equality must fail in exact rational arithmetic (C10.model_separates); a
        # checked model is a `sat` certificate, and unlike a solver model over uninterpreted exp / log it is never spurious.
        # Only when the witness does not separate is the solver asked: with every input pinned at the witness (not for the
        # eigen cases, where z3 does not answer), then unpinned
        pins = [d.eq(V[n], d.const(float(Wt[n]))) for n in sorted(V)]

        def explicit_model(eq_node, what):
            # (ground axiom instances - sqrt(x)^2 = x ... - hold over the reals but not for the float witness of sqrt in exact
            # arithmetic; they are not part of the exhibited model, whose only use for a universal goal is to trigger the
            # replay on the real model)
            if C10.model_separates(d, hyps, eq_node):
                tr.obligation(f'explicit model:{cname}:{what}', nontrivial=True)
                explicit.append(what)
                return True
            return False

        def pinned_solver(eq_node, extra, what):
            if pseudo:
                return False
            st, r, _ = prove(d, hyps + extra + pins, eq_node, timeout=PIN_TIMEOUT, solvers=('z3',), tr=tr, label=what + ' (witness point)')
            return st == 'refuted'

        for p_, node in body.last['guard']:
            if node == d.TRUE:
                tr.inconc(f'{label}: vacuity guard: no gradient w.r.t. {p_} flows through the eigendecomposition symbols')
            elif not explicit_model(node, f'vacuity guard: a cut at the eigendecomposition changes d value / d {p_}'):
                st, r, _ = prove(d, hyps, node, timeout=20, tr=tr, label=f'vacuity guard {p_}', parallel=True)
                if st != 'refuted':
                    tr.inconc(f'{label}: vacuity guard for {p_} not settled ({st}): a cut at the eigendecomposition could not be told apart')

        points = {}

        def region_points():
            """the region witness, and a second point of the SAME region (domain and every path condition evaluated there) in
            which as many inputs as possible take their generic initial values: a witness produced by the solver likes
            coincidences (equal rates in both epochs make the derivative w.r.t. the shift time vanish)"""
            if 'list' not in points:
                pts = [dict(Wt)]
                try:
                    cur_ = dict(Wt)
                    for n in sorted(V):
                        if cur_[n] != W[n]:
                            trial = dict(cur_, **{n: W[n]})
                            ev = d.evaluate(hyps, trial)
                            if all(ev[c] for c in hyps):
                                cur_ = trial
                    if cur_ != Wt:
                        pts.append(cur_)
                    # solver witnesses also like boundaries of the closed regions (ties, where finite differences straddle a
                    # kink): a few deterministic small displacements of that point that stay inside the region
                    for k in range(1, 5):
                        trial = {n: v * (1 + 0.013 * k * ((j * 7 + k * 3) % 5 - 2)) + 0.0007 * k * ((j * 5 + k) % 3 - 1)
                                 for j, (n, v) in enumerate(sorted(cur_.items())) }
                        for n in opts.get('fixed', ()):
                            trial[n] = W[n]
                        ev = d.evaluate(hyps, trial)
                        if all(ev[c] for c in hyps):
                            pts.append(trial)
                except Exception:  # noqa  (path conditions over symbols without an evaluator: no second point)
                    pass
                points['list'] = [(pt, {}) for pt in pts]
            return points['list']

        def concrete_nonzero(nm):
            """the REAL model at a point of this region: torch.autograd gradient non-zero and equal to the central finite
            difference - a concrete point with a non-zero gradient (existence shown on the real code itself)"""
            for pt, cache in region_points():
                if 'grads' not in cache:
                    try:
                        cache['grads'] = real_gradients(cname, pt)[1]
                    except Exception:  # noqa  (a raising backward is reported by the witness cross-check above)
                        cache['grads'] = None
                grads = cache['grads']
                if grads is None or grads[nm] is None:
                    continue
                ga = grads[nm]
                if not abs(ga) > 1e-9:
                    continue
                fd = finite_difference(cname, pt, nm)
                if abs(ga - fd) <= 1e-4 * max(1.0, abs(fd)):
                    return True
            return False

        # a region with an EQUALITY between event times among its path conditions (bdsk.py compares tip times with epoch
        # boundaries by ==) is a set of ties: outside the claim; finite differences straddle the kink there, and the equality
        # does not hold in exact arithmetic for the float witness.  The two gradients are still compared on it; a non-zero
        # gradient is only required to be not the constant 0
        tie = bool(opts.get('event_time_equalities')) and any(d.ops[c] == 'eq' for c in t.pcs)
        if tie:
            ties.append(dict(Wt))
        keep = []
        for g in goals:
            if hasattr(g, 'nonzero_node') and tie and g.nonzero_node != 0:
                continue
            if hasattr(g, 'nonzero_node'):
                if d.ops[g.nonzero_node] == 'const':
                    st = 'proved' if g.nonzero_node == 0 else 'refuted'
                elif explicit_model(d.eq(g.nonzero_node, 0), g.label):
                    st = 'refuted'
                elif concrete_nonzero(g.param):
                    # the witness is a coincidence (equal rates in both epochs: no dependence on the shift time) or a boundary point
                    st = 'refuted'
                    concrete.append(g.label)
                elif pinned_solver(d.eq(g.nonzero_node, 0), [], g.label):
                    st = 'refuted'
                else:
                    st, r, _ = prove(d, hyps, d.eq(g.nonzero_node, 0), timeout=(6 if (opts.get('rescale') or opts.get('switch')) else 20), tr=tr, label=g.label, parallel=True)
                if st == 'proved':
                    nonzero_pending.append((g, dict(Wt)))
                elif st != 'refuted':
                    nonzero_open.append((g, dict(Wt)))
                continue
            if g.node not in (d.TRUE, d.FALSE) and (explicit_model(g.node, g.label) or pinned_solver(g.node, g.hyps, g.label)):
                # the two gradients are different expressions and the witness separates them: confirm on the real model;
                # whatever is not settled here goes to the full query of the explorer
                bad, detail = replay(cname, Wt, first=g.param)
                if bad:
                    tr.violation(g.signature, f'{label}: {g.label} fails at {Wt}: {detail}', replay_dict(cname, Wt))
                    continue
            keep.append(g)
        if len(tr.violations) > nviol:
            # a replayed counterexample exists for this case: the remaining open equalities are not pushed through the solver
            rest = [g for g in keep if g.node not in (d.TRUE, d.FALSE)]
            if rest:
                tr.notes.append(f'{label}: {len(rest)} further obligations not queried after the replayed counterexample')
            keep = [g for g in keep if g.node in (d.TRUE, d.FALSE)]
        return keep

    rescale = bool(opts.get('rescale') or opts.get('switch'))  # per-site maxima are path conditions: explored regions only
    no_closure = rescale or bool(opts.get('no_closure'))
    ex = Explorer(W, domain, body2, tr, max_regions=(2 if rescale else opts.get('max_regions', 60)), timeout=(15.0 if rescale else 40.0),
                  closure_timeout=(8.0 if rescale else 30.0), label=label, check_defined=False,
                  deadline=time.time() + 600, require_closure=not no_closure)
    out = ex.run()
    for s in out.region_samples[:1]:
        s['case'] = label
        tr.sample(s)
    if ties:
        tr.notes.append(f'{label}: {len(ties)} of the {out.regions} regions are tie regions (an equality between event times among the path '
                        f'conditions): the two gradients are compared there as well; of the non-zero obligations only "not the constant 0"')
    if concrete:
        tr.notes.append(f'{label}: {len(concrete)} existential obligations settled concretely: on the real model at a region witness the '
                        f'torch.autograd gradient is non-zero and equals the central finite difference')
    if explicit:
        tr.notes.append(f'{label}: {len(explicit)} existential obligations settled by an explicit model at a region witness (exact rational evaluation)')
    for g, wit in nonzero_pending:
        # identically zero on a whole region: confirm on the real model with finite differences
        ok, detail = replay(cname, wit)
        if ok:
            tr.violation(g.signature, f'{label}: {g.label}: gradient is identically zero on a path region: {detail}',
                         replay_dict(cname, wit))
        else:
            tr.notes.append(f'{label}: {g.label}: zero on one region, and the numerical derivative is zero there as well')
    done = set()
    for g, wit in nonzero_open:
        # the solver neither found a point with a non-zero gradient nor proved that there is none (timeout under load).  The
        # witness itself is such a point when the numerical derivative of the real model is non-zero there and the real
        # autograd gradient agrees with it (concrete by-product; otherwise undecided)
        if g.param in done:
            continue
        nm = g.param
        try:
            _, grads, _ = real_gradients(cname, wit)
            fd = finite_difference(cname, wit, nm)
            ga = grads[nm]
        except Exception:  # noqa
            fd, ga = 0.0, None
        if ga is not None and abs(fd) > 1e-9 and abs(ga - fd) <= 1e-4 * max(1.0, abs(fd)):
            done.add(g.param)
            tr.notes.append(f'{label}: {g.label}: solver undecided; the region witness is a point with non-zero gradient (autograd {ga}, numerical {fd})')
        elif ga is None and abs(fd) > 1e-6:
            tr.violation(g.signature, f'{label}: {g.label}: {nm} receives no gradient at {wit} but the numerical derivative is {fd}',
                         replay_dict(cname, wit))
        else:
            tr.inconc(f'{label}: {g.label}: undecided (solver unknown; autograd {ga}, numerical derivative {fd} at the witness)')
    triage(out, lambda vals: replay(cname, vals), tr, label, {k: v for k, v in replay_dict(cname, {}).items() if k != 'values'})
    if witness_failures and not tr.violations:
        # autograd != finite differences on the real model at a witness, and no symbolic obligation accounts for it
        tr.violation(*witness_failures[0])


def describe(cname, tr):
    """bounds / functions / stubs of one case, for the evidence"""
    tr.bounds['sizes'] = ('3 taxa, topology ((t0,t1),t2) (4 for the tree prior; 4 heterochronous taxa, balanced topology, for the "chain4:" and '
                          '"4 heterochronous taxa" cases; thorough tier: caterpillar topology for the "chain4c:" cases), 1-3 rate categories (up to 5 in C10\'s HKY cases, thorough tier), field length 2-3, '
                          '4-state nucleotide models and 3-state general models; every continuous parameter of each density is a '
                          'differentiation leaf (un-batched); thorough tier: every case explored a second time from another starting point')
    tr.bounds['existential obligations'] = (
        '"not identically zero" is settled per path region, in this order: (1) an explicit model at the region witness - inputs and '
        'uninterpreted applications take their witness values, path conditions hold and the gradient is non-zero in exact rational '
        'arithmetic; (2) the real model at the witness or at a nearby point of the same region: torch.autograd gradient non-zero and equal to '
        'the central finite difference; (3) the solver with all inputs pinned at the witness; (4) the solver unpinned - `unsat` there '
        '(identically zero on the region) is confirmed with finite differences on the real model before it is reported; undecided -> '
        'inconclusive.  On tie regions (an == between event times among the path conditions) only "not the constant 0" is required (BDSK cases)')
    from torchtree.evolution import tree_likelihood as tl
    from torchtree.evolution.substitution_model.abstract import NonSymmetricSubstitutionModel, SymmetricSubstitutionModel

    tr.bounds['dead branches'] = (
        'torch.where / masked_fill back-propagate a zero gradient through the unselected branch; 0 * inf = NaN when an operation of that '
        'branch has no finite local derivative there.  For every where / masked_fill element the value depends on: obligation "the '
        'unselected branch has no zero denominator and no log / sqrt of a non-positive number on the region" (hazards shared with the '
        'selected branch excluded); a division by the literal constant 0 (x - x is the constant 0 in the hash-consed DAG: flat segment of '
        'the piecewise-linear population function) fails it outright; a solver point / region witness at which it fails is replayed: '
        'backward() on the real model not finite while the finite difference is => violation.  A non-finite real gradient at any region '
        'witness is decided the same way.  The piecewise-linear grid coalescent is explored with the root beyond the last grid point '
        '(initial region), with theta_0 == theta_1 as a path region, and with both population sizes as ONE symbol (aliasing case)')
    if cname.startswith('switch:'):
        o = CASES[cname]()[3]
        tr.fn(tl.TreeLikelihoodModel.calculate_with_tip_partials, tl.calculate_treelikelihood_discrete_safe,
              tl.calculate_treelikelihood_discrete_rescaled, tl.calculate_treelikelihood_discrete)
        tr.bounds['switching evaluation'] = (
            'TreeLikelihoodModel with tip partials, Weibull(2), JC69 and HKY (differentiable eigen stubs), unrooted and ratio tree + strict clock, '
            '3 taxa (one case on 4): the call on which torch.isinf(log_p) - an underflow oracle - reports the underflow, so that the plain pass is '
            'followed by calculate_treelikelihood_discrete_safe with model.threshold set (public attribute) so that at the initial point every '
            'internal node / only the root / a proper subset of the internal nodes has a site whose largest partial is below it; and the '
            'evaluation after it (rescale flag set by the model itself, calculate_treelikelihood_discrete_rescaled).  Threshold comparisons and '
            'per-site maxima are path conditions: decided on the <= 2 regions explored, no coverage certificate; a region in which no node is '
            'below the threshold is outside the kernel\'s contract (C03).  Gradient w.r.t. branch lengths / ratios / root height / clock rate / '
            'shape / kappa / frequencies.  Finite differences: a fresh model evaluated the same way (oracle included)')
        tr.notes.append(f'{cname}: threshold {o["threshold"]!r}; minima over sites of the largest partial per internal node at the initial point: {o["minima"]}')
    if cname.startswith('history:'):
        from torchtree.core.parameter import Parameter
        from torchtree.evolution.tree_model import ReparameterizedTimeTreeModel

        tr.fn(ReparameterizedTimeTreeModel.update_node_heights, ReparameterizedTimeTreeModel.handle_parameter_changed,
              ReparameterizedTimeTreeModel.from_json, Parameter.fire_parameter_changed)
        tr.bounds['histories'] = (
            'two evaluations of ONE model object (constant coalescent; JC69+Weibull likelihood through a strict clock) on a ratio tree built '
            'by from_json (CatParameter), a shift tree built by from_json (one Parameter) and a ratio tree built through the public constructor '
            'with a single ratios_root_height Parameter; between the evaluations: ' + '; '.join(f'[{k}] {v}' for k, v in HISTORY_TEXT.items())
            + '.  The gradient of the SECOND value w.r.t. the current leaves (stops honoured) must equal the true derivative of the value a '
              'freshly built model reports for the same symbols, must not be identically zero, and the two values must agree.  '
              '"requires_grad" histories: the first evaluation is traced under no_grad (torch records no history while no leaf requires grad - '
              'the same thing), so a result of the first evaluation that survives into the second one carries stop nodes; the concrete '
              'cross-check at every witness performs the real toggle (requires_grad False -> True on the same tensor objects).  In-place '
              'histories on the concrete side: tensors require grad, first value back-propagated (retain_graph), step written under no_grad, '
              'fire_parameter_changed')
    if cname.startswith(('eigen:', 'substitution:', 'degenerate:', 'switch:')) or (cname.startswith('likelihood:') and ('/HKY' in cname or '/GTR' in cname)):
        from torchtree.evolution.substitution_model import general, nucleotide

        tr.fn(SymmetricSubstitutionModel.p_t, NonSymmetricSubstitutionModel.p_t, nucleotide.HKY.q, nucleotide.GTR.q,
              general.GeneralSymmetricSubstitutionModel.q, general.GeneralNonSymmetricSubstitutionModel.q)
        tr.bounds['eigendecomposition'] = (
            'HKY / GTR / GeneralSymmetric p_t: eigh(S) and inverse(V) are uninterpreted functions of all entries of the symbolic input '
            '(inverse of the eigenvector matrix = its transpose); GeneralNonSymmetric p_t: matrix_exp likewise.  Their derivatives are free '
            'derivative symbols, so the claim is: NO cut of the autograd history (detach / no_grad / .item() / tensor rebuild / fresh '
            'tensor) on any path kappa, rates, frequencies, branch lengths, clock rate, site-model parameters -> q -> normalisation -> '
            'symmetrisation -> eigh -> exp(e t) -> p_t -> pruning -> log-likelihood, for all parameter values of the domain.  '
            'NOT claimed: that torch.linalg.eigh / matrix_exp backward formulas are right (checked numerically at each witness only).  '
            'Points at which Q has a repeated eigenvalue (HKY at kappa = 1, GTR with equal exchangeabilities) are not covered by the '
            'symbolic claim - the derivative symbols have no meaning there; two such interior points are examined concretely by the '
            '"degenerate:" cases (torch.autograd vs finite differences on the real model, signature ' + SIG_DEGENERATE + ')')
        tr.assumptions.add('frequencies are independent positive leaves (not constrained to the simplex): the derivative is taken '
                           'entry by entry, as autograd does')
    if cname.startswith(('likelihood:', 'eigen:', 'degenerate:', 'switch:', 'history:likelihood', 'chain:likelihood', 'chain:joint', 'chain4:likelihood', 'chain4c:likelihood')):
        tr.fn(tl.TreeLikelihoodModel._call, tl.calculate_treelikelihood_discrete, tl.calculate_treelikelihood_tip_states_discrete)
    if 'rescal' in cname:
        tr.fn(tl.calculate_treelikelihood_discrete_rescaled, tl.calculate_treelikelihood_tip_states_discrete_rescaled)
        tr.bounds['rescaled kernels'] = ('decided on the path regions explored (<= 2; the per-site argmax of every internal node is a path '
                                         'condition); no coverage certificate over the other argmax patterns')
    if cname.startswith('bdsk:'):
        from torchtree.evolution.bdsk import BDSKModel, PiecewiseConstantBirthDeath as PB, epidemiology_to_birth_death

        tr.fn(BDSKModel._call, epidemiology_to_birth_death, PB.log_prob, PB.log_p, PB.log_q, PB.p0)
        tr.bounds['bdsk'] = ('BDSKModel (R, delta, s, rho, origin given) with 1, 2 and 3 epochs of equal length origin / m, or 2 epochs with the '
                             'shift time given as a parameter (absolute or relative to the origin; times[0] = 0 is held fixed); with / without '
                             'survival conditioning; without the rho parameter; with removal probability (1 epoch: several epochs raise, C09); '
                             'tips at heights 0.5 / 0 / 0.2 (serial) or all at 0, and 4 heterochronous taxa; gradient w.r.t. R, delta, s '
                             '(=> lambda, mu, psi), rho, r, origin, the shift time and every internal node height; the position of every node / '
                             'tip relative to the epoch boundaries is a path condition: all regions enumerated, closure certified')
    if cname.startswith('birthdeath:'):
        from torchtree.evolution.birth_death import BirthDeath as BD, BirthDeathModel

        tr.fn(BirthDeathModel._call, BD.log_prob, BD.log_p, BD.log_q)
        tr.bounds['birthdeath'] = ('BirthDeathModel (constant rates): gradient w.r.t. lambda, mu, psi, rho, origin and both internal node heights; '
                                   'with / without survival conditioning; serial or contemporaneous tips')
    if cname.startswith('gmrf:') or 'GMRF' in cname:
        from torchtree.distributions.gmrf import GMRF, GMRFCovariate
        from torchtree.distributions.gmrf_integrated import GMRFGammaIntegrated

        tr.fn(GMRF._call, GMRFCovariate._call, GMRF.precision_matrix, GMRFGammaIntegrated._call)
    if cname.startswith(('chain', 'history:')):
        from torchtree.evolution.tree_height_transform import DifferenceNodeHeightTransform, GeneralNodeHeightTransform

        tr.fn(GeneralNodeHeightTransform._call, DifferenceNodeHeightTransform._call)
    if 'coalescent' in cname or 'sky' in cname or 'piecewise' in cname:
        from torchtree.evolution import coalescent as co

        tr.fn(co.ConstantCoalescent.log_prob, co.ConstantCoalescentIntegrated.log_prob, co.ExponentialCoalescent.log_prob,
              co.PiecewiseConstantCoalescent.log_prob, co.PiecewiseConstantCoalescentGrid.log_prob, co.PiecewiseLinearCoalescentGrid.log_prob)


# quick tier: everything except the cases below.  C10's HKY / GTR likelihood cases differ in the number of rate categories and in
# sample shapes that C12 does not use: quick keeps one per kernel / site model / clock, the thorough tier runs all of them
QUICK_EIGEN_C10 = {
    'likelihood:unrooted/weibull/HKY', 'likelihood:strict/constant/HKY', 'likelihood:unrooted/invariant/HKY',
    'likelihood:unrooted/constant+mu/HKY', 'likelihood:unrooted/constant/GTR', 'likelihood:unrooted/weibull/HKY/tip-states',
    'likelihood:unrooted/weibull/HKY/rescaled', 'likelihood:unrooted/weibull/HKY/tip-states/rescaled', 'likelihood:simple/weibull3/HKY',
}
THOROUGH_ONLY = {
    'chain4:likelihood HKY+Weibull, shift tree, strict clock',
}


def tasks_for(tier):
    names = list(CASES)
    if tier == 'quick':
        names = [n for n in names if n not in THOROUGH_ONLY and not n.startswith('chain4c:')
                 and not (n.startswith('likelihood:') and ('/HKY' in n or '/GTR' in n) and n not in QUICK_EIGEN_C10)]
    # heavy cases first: better packing over the worker pool
    def weight(n):
        if 'rescal' in n or n.startswith('switch:'):
            return 0
        if n.startswith(('chain4:likelihood', 'bdsk:2 epochs, survival, 4', 'bdsk:3')):
            return 1
        if n.startswith(('eigen:', 'likelihood:')):
            return 2
        return 3

    names.sort(key=weight)
    if tier == 'thorough':
        # every case a second time, explored from another generic starting point
        names = names + [(n, 'second starting point') for n in names]
    return names


def body(chk):
    chk.explanation = ('the real densities are executed symbolically; the gradient autograd delivers (reverse differentiation '
                       'honouring detach / no_grad / tensor rebuilds) is compared by the solver with the true derivative of the '
                       'reported value for all parameter values on every path region (two syntactically identical gradients need no '
                       'query; different ones are first separated at the region witness by an explicit exact model, confirmed on the real '
                       'model, else sent to the solver), and each influencing parameter must admit a point with non-zero gradient in every '
                       'region (explicit model / concrete point on the real model / solver, see bounds); the autograd model is cross-checked '
                       'against torch.autograd at every witness. '
                       'Eigendecompositions / matrix exponentials are uninterpreted functions of their input entries whose derivatives '
                       'are free symbols (a cut of the autograd history on the way through them separates the two gradients); for these '
                       'cases the witness cross-check is real torch.autograd == central finite differences on the real model')
    chk.total.assumptions |= {'torch\'s own derivative formulas are trusted (the engine differentiates exp/log/pow/lgamma by rule; eigh / inverse / '
                              'matrix_exp derivatives are free symbols, compared numerically with finite differences at each witness only)',
                              'ties between event times (region boundaries) are outside the claim',
                              'an in-place modification of a tensor that autograd saved for backward is not modelled symbolically; it is '
                              'caught only through backward() raising on the real model at a region witness',
                              'outside: origin omitted / origin as root edge and removal probability with several epochs of the BDSK model, '
                              'codon (MG94) and amino-acid models, soft / piecewise-exponential grid coalescents, '
                              'batched parameters (C10), 5 and more taxa, topologies other than the ones named in the bounds'}
    chk.total.assumptions |= {'the switching evaluation is entered through an underflow oracle (torch.isinf answers True once): over the reals the '
                              'plain pass never underflows; the floating-point side of the switch is C03\'s',
                              'a parameter that requires grad but is NOT changed between two backward() calls keeps values cached by its models '
                              '(site rates) whose graph the first backward() frees: the in-place histories back-propagate the first value with '
                              'retain_graph=True; partial updates without retain_graph are outside'}
    pmap(run_task, tasks_for(chk.tier), chk.total)


if __name__ == '__main__':
    if '--replay' in sys.argv:
        import json

        torch.set_default_dtype(torch.float64)  # as main_for does for the check itself (torchtree's command line runs in float64)
        r = json.load(open(sys.argv[sys.argv.index('--replay') + 1]))
        rp = r['replay']
        print('replay:', r.get('what', '')[:300])
        ok, detail = replay(rp['case'], rp.get('values', {}))
        print(('REPRODUCED ' if ok else 'NOT REPRODUCED ') + detail)
        sys.exit(1 if ok else 0)
    sys.exit(main_for(PID, body))
