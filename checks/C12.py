"""C12 Gradients are the derivatives of the reported densities.

For every density and parameter the gradient autograd would deliver (symbolic reverse
differentiation of the recorded DAG that STOPS where autograd stops: detach(),
no_grad(), .item()/torch.tensor rebuilds) must equal the true derivative of the
reported value (same DAG, stops ignored), and every parameter the value depends on
must have a gradient that is not identically zero.  The autograd model is validated
against real torch.autograd at the witness on every run.
"""
from __future__ import annotations

import sys
import time

import torch

import C10
import common as cm
from symtorch import SymTensor, cur, from_ids, new_vars
from symtorch.axioms import ground_axioms
from symtorch.explore import Explorer, Goal, triage
from vlib.core import main_for, pmap

PID = 'C12'
SEQS = C10.SEQS


def P(vals, lo=None, hi=None):
    return (vals, lo, hi)


def case_chain(kind):
    """densities reached through the ratio / root-height parameterisation (chain of transforms)"""
    taxa = cm.taxa_json(3)
    tree = cm.ratio_tree_json(((0, 1), 2), 3)
    tree['taxa'] = taxa
    params = {'tree.ratios': P([0.4], 0.01, 0.99), 'tree.root_height': P([3.0], 0.05, None)}
    if kind == 'jacobian':
        return [tree], params, 'tree', {}
    if kind == 'coalescent':
        m = {'id': 'm', 'type': 'ConstantCoalescentModel',
             'theta': {'id': 'theta', 'type': 'TransformedParameter', 'transform': 'torch.distributions.ExpTransform',
                       'x': {'id': 'theta_unc', 'type': 'Parameter', 'tensor': [0.4]}},
             'tree_model': tree}
        params['theta_unc'] = P([0.4])
        return [m], params, 'm', {}
    if kind in ('likelihood', 'likelihood-rescaled', 'likelihood-rescaled-tipstates'):
        like = {'id': 'm', 'type': 'TreeLikelihoodModel', 'tree_model': tree,
                'site_model': {'id': 'site', 'type': 'WeibullSiteModel', 'categories': 2,
                               'shape': {'id': 'shape', 'type': 'Parameter', 'tensor': [0.7]}},
                'substitution_model': {'id': 'subst', 'type': 'JC69'},
                'branch_model': {'id': 'clock', 'type': 'StrictClockModel', 'tree_model': 'tree',
                                 'rate': {'id': 'rate', 'type': 'Parameter', 'tensor': [0.05]}},
                'site_pattern': {'id': 'sp', 'type': 'SitePattern', 'alignment': cm.alignment_json(SEQS, taxa='taxa')}}
        params['shape'] = P([0.7], 0.05, None)
        params['rate'] = P([0.05], 0.001, None)
        if 'tipstates' in kind:
            like['use_tip_states'] = True
        return [like], params, 'm', {'rescale': 'rescaled' in kind}
    if kind == 'joint':
        specs = [
            {'id': 'like', 'type': 'TreeLikelihoodModel', 'tree_model': tree,
             'site_model': {'id': 'site', 'type': 'ConstantSiteModel'},
             'substitution_model': {'id': 'subst', 'type': 'JC69'},
             'branch_model': {'id': 'clock', 'type': 'StrictClockModel', 'tree_model': 'tree',
                              'rate': {'id': 'rate', 'type': 'Parameter', 'tensor': [0.05]}},
             'site_pattern': {'id': 'sp', 'type': 'SitePattern', 'alignment': cm.alignment_json(SEQS, taxa='taxa')}},
            {'id': 'coal', 'type': 'ConstantCoalescentModel', 'theta': {'id': 'theta', 'type': 'Parameter', 'tensor': [2.0]},
             'tree_model': 'tree'},
            {'id': 'prior', 'type': 'CTMCScale', 'x': 'rate', 'tree_model': 'tree'},
            {'id': 'm', 'type': 'JointDistributionModel', 'distributions': ['like', 'coal', 'prior', 'tree']},
        ]
        params['rate'] = P([0.05], 0.001, None)
        params['theta'] = P([2.0], 0.01, None)
        return specs, params, 'm', {}
    raise KeyError(kind)


def case_gmrf_time(rescale):
    taxa = cm.taxa_json(3)
    tree = cm.time_tree_json(((0, 1), 2), 3)
    tree['taxa'] = taxa
    m = {'id': 'm', 'type': 'GMRF', 'x': {'id': 'field', 'type': 'Parameter', 'tensor': [0.1, 0.5]},
         'precision': {'id': 'tau', 'type': 'Parameter', 'tensor': [1.5]}, 'tree_model': tree, 'rescale': rescale}
    return [m], {'field': P([0.1, 0.5]), 'tau': P([1.5], 0.01, None), 'tree.heights': P([1.0, 2.5], 0.01, None)}, 'm', \
        {'heights_order': True}


def case_piecewise_linear():
    taxa = cm.taxa_json(3)
    tree = cm.time_tree_json(((0, 1), 2), 3)
    tree['taxa'] = taxa
    m = {'id': 'm', 'type': 'PiecewiseLinearCoalescentGridModel', 'theta': {'id': 'theta', 'type': 'Parameter', 'tensor': [2.0, 3.0]},
         'grid': [1.7], 'tree_model': tree}
    return [m], {'theta': P([2.0, 3.0], 0.01, None), 'tree.heights': P([1.0, 2.5], 0.01, None)}, 'm', {'heights_order': True}


# the derivative through the eigh stub is not modelled (outside the claim): every C10 case whose substitution model is
# diagonalised numerically (HKY, GTR) is left out, whatever C10 adds later
CASES = {k: v for k, v in C10.CASES.items()
         if not (k.startswith('likelihood:') and ('/HKY' in k or '/GTR' in k)) and k not in ('substitution:GTR.q', 'substitution:HKY.q')
         and not k.startswith(('bdsk:', 'birthdeath:', 'extra:'))}
CASES.update({
    'chain:node-height log-Jacobian': lambda: case_chain('jacobian'),
    'chain:constant coalescent on exp-transformed theta, ratio tree': lambda: case_chain('coalescent'),
    'chain:likelihood JC69+Weibull on ratio tree with strict clock': lambda: case_chain('likelihood'),
    'chain:likelihood (rescaling active)': lambda: case_chain('likelihood-rescaled'),
    'chain:likelihood with tip states (rescaling active)': lambda: case_chain('likelihood-rescaled-tipstates'),
    'chain:joint = likelihood + coalescent + CTMC scale + Jacobian': lambda: case_chain('joint'),
    'gmrf:time-aware': lambda: case_gmrf_time(True),
    'gmrf:time-aware no rescale': lambda: case_gmrf_time(False),
    'coalescent:piecewise-linear': case_piecewise_linear,
})


def make_body(cname):
    specs, params, target, opts = CASES[cname]()
    names = []
    for p, (vals, lo, hi) in params.items():
        names += [(p, i) for i in range(len(vals))]

    def body(t, V, W):
        d = t.dag
        A = C10.build(specs)
        for p, (vals, lo, hi) in params.items():
            A[p].tensor = cm.var_tensor(V, [f'{p}[{i}]' for i in range(len(vals))])
        if opts.get('rescale'):
            A[target].rescale = True
        val = A[target]()
        vi = val._ids.reshape(-1).tolist()
        out = 0
        for i in vi:
            out = d.add(out, i)  # model().sum()
        dep = set(d.variables([out]))
        goals = []
        for p, (vals, lo, hi) in params.items():
            ids = [V[f'{p}[{i}]'] for i in range(len(vals))]
            g_auto = d.grad(out, ids, honour_stops=True)
            g_true = d.grad(out, ids, honour_stops=False)
            eqs = [d.eq(a, b) for a, b in zip(g_auto, g_true)]
            goal = d.and_(*eqs)
            goals.append(Goal(f'd value / d {p}: autograd gradient == derivative of the reported value', goal,
                              hyps=ground_axioms(d, [goal]), signature=f'{cname}:{p}:gradient-differs'))
            for i, ga in enumerate(g_auto):
                if f'{p}[{i}]' in dep:
                    # must NOT be identically zero: the solver has to find a point with a non-zero gradient
                    g = Goal(f'd value / d {p}[{i}] is not identically zero', d.not_(d.eq(ga, ga)) if False else d.TRUE,
                             signature=f'{cname}:{p}:gradient-missing')
                    g.nonzero_node = ga
                    goals.append(g)
        body.last = {'A': A, 'out': out, 'grads': {p: d.grad(out, [V[f'{p}[{i}]'] for i in range(len(params[p][0]))], True)
                                                    for p in params}}
        return goals

    def domain(d, V):
        cs = []
        for p, (vals, lo, hi) in params.items():
            for i in range(len(vals)):
                v = V[f'{p}[{i}]']
                if lo is not None:
                    cs.append(d.lt(d.const(lo), v))
                if hi is not None:
                    cs.append(d.lt(v, d.const(hi)))
        if opts.get('heights_order') and 'tree.heights' in params:
            cs.append(d.lt(V['tree.heights[0]'], V['tree.heights[1]']))
        return cs

    W = {f'{p}[{i}]': float(v) for p, (vals, lo, hi) in params.items() for i, v in enumerate(vals)}
    return body, domain, W, (specs, params, target, opts)


def real_gradients(cname, vals):
    """plain tensors + real torch.autograd on the real model"""
    specs, params, target, opts = CASES[cname]()
    A = C10.build(specs)
    leaves = {}
    for p, (base, lo, hi) in params.items():
        x = torch.tensor([vals.get(f'{p}[{i}]', b) for i, b in enumerate(base)], dtype=torch.float64, requires_grad=True)
        leaves[p] = x
        A[p].tensor = x
    if opts.get('rescale'):
        A[target].rescale = True
    out = A[target]().sum()
    out.backward()
    return float(out), {p: (x.grad.clone() if x.grad is not None else None) for p, x in leaves.items()}, A


def finite_difference(cname, vals, p, i, h=1e-6):
    specs, params, target, opts = CASES[cname]()

    def f(delta):
        A = C10.build(specs)
        for q, (base, lo, hi) in params.items():
            x = [vals.get(f'{q}[{k}]', b) for k, b in enumerate(base)]
            if q == p:
                x[i] += delta
            A[q].tensor = torch.tensor(x, dtype=torch.float64)
        if opts.get('rescale'):
            A[target].rescale = True
        with torch.no_grad():
            return float(A[target]().sum())

    return (f(h) - f(-h)) / (2 * h)


def replay(cname, vals):
    specs, params, target, opts = CASES[cname]()
    try:
        out, grads, _ = real_gradients(cname, vals)
    except Exception as e:
        return True, f'backward on the real model raised {type(e).__name__}: {e}'
    for p, (base, lo, hi) in params.items():
        for i in range(len(base)):
            fd = finite_difference(cname, vals, p, i)
            g = None if grads[p] is None else float(grads[p][i])
            if g is None:
                if abs(fd) > 1e-6:
                    return True, f'{p}[{i}] receives no gradient but the numerical derivative is {fd}'
                continue
            if abs(g - fd) > 1e-4 * max(1.0, abs(fd)):
                return True, f'd/d{p}[{i}]: autograd {g} vs numerical derivative {fd}'
    return False, 'agree with finite differences'


def run_task(task, tr):
    from torchtree.core import model as coremodel

    cname = task
    label = cname
    body, domain, W, (specs, params, target, opts) = make_body(cname)
    tr.fn(coremodel.CallableModel.__call__)
    tr.bounds['sizes'] = '3 taxa (4 for the tree prior), 2 rate categories, field length 2-3; every continuous parameter of each density'

    nonzero_pending = []

    def body2(t, V, Wt):
        goals = body(t, V, Wt)
        d = t.dag
        real = []
        for g in goals:
            if hasattr(g, 'nonzero_node'):
                real.append(g)
        # engine autograd model vs real torch.autograd at this witness
        try:
            out, grads, _ = real_gradients(cname, Wt)
            for p, gl in body.last['grads'].items():
                for i, gi in enumerate(gl):
                    ev = d.vals[gi]
                    rv = 0.0 if grads[p] is None else float(grads[p][i])
                    if abs(ev - rv) > 1e-6 * max(1.0, abs(rv)):
                        tr.inconc(f'{label}: engine gradient model {ev} != real torch.autograd {rv} for {p}[{i}] at the witness')
            tr.notes.append(f'{label}: engine autograd model == torch.autograd at witness')
        except Exception as e:
            tr.violation(f'{cname}:backward-raises', f'{label}: backward on the real model raised {type(e).__name__}: {e}',
                         {'case': cname, 'values': Wt})
        # non-zero obligations are existential: decided separately (sat expected)
        from symtorch.explore import prove

        dom = domain(d, V)
        keep = []
        for g in goals:
            if hasattr(g, 'nonzero_node'):
                st, r, _ = prove(d, dom + list(t.pcs), d.eq(g.nonzero_node, 0), timeout=(6 if opts.get('rescale') else 20), tr=tr, label=g.label, parallel=True)
                if st == 'proved':
                    nonzero_pending.append((g, dict(Wt)))
            else:
                keep.append(g)
        return keep

    ex = Explorer(W, domain, body2, tr, max_regions=(2 if opts.get('rescale') else 60), timeout=(15.0 if opts.get('rescale') else 40.0),
                  closure_timeout=(8.0 if opts.get('rescale') else 30.0), label=label, check_defined=False,
                  deadline=time.time() + 600, require_closure=not opts.get('rescale'))
    out = ex.run()
    for s in out.region_samples[:1]:
        s['case'] = label
        tr.sample(s)
    for g, wit in nonzero_pending:
        # identically zero on a whole region: confirm on the real model with finite differences
        ok, detail = replay(cname, wit)
        if ok:
            tr.violation(g.signature, f'{label}: {g.label}: gradient is identically zero on a path region: {detail}',
                         {'case': cname, 'values': wit})
        else:
            tr.notes.append(f'{label}: {g.label}: zero on one region, and the numerical derivative is zero there as well')
    triage(out, lambda vals: replay(cname, vals), tr, label, {'case': cname})


def tasks_for(tier):
    names = list(CASES)
    if tier == 'quick':
        skip = {'tree_prior', 'likelihood:simple/invariant/JC69', 'coalescent:skyride', 'distribution:gamma'}
        names = [n for n in names if n not in skip]
    return names


def body(chk):
    chk.explanation = ('the real densities are executed symbolically; the gradient autograd delivers (reverse differentiation '
                       'honouring detach / no_grad / tensor rebuilds) is compared by the solver with the true derivative of the '
                       'reported value for all parameter values on every path region, and each influencing parameter must admit '
                       'a point with non-zero gradient; the autograd model is cross-checked against torch.autograd at every witness')
    chk.total.assumptions |= {'torch\'s own derivative formulas are trusted (the engine differentiates exp/log/pow/lgamma by rule)',
                              'ties between event times (region boundaries) are outside the claim',
                              'the derivative through eigendecompositions is not modelled: likelihood gradients are checked with JC69 (closed form); '
                              'BDSK gradients are outside this check'}
    pmap(run_task, tasks_for(chk.tier), chk.total)


if __name__ == '__main__':
    if '--replay' in sys.argv:
        import json

        r = json.load(open(sys.argv[sys.argv.index('--replay') + 1]))
        rp = r['replay']
        ok, detail = replay(rp['case'], rp.get('values', {}))
        print(('REPRODUCED ' if ok else 'NOT REPRODUCED ') + detail)
        sys.exit(1 if ok else 0)
    sys.exit(main_for(PID, body))
