"""C17 A checkpoint restores the whole run state; resuming continues the same run.

Deciding step: CrossHair (z3) symbolically executes the REAL torchtree `state_dict/_state_dict/
load_state_dict/_load_state_dict` methods (and TensorEncoder / TensorDecoder / ParameterEncoder /
update_parameters / Parameter.from_json) inside the harness functions of chk/c17_harness.py and
chk/c17_harness_optim.py, with symbolic counters, tuning values, window contents, flags and configuration
selectors.  The JSON text layer is replaced by a pure-Python model of the JSON data model
(chk/c17_model.json_model) which is validated here against the real `json` module.

Per case:  sanity pass (field-classification guard, JSON model == real json on concrete witnesses)
           -> reachability twin (post-condition that must be refuted)
           -> rounds of `crosshair check` on the round-trip condition: a counterexample is parsed, replayed
              concretely through the real json module on the real classes and, if it reproduces, reported
              with a structural signature; that signature is then excluded (C17_SKIP) and the condition is
              checked again until CrossHair answers "Confirmed over all paths" for everything that is left.
Anything other than "Confirmed over all paths" / a reproduced counterexample is inconclusive.

Second engine (chk/c17_resume.py, symtorch + SMT portfolio): "resuming continues the same run" for the Optimizer.
The real Optimizer.from_json / run / save_full_state / restart-as-torchtree.main / run are executed on symbolic
parameter values, learning rates and scheduler decay with an uninterpreted loss; the state of the restarted
optimiser and the states visited by the resumed run are proved equal to those of the uninterrupted run for every
interruption point within the bounds; counterexamples are replayed with real checkpoint files.

chk/c17_main.py (symtorch): the restart sequence of the real torchtree.torchtree.main with one, two and three -c files
(several algorithms, each with its own checkpoint; overlapping files: the last file naming an id decides).
chk/c17_window.py (symtorch, region enumeration): adaptors with a finite adaptation window, checkpoint written before /
inside / after the window; restart state and the next learn call against the uninterrupted object.
"""
from __future__ import annotations

import ast
import inspect
import json
import os
import re
import subprocess
import sys
import time
from concurrent.futures import ThreadPoolExecutor

from vlib.core import REPO, VERIF, main_for, pmap

PID = 'C17'
NAN, INF = float('nan'), float('inf')
BIG = 2 ** 70

# case -> (harness module, function prefix, tier, concrete witnesses for the sanity pass)
OPW = [(3, 2, 1, 0.3, 1, 0, 1, 2), (0, 0, 0, NAN, 0, 0, 0, 0), (BIG, -5, 7, INF, 1, 1, 0, 3), (1, 1, 1, -0.0, 5, 0, 0, 1)]
# the last three entries of the adaptor / composite witnesses: (finite window?, start, end) - counters before, inside, after
HMCW = [(True, True, True, 3, 2, 1, 1, 1, 7, 2, 5, 3, 5, 3, 5, 7, False, 0, 0),
        (False, False, False, 3, 2, 1, 1, 0, 7, 2, 5, 3, 5, 3, 5, 7, True, 1, 2),
        (True, False, True, 0, 0, 0, 0, 1, BIG, -3, 1, 1, 0, 0, 2, 9, True, 5, 9),
        (False, True, False, 1, 1, 1, 0, 0, 1, 1, 0, 0, 4, 0, 0, 0, True, 2, 6),
        (True, True, True, 3, 2, 1, 1, 1, 7, 2, 9, 3, 9, 3, 9, 7, True, 2, 4)]
CASES = {
    'ScalerOperator': ('c17_harness', 'ScalerOperator', 'quick', OPW),
    'SlidingWindowOperator': ('c17_harness', 'SlidingWindowOperator', 'quick', OPW),
    'DirichletOperator': ('c17_harness', 'DirichletOperator', 'quick', OPW),
    'GMRFPiecewiseCoalescentBlockUpdatingOperator':
        ('c17_harness', 'GMRFPiecewiseCoalescentBlockUpdatingOperator', 'quick', OPW),
    'LeapfrogIntegrator': ('c17_harness', 'LeapfrogIntegrator', 'quick', [(7, 0.25), (BIG, NAN), (-1, -INF), (0, 1e-320)]),
    'AdaptiveStepSize': ('c17_harness', 'AdaptiveStepSize', 'quick', [(5, 3, True, False, 0, 0), (0, 0, False, True, 2, 4), (BIG, -1, False, True, 2, 4),
                                                                      (3, 1, True, True, 2, 4)]),
    'DualAveragingStepSize': ('c17_harness', 'DualAveragingStepSize', 'quick',
                              [(5, 3, 1, 0.1, False, 0, 0), (5, 3, 2, 0.1, True, 2, 4), (0, 0, 0, 0.0, True, 2, 4),
                               (1, 0, 1, NAN, True, 0, 0), (2, BIG, 1, INF, True, 1, 3), (3, 2, 2, 0.1, True, 2, 4)]),
    'MassMatrixAdaptor': ('c17_harness', 'MassMatrixAdaptor', 'quick',
                          [(5, 7, True, 0, 0, 0, False, 0, 0), (5, 7, False, 1, 2, 0, True, 2, 4), (5, 7, True, 2, 0, 4, True, 6, 9),
                           (0, 0, False, 0, 0, 0, True, 0, 0), (1, BIG, False, 2, 0, 1, False, 0, 0),
                           (3, 3, True, 1, 0, 0, True, 2, 4)]),
    'HMCOperator[diag]': ('c17_harness', 'HMCOperator_diag', 'quick', HMCW),
    'HMCOperator[dense]': ('c17_harness', 'HMCOperator_dense', 'quick', HMCW),
    'MCMC': ('c17_harness', 'MCMC', 'quick',
             [(42, True, 3, 3, 2, 1, 1, 0, 1, 2, 7, 2, 5, 3, 5, 3, 5, 7, True, 2, 4),
              (42, False, 3, 3, 2, 1, 1, 0, 1, 3, 7, 2, 5, 3, 5, 3, 5, 7, False, 0, 0),
              (42, True, 3, 3, 2, 1, 1, 0, 1, 2, 7, 2, 1, 0, 1, 0, 1, 7, True, 2, 4),
              (BIG, False, -9, 0, 0, 0, 0, 0, 0, 0, 1, 1, 0, 0, 0, 0, 0, 0, False, 0, 0)]),
    'Tensor': ('c17_harness_optim', 'Tensor', 'thorough',
               [(dt, nd, n, nn) for dt in range(4) for nd in range(3) for n in (0, 2, 3) for nn in (False, True)]),
    'Parameter': ('c17_harness_optim', 'Parameter', 'thorough',
                  [(k, sd, nn, lf, df) for k in range(11) for sd in range(3) for nn in (False, True)
                   for lf in (False, True) for df in (False, True)]),
}
for _n in ('SGD', 'Adam', 'Adagrad', 'RMSprop', 'AdamW'):
    CASES[f'Optimizer[{_n}]'] = ('c17_harness_optim', f'Optimizer_{_n}', 'thorough',
                                 [(17, s, w, False, 0.05, 3, 4) for s in range(6) for w in (0, 1, 2)] +
                                 [(BIG, 0, 2, True, NAN, 0, 0), (-1, 0, 2, True, -INF, 1, 1)])

CASES['Optimizer[Adam,quick]'] = ('c17_harness_optim', 'OptimizerQ', 'quick-only',
                                  [(17, s, 2, False, 0.05, 3, 4) for s in (0, 1, 4)] + [(BIG, 1, 2, False, NAN, 0, 0),
                                                                                        (-1, 4, 2, False, -INF, 1, 1)])

BOUNDS = {
    'MCMC operators': 'ScalerOperator, SlidingWindowOperator, DirichletOperator, GMRFPiecewiseCoalescentBlockUpdatingOperator:'
                      ' unbounded symbolic int counters, symbolic float tuning value (incl. nan/inf), acceptance window of'
                      ' 0..3 symbolic ints',
    'HMC parts': 'LeapfrogIntegrator (symbolic steps/step_size); AdaptiveStepSize; DualAveragingStepSize (x/x_bar/s_bar: '
                 'initial None/0, symbolic floats f,f+1,f+2, or 0-dim float64 tensors); MassMatrixAdaptor (diagonal/dense, '
                 'plain / variance_window / swap_every, window of 0..2 concrete samples, dim 3); every adaptor with the '
                 'default (open ended) adaptation window or a finite window [start, end] with symbolic int bounds (the symbolic '
                 'call counter lies before, inside or after it); the integrator step size / mass matrix the adaptor shares '
                 'with its owner holds a non-default value before the adaptor is loaded and must still hold it afterwards',
    'HMCOperator': 'every subset of the three adaptors x diagonal/dense 3x3 mass matrix; window 0..1; finite symbolic step '
                   'size; adaptation windows: class defaults or finite [ws, we], [ws+1, we+1], [ws+2, we+2] with symbolic '
                   'ints ws, we; every component (operator counters, mass matrix, integrator, each adaptor) holds non-default '
                   'values that are independent symbols or pairwise distinct constants, so a later load_state_dict that '
                   'overwrites what an earlier one restored is visible for every ordered pair (container, component)',
    'MCMC': '4 simple operators (+ HMC operator with all three adaptors, default or finite symbolic adaptation windows); '
            'symbolic iteration counter; window 0..3; per-operator counters / tuning values pairwise distinct',
    'Optimizer': 'thorough tier: SGD+momentum, Adam, Adagrad, RMSprop+momentum, AdamW+amsgrad x {no scheduler, StepLR, '
                 'MultiStepLR, ExponentialLR, LambdaLR, CosineAnnealingLR} x {0,1,2} concrete warm-up steps x '
                 '(StanVariationalConvergence only without scheduler, 2 warm-up steps); two parameters (float64 [2], float32 [1]) '
                 'in two param groups; symbolic iteration counter, scheduler last_epoch/_step_count/_last_lr, ELBO; every '
                 'numeric hyper-parameter of both param groups (lr, momentum, betas, eps, weight_decay, ...) concrete and '
                 'different from the specification',
    'codec': 'thorough tier: tensors float64/float32/int64/bool, 0-2 dims, 0..3 columns, nn flag; Parameter specifications '
             'tensor/full/zeros/ones/zeros_like/ones_like/full_like/eye/tensor+dimension/scalar/integer x dtype key '
             '{absent,float32,float64} x nn flag x float32/float64 *_like source x float32/float64 default dtype',
}


# ----------------------------------------------------------------------------------------------- CrossHair
def _harness(modname):
    import importlib

    return importlib.import_module('chk.' + modname)


def crosshair(path, fn, timeout, skip):
    """Run `crosshair check` on one function. -> (status, message, seconds); status in
    confirmed / refuted / unknown."""
    lines, start = inspect.getsourcelines(fn)
    env = dict(os.environ)
    env['C17_SKIP'] = json.dumps(sorted(skip))
    env['PYTHONPATH'] = f'{VERIF}:{REPO}' + (':' + env['PYTHONPATH'] if env.get('PYTHONPATH') else '')
    cmd = [sys.executable, '-m', 'crosshair', 'check', '--report_all', '--per_condition_timeout', str(timeout),
           '--per_path_timeout', str(max(20, timeout // 4)), f'{path}:{start}']
    t0 = time.time()
    try:
        p = subprocess.run(cmd, capture_output=True, text=True, env=env, cwd=VERIF, timeout=timeout * 2 + 120)
        out = p.stdout + '\n' + p.stderr
    except subprocess.TimeoutExpired:
        return 'unknown', 'crosshair subprocess timed out', time.time() - t0
    dt = time.time() - t0
    found = []
    for ln in out.splitlines():
        m = re.match(r'^(.*?):(\d+): (error|info|warning): (.*)$', ln)
        if m and os.path.abspath(m.group(1)) == os.path.abspath(path) and start <= int(m.group(2)) < start + len(lines):
            found.append((m.group(3), m.group(4)))
    if len(found) != 1:
        return 'unknown', f'expected one verdict line, got {found!r}; output tail: {out[-400:]!r}', dt
    level, msg = found[0]
    if level == 'info' and msg.strip() == 'Confirmed over all paths.':
        return 'confirmed', msg, dt
    if level == 'error' and msg.startswith('false when calling'):
        return 'refuted', msg, dt
    return 'unknown', msg, dt


def parse_counterexample(msg, fn):
    """'false when calling f(1, float("nan"), x=True) (which returns 'sig')' -> (args tuple, returned value)"""
    m = re.match(r'^false when calling (\w+)\((.*)\) \(which returns (.*)\)$', msg.strip())
    if not m:
        raise ValueError('cannot parse: ' + msg)

    def cap(*a, **k):
        return a, k

    a, k = eval(f'cap({m.group(2)})', {'__builtins__': {}}, {'cap': cap, 'float': float, 'True': True, 'False': False,
                                                             'None': None, 'nan': NAN, 'inf': INF})
    names = list(inspect.signature(fn).parameters)
    args = list(a) + [k[n] for n in names[len(a):]]
    if len(args) != len(names):
        raise ValueError('arity: ' + msg)
    return tuple(args), ast.literal_eval(m.group(3))


SPECIAL = {
    'update_parameters:dtype-not-restored':
        'a Parameter specified with zeros_like/ones_like/full_like takes its dtype from the referenced parameter; '
        'ParameterEncoder records that dtype in the checkpoint but update_parameters re-injects only the values '
        '(keeping the dtype/nn keys of the specification), so on restart Parameter.from_json rebuilds the tensor with '
        'the specification dtype key or the default dtype: float32 parameter comes back float64 or vice versa',
    'Optimizer.load_state_dict:optimizer.state-int-keys-become-str':
        "Optimizer.state_dict() embeds torch's optimizer.state_dict() whose 'state' is keyed by integer parameter "
        "indices; JSON turns the keys into strings and Optimizer.load_state_dict passes them to torch unchanged, "
        "so torch files the moments/step counts under '0','1',... instead of the parameters: after a restart every "
        "parameter starts with empty optimiser state (momentum buffers, Adam moments and step counts silently lost)",
    'Scheduler[MultiStepLR].load_state_dict:milestones-int-keys-become-str':
        "MultiStepLR.milestones is a Counter keyed by integer epochs; after the JSON round trip Scheduler."
        "load_state_dict installs a dict keyed by strings ('2','5'), `last_epoch in milestones` is never true again "
        "and the learning rate is never decayed after a restart",
    'Optimizer.load_state_dict:convergence-not-restored':
        'the state of the convergence diagnostic (StanVariationalConvergence: elbo, elbo_best, elbo_diff window) is '
        'neither written by Optimizer.state_dict nor restored by load_state_dict: after a restart the stopping rule '
        'starts from scratch',
    'MassMatrixAdaptor.load_state_dict:_values-not-restored':
        'MassMatrixAdaptor with variance_window: the window of past samples (_values) is not checkpointed, so after a '
        'restart the Welford estimator can no longer remove the samples that leave the window',
    'MassMatrixAdaptor.load_state_dict:variance_estimator2-not-restored':
        'MassMatrixAdaptor with swap_every: the second Welford estimator (variance_estimator2: mean, variance, sample '
        'count) is not checkpointed and restarts from zero',
    'DualAveragingStepSize.load_state_dict:_dual_avg._counter-not-restored':
        "DualAveragingStepSize.state_dict writes the dual-averaging iteration counter as 'counter' but "
        "load_state_dict never reads it: after a restart DualAveraging._counter is 0 again (step-size schedule restarts)",
}


def describe(sig):
    if sig in SPECIAL:
        return SPECIAL[sig]
    if '[restored-by-owner]' in sig:
        c = sig.split('.load_state_dict')[0]
        what = sig.split(':')[1].split('[restored-by-owner]')[0]
        return (f"{c}.load_state_dict changes {what}, which belongs to the object the adaptor shares with its owner: "
                f"HMCOperator._load_state_dict restores the integrator and the mass matrix BEFORE it loads the adaptors, so "
                f"the adaptor's load overwrites the restored value (the step size / mass matrix after a restart is not the "
                f"saved one)")
    if ':KeyError-' in sig:
        key = sig.split(':KeyError-')[1]
        c = sig.split('.load_state_dict')[0]
        return (f"{c}.load_state_dict reads state_dict['{key}'], a key {c}.state_dict never writes: restarting from a "
                f"checkpoint raises KeyError('{key}') (and everything loaded after it is left at its initial value)")
    if sig.endswith('-int-keys-become-str'):
        what = sig.split(':')[1][:-len('-int-keys-become-str')]
        return (f"{sig.split('.load_state_dict')[0]}: {what} is keyed by integers in state_dict(); JSON turns the keys into "
                f"strings and load_state_dict passes them on unchanged, so after a restart the entries are filed under "
                f"'0','1',... and are never found again (state silently dropped / schedule never triggers)")
    if sig.endswith('-not-restored'):
        what = sig.split(':')[1][:-len('-not-restored')]
        return (f"{sig.split(':')[0].replace('.load_state_dict', '')}: {what} is not the same after writing a checkpoint "
                f"and restarting from it (the restarted object keeps the value its constructor gave it / a different "
                f"dtype)")
    return sig


def resume_tasks(thorough):
    """symtorch tasks: ('resume', algo, sched, groups, interruption points, further updates K, solver timeout)"""
    from chk import c17_resume as R

    if not thorough:
        scheds = ('StepLR', 'ExponentialLR', 'LambdaLR', 'OneCycleLR', 'none')
        return [('resume', a, s, 2, (1, 2, 3), 1, 30) for s in scheds for a in ('SGD', 'Adam')]
    return [('resume', a, s, g, (1, 2, 3, 4), 2, 120) for s in R.SCHEDS for a in R.ALGOS for g in (2, 1)
            if R.compatible(a, s)]


def main_tasks(thorough):
    """symtorch tasks: ('main', configuration, orders of the -c files, solver timeout)"""
    from chk import c17_main as MN

    return [('main', c, v[2] if thorough else v[1], 120 if thorough else 30) for c, v in MN.CONFIGS.items()]


def window_tasks(thorough):
    """symtorch tasks: ('window', adaptor kind, MassMatrixAdaptor call counters, accepted, solver timeout)"""
    to = 120 if thorough else 30
    allc = (0, 1, 2, 3, 4, 5)
    tasks = [('window', 'DualAveragingStepSize', None, True, to), ('window', 'AdaptiveStepSize', None, True, to),
             ('window', 'AdaptiveStepSize[rate]', None, False, to), ('window', 'MassMatrixAdaptor', allc, True, to),
             ('window', 'all', (1,), False, to)]
    if thorough:
        tasks += [('window', 'DualAveragingStepSize', None, False, to), ('window', 'AdaptiveStepSize', None, False, to),
                  ('window', 'AdaptiveStepSize[rate]', None, True, to), ('window', 'MassMatrixAdaptor', allc, False, to),
                  ('window', 'all', (0, 2, 3), False, to), ('window', 'all', (1, 4, 5), True, to)]
    return tasks


def run_any(task, tr):
    if isinstance(task, tuple) and task[0] == 'resume':
        from chk import c17_resume as R

        return R.resume_task(task, tr)
    if isinstance(task, tuple) and task[0] == 'main':
        from chk import c17_main as MN

        return MN.main_task(task, tr)
    if isinstance(task, tuple) and task[0] == 'window':
        from chk import c17_window as WN

        return WN.window_task(task, tr)
    return run_task(task, tr)


def run_task(case, tr):
    from chk import c17_model as M

    modname, prefix, tier, witnesses = CASES[case]
    mod = _harness(modname)
    path = os.path.join(VERIF, 'chk', modname + '.py')
    f_rt, f_twin = getattr(mod, prefix + '_rt'), getattr(mod, prefix + '_twin')
    timeout = TIMEOUT[0]
    record_functions(case, tr, M)
    tr.stubs |= {'JSON text layer (json.dump / json.load C scanner) replaced by chk.c17_model.json_model inside CrossHair',
                 'dicts handed to load_state_dict inside CrossHair record reads of absent keys (reported as '
                 'KeyError-<key>) and return a sentinel instead of raising, so later fields can still be judged; '
                 'replays use plain dicts',
                 "torch.optim.Optimizer.load_state_dict (torch's own code: dicts keyed by tensors, which CrossHair's "
                 "symbolic-aware dict cannot compare) runs with the opcode tracer off on concrete arguments; torchtree's "
                 "Optimizer.load_state_dict, which prepares them, is traced"}

    # ---- sanity pass (concrete, real json) -----------------------------------------------------------
    for args in witnesses:
        real = M.concrete_problems(case, args)
        model = M.model_problems(case, args, tolerant=False)
        tr.witness_runs += 1
        if real != model:
            tr.inconc(f'{case}: JSON model disagrees with the real json module on witness {args!r}: real={real} '
                      f'model={model}')
            return
    tr.sample({'case': case, 'sanity_witness': repr(witnesses[0]), 'problems_through_real_json':
               M.concrete_problems(case, witnesses[0])}, limit=1)

    # ---- reachability twin + rounds ---------------------------------------------------------------------
    skip = []
    with ThreadPoolExecutor(2) as ex:
        fut_twin = ex.submit(crosshair, path, f_twin, min(timeout, 120), [])
        fut_first = ex.submit(crosshair, path, f_rt, timeout, [])
        st, msg, dt = fut_twin.result()
        account(tr, st, dt)
        tr.obligation(f'{case}: twin post-condition "end of body never reached" must be refuted')
        if st != 'refuted':
            tr.inconc(f'{case}: reachability twin was not refuted ({st}: {msg[:200]}) - a proof of the round trip '
                      f'condition would be vacuous')
            fut_first.result()
            return
        res = fut_first.result()
    for rnd in range(1, 10):
        st, msg, dt = res
        account(tr, st, dt)
        tr.obligation(f'{case}: round trip leaves no problem outside {sorted(skip)}')
        if st == 'confirmed':
            tr.notes.append(f'{case}: Confirmed over all paths after excluding {len(skip)} reported problem(s) '
                            f'({dt:.0f}s)')
            return
        if st != 'refuted':
            tr.inconc(f'{case}: CrossHair verdict "{msg[:300]}" (round {rnd}, excluded={skip})')
            return
        try:
            args, sig = parse_counterexample(msg, f_rt)
        except Exception as e:
            tr.inconc(f'{case}: unparsable counterexample ({e})')
            return
        real = M.concrete_problems(case, args)
        tr.witness_runs += 1
        if sig in real:
            tr.violation(sig, describe(sig), {'case': case, 'args': list(args), 'signature': sig,
                                              'all_problems_on_real_json': real, 'crosshair': msg[:500]})
            tr.sample({'case': case, 'counterexample_args': repr(args), 'signature': sig, 'replayed_on_real_json': True})
        else:
            tr.inconc(f'{case}: CrossHair counterexample {sig} with args {args!r} did not reproduce through the real '
                      f'json module (got {real})')
        skip.append(sig)
        res = crosshair(path, f_rt, timeout, skip)
    tr.inconc(f'{case}: more than 9 rounds')


def account(tr, st, dt):
    tr.regions += 1
    tr.queries += 1
    tr.solver_s += dt
    tr.by_solver['crosshair-z3'] = tr.by_solver.get('crosshair-z3', 0) + 1
    if st == 'confirmed':
        tr.unsat += 1
        tr.closures += 1
    elif st == 'refuted':
        tr.sat += 1
    else:
        tr.unknown += 1


def record_functions(case, tr, M):
    from torchtree.core.parameter import Parameter
    from torchtree.core.parameter_encoder import ParameterEncoder
    from torchtree.core.utils import TensorDecoder, TensorEncoder, update_parameters
    from torchtree.inference.hmc.adaptation import Adaptor, AdaptiveStepSize, DualAveragingStepSize, MassMatrixAdaptor
    from torchtree.inference.hmc.integrator import Integrator, LeapfrogIntegrator
    from torchtree.inference.hmc.operator import HMCOperator
    from torchtree.inference.mcmc.gmrf_block_updating import GMRFPiecewiseCoalescentBlockUpdatingOperator as G
    from torchtree.inference.mcmc.mcmc import MCMC
    from torchtree.inference.mcmc.operator import (DirichletOperator, MCMCOperator, ScalerOperator,
                                                   SlidingWindowOperator)
    from torchtree.optim.lr_scheduler import Scheduler
    from torchtree.optim.optimizer import Optimizer

    base = [MCMCOperator.state_dict, MCMCOperator.load_state_dict]
    codec = [ParameterEncoder.default, TensorEncoder.default, TensorDecoder.object_hook]
    table = {
        'ScalerOperator': base + [ScalerOperator._state_dict, ScalerOperator._load_state_dict],
        'SlidingWindowOperator': base + [SlidingWindowOperator._state_dict, SlidingWindowOperator._load_state_dict],
        'DirichletOperator': base + [DirichletOperator._state_dict, DirichletOperator._load_state_dict],
        'GMRFPiecewiseCoalescentBlockUpdatingOperator': base + [G._state_dict, G._load_state_dict],
        'LeapfrogIntegrator': [Integrator.state_dict, LeapfrogIntegrator._state_dict, LeapfrogIntegrator.load_state_dict],
        'AdaptiveStepSize': [Adaptor.state_dict, AdaptiveStepSize._state_dict, AdaptiveStepSize.load_state_dict],
        'DualAveragingStepSize': [Adaptor.state_dict, DualAveragingStepSize._state_dict,
                                  DualAveragingStepSize.load_state_dict] + codec,
        'MassMatrixAdaptor': [Adaptor.state_dict, MassMatrixAdaptor._state_dict, MassMatrixAdaptor.load_state_dict],
        'HMCOperator[diag]': base + [HMCOperator._state_dict, HMCOperator._load_state_dict, HMCOperator.update_mass_matrices,
                               Parameter.from_json] + codec,
        'MCMC': [MCMC.state_dict, MCMC.load_state_dict],
        'Tensor': codec,
        'Parameter': codec + [update_parameters, Parameter.from_json],
    }
    table['HMCOperator[dense]'] = table['HMCOperator[diag]']
    fns = table.get(case)
    if fns is None:
        fns = [Optimizer.state_dict, Optimizer.load_state_dict, Scheduler.state_dict, Scheduler.load_state_dict] + codec
    tr.fn(*fns)
    tr.fn(M.json_model, M.roundtrip, M.diff)


# ------------------------------------------------------------------------------------------ global sanity
def strict_eq(a, b):
    if type(a) is not type(b):
        return False
    if isinstance(a, float):
        return a == b and (a != 0 or str(a) == str(b)) or (a != a and b != b)
    if isinstance(a, list):
        return len(a) == len(b) and all(strict_eq(x, y) for x, y in zip(a, b))
    if isinstance(a, dict):
        return list(a.keys()) == list(b.keys()) and all(strict_eq(a[k], b[k]) for k in a)
    return a == b


def json_model_sanity(tr):
    """The pure-Python JSON data model against json.loads(json.dumps(x)) on a corpus that exercises every rule."""
    import collections

    import torch

    from chk import c17_model as M

    good = [
        {1: 'a', 2: {3: [(1, 2), (3,)], -4: ()}}, {True: 1, False: 2, None: 3}, {1.5: 'x', NAN: 'y', INF: 1, -INF: 2},
        {1: 'a', '1': 'b'}, {'1': 'a', 1: 'b'}, [1, 1.0, True, None, 'é\n"', BIG, -BIG, 1e-320, -0.0, 0.1, 1e308],
        [NAN, INF, -INF], {'state': {0: {'step': 3, 'buf': [0.5, (1, 2)]}}, 'param_groups': [{'betas': (0.9, 0.999),
                                                                                            'params': [0, 1]}]},
        collections.Counter({2: 1, 5: 1}), collections.OrderedDict([(3, 'x')]), [], {}, (), '', 0, [[[]]], {'a': {}},
    ]
    bad = [set(), {1, 2}, object(), collections.deque([1]), b'ab', 1j, {(1, 2): 3}, [1, {2: set()}], {'a': [object()]},
           torch.tensor([1.0]), range(3)]
    for x in good:
        want = json.loads(json.dumps(x))
        got = M.json_model(x)
        tr.witness_runs += 1
        if not strict_eq(want, got):
            tr.inconc(f'JSON model differs from json on {x!r}: json={want!r} model={got!r}')
    for x in bad:
        tr.witness_runs += 1
        try:
            json.dumps(x)
            real_ok = True
        except TypeError:
            real_ok = False
        try:
            M.json_model(x)
            model_ok = True
        except M.NotSerialisable:
            model_ok = False
        if real_ok or model_ok:
            tr.inconc(f'JSON model / json disagree on non-serialisable {x!r}: json accepted={real_ok} model '
                      f'accepted={model_ok}')
    # with the torchtree encoder / decoder classes
    from torchtree.core.parameter import Parameter

    for x in [{'t': torch.tensor([1.0, 2.0], dtype=torch.float32)}, [torch.tensor(3), torch.tensor([[True, False]])],
              {0: torch.nn.Parameter(torch.tensor([0.5]))}, [Parameter('p', torch.tensor([1.0, NAN, INF]))],
              {'x': torch.tensor(-1.25, dtype=torch.float64), 'n': None}]:
        tr.witness_runs += 1
        d = M.diff(M.checkpoint_real(x), M.checkpoint_model(x), 'x')
        if d:
            tr.inconc(f'checkpoint model differs from json+ParameterEncoder/TensorDecoder on {x!r}: {d}')


def guard(tr, thorough):
    """Every attribute of the objects under test is classified as constructor-determined or as run state."""
    from chk import c17_model as M

    objs = [M.mk_mcmc(True, diag=True, has_ass=True, has_da=True, has_mma=True, mma_mode=0),
            M.mk_mma(diag=False, mode=1), M.mk_mma(diag=True, mode=2)]
    if thorough:
        objs.append(M.mk_optimizer(1, 2, 1, True))
    for o in objs:
        u = M.unclassified_fields(o)
        if u:
            tr.inconc(f'unclassified attribute(s) {u}: the C17 harness does not know whether they are run state; '
                      f'extend chk/c17_model.view / CTOR')
    try:
        from torchtree.inference.hmc.stan_adaptation import StanWindowedAdaptation

        StanWindowedAdaptation(None, M.mk_mma(), 100, 10, 10, 10)
        tr.inconc('StanWindowedAdaptation can now be instantiated: add a C17 case for it')
    except TypeError:
        tr.notes.append('StanWindowedAdaptation cannot be instantiated (abstract _state_dict/load_state_dict not '
                        'implemented), so no run and no checkpoint can contain it: not a C17 case')


TIMEOUT = [60]


def body(chk):
    tr = chk.total
    thorough = chk.tier == 'thorough'
    TIMEOUT[0] = 900 if thorough else 90
    chk.rule = ('one case = one CrossHair condition (PEP316 post-condition of one harness function, for one set of '
                'already-reported signatures); distinct = different condition text; non-trivial = the condition '
                'quantifies over symbolic inputs')
    chk.explanation = (
        'CrossHair (z3) symbolically executes the real state_dict/_state_dict/load_state_dict/_load_state_dict of MCMC, '
        'every MCMCOperator subclass, HMCOperator, LeapfrogIntegrator, AdaptiveStepSize, DualAveragingStepSize, '
        'MassMatrixAdaptor' + (', Optimizer/Scheduler over real torch optimisers, TensorEncoder/TensorDecoder/'
                               'ParameterEncoder/update_parameters/Parameter.from_json' if thorough else '') +
        ' on symbolic counters, tuning values, window contents and configuration flags; the checkpoint passes through a '
        'pure-Python model of the JSON data model (validated against the real json module); post-condition: load never '
        'raises, never reads a key that was not written, every run-state field of the restarted object equals the '
        'original (values, dtypes, key types) and state_dict() is unchanged.  Each condition has a reachability twin '
        'that must be refuted.  Counterexamples are replayed through json.dumps/json.loads on the real classes.  '
        'Resuming: symtorch executes the real Optimizer.from_json/run/save_full_state, the restart of torchtree.main '
        '(update_parameters, process_objects, load_state_dict) and the resumed run on symbolic parameter values, '
        'learning rates and scheduler decay with real torch.optim steps and an uninterpreted loss; z3/cvc5 prove that '
        'the restarted state equals the written one and that the resumed run visits the states of the uninterrupted '
        'run; counterexamples are replayed with real checkpoint files.  Restart sequence: symtorch executes the real '
        'torchtree.torchtree.main (argparse, real files, update_parameters, process_objects, load_state_dict) on a '
        'specification with several algorithms and one, two or three -c files in several orders (disjoint and overlapping '
        'parameter sets); the solvers prove that every parameter named in any file and every algorithm hold the state of '
        'the last file naming them.  Adaptation windows: symtorch enumerates the regions of a symbolic call counter '
        'relative to symbolic window bounds (coverage query unsat) for HMCOperator + DualAveragingStepSize / '
        'AdaptiveStepSize / MassMatrixAdaptor; in every region the restarted state equals the written one and the next '
        'learn call gives the step size / mass matrix / state of the uninterrupted object.')
    tr.assumptions |= {
        'JSON data model: dict keys int/float/bool/None become strings, tuples become lists, str/int/float/bool/None are '
        'preserved exactly (floats via repr round trip, NaN/Infinity tokens allowed), unknown types go through '
        'ParameterEncoder.default, decoded objects through TensorDecoder.object_hook; validated against the real json '
        'module on every sanity witness and every counterexample',
        'CrossHair cases: tensor payloads (parameter values, moments, mass matrices, Welford means/variances) are concrete; '
        'counters, tuning values, iteration numbers, window contents, flags, configuration selectors and adaptation-window '
        'bounds are symbolic (the symtorch clauses make the tensor payloads symbolic instead)',
        'tuple vs list is not counted as a difference (JSON data model); int-vs-str dict keys, dtypes, nn flag, '
        'None-vs-value and container lengths are',
        '"a deterministic run resumed from a checkpoint visits the same sequence of parameter states" is decided for '
        'the Optimizer (deterministic; see bounds "Optimizer resume"); OUTSIDE THE CLAIM for MCMC: its proposals are '
        'random and the RNG state is not part of any checkpoint (note: MCMC/Optimizer save _epoch before incrementing '
        'it, so a resumed run re-executes iteration _epoch)',
        'OUTSIDE THE CLAIM: LBFGS internals, ReduceLROnPlateau/cyclic schedulers, parameter dimension > 3, devices '
        'other than cpu, file-system behaviour of save_parameters (C18)',
        'composite cases (HMCOperator, MCMC) use finite symbolic floats derived from symbolic ints (n*0.125); the full '
        'float domain incl. nan/inf is covered by the leaf cases',
    }
    for k, v in BOUNDS.items():
        if thorough or k not in ('Optimizer', 'codec'):
            tr.bounds[k] = v
    if not thorough:
        tr.bounds['Optimizer (quick slice)'] = (
            'CrossHair: Adam x {no scheduler, StepLR, LambdaLR}, 2 concrete warm-up steps, two param groups (float64 [2], '
            'float32 [1]) whose numeric hyper-parameters all differ from the specification; symbolic iteration counter, '
            'scheduler last_epoch/_step_count/_last_lr; the other optimisers / schedulers: thorough tier')
    json_model_sanity(tr)
    guard(tr, thorough)
    cases = [c for c, v in CASES.items() if (v[2] != 'quick-only' if thorough else v[2] in ('quick', 'quick-only'))]
    from chk import c17_resume as R

    rt = resume_tasks(thorough)
    tr.bounds['Optimizer resume'] = R.BOUNDS_TEXT.format(
        algos=sorted({t[1] for t in rt}), scheds=sorted({t[2] for t in rt}), groups=sorted({t[3] for t in rt}),
        points=list(rt[0][4]), K1=rt[0][5] + 1)
    from chk import c17_main as MN
    from chk import c17_window as WN

    mt, wt = main_tasks(thorough), window_tasks(thorough)
    tr.bounds['main with 1-3 checkpoint files'] = MN.BOUNDS_TEXT.format(
        configs='; '.join(f'{c}: {MN.CONFIGS[c][0]}' for _, c, _, _ in mt),
        orders='; '.join(f'{c}: ' + ', '.join('(' + ' '.join(o) + ')' for o in orders) for _, c, orders, _ in mt))
    tr.bounds['adaptation windows'] = WN.BOUNDS_TEXT.format(
        kinds=sorted({t[1] for t in wt}), counters=sorted({c for t in wt if t[1] == 'MassMatrixAdaptor' for c in t[2]}))
    # the CrossHair cases are the long ones: they are submitted first
    pmap(run_any, cases + rt + mt + wt, tr)


def replay(path):
    from chk import c17_model as M

    r = json.load(open(path))['replay']
    if r.get('kind') == 'main':
        from chk import c17_main as MN

        ok, sig, detail = MN.replay(r['config'], r['order'], r['values'])
        ok = ok and sig == r['signature']
        print(('REPRODUCED ' if ok else 'NOT REPRODUCED ') + f"{r['signature']} main[{r['config']}] -c {' -c '.join(r['order'])} "
              f"values={r['values']}: {detail}")
        return 1 if ok else 0
    if r.get('kind') == 'window':
        from chk import c17_window as WN

        ok, sig, detail = WN.replay_case(r['adaptor'], r['counter'], r['accepted'], r['values'])
        ok = ok and sig == r['signature']
        print(('REPRODUCED ' if ok else 'NOT REPRODUCED ') + f"{r['signature']} window[{r['adaptor']}] counter={r['counter']} "
              f"values={r['values']}: {detail}")
        return 1 if ok else 0
    if r.get('kind') == 'resume':
        from chk import c17_resume as R

        ok, sig, detail = R.replay(r['algo'], r['sched'], r['groups'], r['N'], r['K'], r['values'])
        ok = ok and sig == r['signature']
        print(('REPRODUCED ' if ok else 'NOT REPRODUCED ') + f"{r['signature']} resume[{r['algo']}+{r['sched']}] N={r['N']} "
              f"values={r['values']}: {detail}")
        return 1 if ok else 0
    probs = M.concrete_problems(r['case'], tuple(r['args']))
    ok = r['signature'] in probs
    print(('REPRODUCED ' if ok else 'NOT REPRODUCED ') + f"{r['signature']} case={r['case']} args={r['args']} "
          f"problems through real json: {probs}")
    return 1 if ok else 0


if __name__ == '__main__':
    if '--replay' in sys.argv:
        sys.exit(replay(sys.argv[sys.argv.index('--replay') + 1]))
    sys.exit(main_for(PID, body, level='other'))
