"""C16 The leapfrog integrator is reversible and volume preserving.

The real LeapfrogIntegrator.__call__ / Hamiltonian / HMCOperator._step are run with
the target an UNINTERPRETED differentiable function: model() returns U(q) and
backward() delivers the uninterpreted gradient g(q) (symbolic reverse
differentiation of the recorded DAG).  Symbolic q, p, step size, inverse mass matrix.
  * flip-and-return: integrate, negate the momentum, integrate again -> (q, -p)
  * det d(q',p')/d(q,p) == 1 (Hessian symbols symmetric)
  * energy error: dH(eps) has dH(0) = 0 and d dH/d eps (0) = 0  (=> O(eps^2))
  * HMCOperator._step returns K0 - K1 with K = p^T M^-1 p / 2, and restores the
    parameters when the trajectory fails numerically
  * retuned objects (history_task): one integrator / operator, used, then retuned through
    every mutator; every clause again for the tunables the object reports
  * consecutive calls (seq_task): histories of 2 / 3 calls of ONE integrator / operator on
    ONE set of parameter objects with the target U(q, h) changing between the calls through
    a parameter h outside the HMC block (accepted / rejected / Gibbs update / in-place
    writes / restore-and-retry); every clause after every call for the CURRENT target
"""
from __future__ import annotations

import itertools
import sys

import torch

import common as cm
from symtorch import SymFloat, SymTensor, cur, from_ids, new_vars, tracing
from symtorch.tensor import mkfloat
from vlib.core import main_for, pmap

PID = 'C16'


def make_target(params, kind='uf'):
    from torchtree.core.model import CallableModel

    class Target(CallableModel):
        def __init__(self, ps):
            super().__init__('target')
            for i, p in enumerate(ps):
                setattr(self, f'p{i}', p)
            self.ps = ps
            self.calls = 0
            self.fail_at = None

        def _call(self, *a, **k):
            self.calls += 1
            d = cur().dag
            q = torch.cat([p.tensor for p in self.ps], -1)
            if self.fail_at is not None and self.calls == self.fail_at:
                return torch.tensor(float('nan'))
            ids = q._ids.tolist()
            if kind == 'uf':
                vals = tuple(d.vals[i] for i in ids)
                key = ('U', vals)
                if key not in d.uf_witness:
                    d.uf_witness[key] = -0.5 * sum(v * v for v in vals) + 0.1 * sum(vals)
                out = d.uf('U', *ids)
            else:  # standard Gaussian log density (quadratic target)
                out = 0
                for i in ids:
                    out = d.add(out, d.mul(d.const(-0.5), d.mul(i, i)))
            r = from_ids(torch.tensor(out, dtype=torch.int64))
            r._rg = any(p.tensor._rg for p in self.ps if isinstance(p.tensor, SymTensor))
            return r

        def _sample_shape(self):
            return torch.Size([])

        @classmethod
        def from_json(cls, data, dic):
            raise NotImplementedError

    return Target(params)


def uf_partial_witness(d):
    """witness values for gradient / Hessian symbols of U: those of U(q) = -|q|^2/2 + 0.1 sum(q)"""
    def grad_k(k):
        return lambda *q: -q[k] + 0.1

    def hess(k, l):
        return lambda *q: (-1.0 if k == l else 0.0)

    # U itself too (same values as the table filled by Target._call): substitutions (eps -> 0) may evaluate U at new points
    d.uf_eval['U'] = lambda *q: -0.5 * sum(v * v for v in q) + 0.1 * sum(q)
    for k in range(4):
        d.uf_eval[f'd{k}~U'] = grad_k(k)
        for l in range(4):
            d.uf_eval[f'd{l}~d{k}~U'] = hess(k, l)


def setup(dim, nparams, dense, symbolic_eps=True, steps=2, kind='uf'):
    from torchtree.core.parameter import Parameter
    from torchtree.inference.hmc.integrator import LeapfrogIntegrator

    t = cur()
    d = t.dag
    uf_partial_witness(d)
    sizes = [dim] if nparams == 1 else [1] * dim
    if nparams == 3:
        sizes = [1, 1, dim - 2]
    qs = []
    params = []
    k = 0
    for i, sz in enumerate(sizes):
        st = new_vars(f'q{i}', torch.tensor([0.3 + 0.4 * (k + j) for j in range(sz)], dtype=torch.float64))
        k += sz
        params.append(Parameter(f'x{i}', st))
        qs.append(st)
    p0 = new_vars('p', torch.tensor([0.7 - 0.5 * j for j in range(dim)], dtype=torch.float64))
    if dense:
        raw = torch.tensor([[1.3, 0.2, 0.1], [0.2, 0.8, 0.05], [0.1, 0.05, 1.1]], dtype=torch.float64)[:dim, :dim]
        im = new_vars('Minv', raw)
        # symmetric: use the same symbol for [i,j] and [j,i]
        ids = im._ids.clone()
        for i in range(dim):
            for j in range(i):
                ids[i, j] = ids[j, i]
        im = from_ids(ids)
    else:
        im = new_vars('Minv', torch.tensor([1.3, 0.8, 1.1][:dim], dtype=torch.float64))
    eps = mkfloat(d.var('eps', 0.11)) if symbolic_eps else 0.11
    integ = LeapfrogIntegrator('leapfrog', steps, eps)
    model = make_target(params, kind)
    return params, p0, im, eps, integ, model


def domain(d, dim, dense, V):
    cs = [d.lt(0, V['eps'])] if 'eps' in V else []
    if dense:
        if dim == 1:
            cs.append(d.lt(0, V['Minv[0,0]']))
        else:
            a, b, c = V['Minv[0,0]'], V['Minv[0,1]'], V['Minv[1,1]']
            cs += [d.lt(0, a), d.lt(0, d.sub(d.mul(a, c), d.mul(b, b)))]
    else:
        cs += [d.lt(0, V[f'Minv[{j}]']) for j in range(dim) if f'Minv[{j}]' in V]
    return cs


def hess_symmetry(d, roots):
    """ground instances of d_k d_l U == d_l d_k U for the Hessian symbols that occur"""
    hy = []
    seen = {}
    for n in d.topo(roots):
        if d.ops[n] == 'uf' and d.args[n][0].count('~') == 2:
            name = d.args[n][0]
            l, k, base = name.split('~')
            seen[(l, k, base, d.args[n][1:])] = n
    for (l, k, base, args), n in list(seen.items()):
        other = seen.get((k, l, base, args))
        if other is None:
            other = d.uf(f'{k}~{l}~{base}', *args)
        hy.append(d.eq(n, other))
    return hy


def reversibility_task(task, tr):
    from torchtree.inference.hmc.integrator import LeapfrogIntegrator

    _, dim, nparams, dense, steps = task
    label = f'reversibility d={dim} params={nparams} dense={dense} steps={steps}'
    tr.fn(LeapfrogIntegrator.__call__)
    with tracing() as t:
        d = t.dag
        params, p0, im, eps, integ, model = setup(dim, nparams, dense, True, steps)
        q0 = [i for p in params for i in p.tensor._ids.tolist()]
        pm = integ(model, params, p0, im)
        q1 = [i for p in params for i in p.tensor._ids.tolist()]
        back = integ(model, params, -pm, im)
        q2 = [i for p in params for i in p.tensor._ids.tolist()]
        tr.witness_runs += 1
        tr.ops_checked += t.nchecked
        tr.regions += 1
        if t.concretized:
            tr.inconc(f'{label}: concretised {t.concretized[:2]}')
            return
        V = {d.args[i][0]: i for i in d.topo(q2 + back._ids.tolist()) if d.ops[i] == 'var'}
        goals = [('positions return: q(after flip-and-return) == q', d.and_(*[d.eq(a, b) for a, b in zip(q2, q0)])),
                 ('momentum returns negated: p(after) == -p', d.and_(*[d.eq(a, d.neg(b)) for a, b in zip(back._ids.tolist(), p0._ids.tolist())])),
                 ('requires_grad switched off on return', d.bconst(all(p.requires_grad is False for p in params)))]
        tr.sample({'case': label, 'q1[0]': d.to_str(q1[0], 4), 'n_path_conditions': len(t.pcs)})
        cm.discharge(tr, d, domain(d, dim, dense, V) + list(t.pcs), goals, label, replay=lambda v: replay_rev(dim, nparams, dense, steps, v),
                     varnodes=V, sig_prefix='LeapfrogIntegrator:', defined=False, timeout=40, threads=3, parallel=True)


def volume_task(task, tr):
    from torchtree.inference.hmc.integrator import LeapfrogIntegrator

    _, dim, nparams, dense, steps = task
    label = f'volume d={dim} params={nparams} dense={dense} steps={steps}'
    tr.fn(LeapfrogIntegrator.__call__)
    with tracing() as t:
        d = t.dag
        params, p0, im, eps, integ, model = setup(dim, nparams, dense, True, steps)
        q0 = [i for p in params for i in p.tensor._ids.tolist()]
        pm = integ(model, params, p0, im)
        q1 = [i for p in params for i in p.tensor._ids.tolist()]
        tr.witness_runs += 1
        tr.ops_checked += t.nchecked
        tr.regions += 1
        z0 = q0 + p0._ids.tolist()
        z1 = q1 + pm._ids.tolist()
        J = [d.grad(a, z0, honour_stops=False) for a in z1]
        import C07

        det = C07.det_leibniz(d, J)
        V = {d.args[i][0]: i for i in d.topo(z1) if d.ops[i] == 'var'}
        hy = hess_symmetry(d, [det])
        goals = [('det d(q\',p\')/d(q,p) == 1', d.eq(det, 1), hy)]
        tr.sample({'case': label, 'det_nodes': d.size([det])})
        tr.assumptions.add('the Hessian of the uninterpreted target is symmetric (ground instances for the points visited)')
        cm.discharge(tr, d, domain(d, dim, dense, V), goals, label, replay=lambda v: replay_vol(dim, nparams, dense, steps, v),
                     varnodes=V, sig_prefix='LeapfrogIntegrator:', defined=False, timeout=60 if cm_tier() == 'quick' else 300, parallel=True)


def energy_task(task, tr):
    from torchtree.inference.hmc.hamiltonian import Hamiltonian
    from torchtree.inference.hmc.integrator import LeapfrogIntegrator

    _, dim, nparams, dense, steps, kind = task
    label = f'energy order d={dim} params={nparams} dense={dense} steps={steps} target={kind}'
    tr.fn(LeapfrogIntegrator.__call__, Hamiltonian.kinetic_energy)
    with tracing() as t:
        d = t.dag
        params, p0, im, eps, integ, model = setup(dim, nparams, dense, True, steps, kind)
        ham = Hamiltonian(None, model)
        K0 = ham.kinetic_energy(p0, im)
        U0 = model()
        pm = integ(model, params, p0, im)
        K1 = ham.kinetic_energy(pm, im)
        U1 = model()
        tr.witness_runs += 1
        tr.ops_checked += t.nchecked
        tr.regions += 1
        # H = -log density + K
        def sid(x):
            return int(x._ids.reshape(-1)[0])

        dH = d.sub(d.add(d.neg(sid(U1)), sid(K1)), d.add(d.neg(sid(U0)), sid(K0)))
        e = d.var_ids['eps']
        dH0 = d.substitute([dH], {e: 0})[0]
        g = d.grad(dH, [e], honour_stops=False)[0]
        g0 = d.substitute([g], {e: 0})[0]
        V = {d.args[i][0]: i for i in d.topo([dH]) if d.ops[i] == 'var'}
        goals = [('energy error vanishes at eps = 0', d.eq(dH0, 0)),
                 ('first derivative of the energy error w.r.t. eps vanishes at eps = 0 (error is O(eps^2))', d.eq(g0, 0))]
        tr.sample({'case': label, 'dH_nodes': d.size([dH])})
        cm.discharge(tr, d, domain(d, dim, dense, V), goals, label, replay=lambda v: replay_energy(dim, nparams, dense, steps, v),
                     varnodes=V, sig_prefix='LeapfrogIntegrator:', defined=False, timeout=40, parallel=True)


def hastings_task(task, tr):
    from torchtree.core.parameter import Parameter
    from torchtree.inference.hmc.operator import HMCOperator
    from torchtree.inference.hmc.hamiltonian import Hamiltonian

    _, dim, nparams, dense, steps, fail = task
    label = f'HMCOperator._step d={dim} params={nparams} dense={dense} steps={steps} numerical-failure={fail}'
    tr.fn(HMCOperator._step, Hamiltonian.sample_momentum, Hamiltonian.kinetic_energy)
    tr.stubs.add('Hamiltonian.sample_momentum: the drawn momentum is an arbitrary symbolic vector')
    with tracing() as t:
        d = t.dag
        params, p0, im, eps, integ, model = setup(dim, nparams, dense, True, steps)
        # mass matrix parameter: the operator inverts it; give it the inverse-of-inverse through the same symbols
        if dense:
            mass = Parameter('mass', new_vars('M', torch.linalg.inv(im._v)))
        else:
            mass = Parameter('mass', new_vars('M', 1.0 / im._v))
        op = HMCOperator('hmc', model, params, integ, mass, 1.0, 0.8, [])
        inv_used = op.inverse_mass_matrix
        draws = []

        def fake_sample(mm):
            k = len(draws)
            pv = new_vars(f'mom{k}', torch.tensor([0.7 - 0.5 * j + 0.1 * k for j in range(dim)], dtype=torch.float64))
            draws.append(pv)
            return pv

        op._hamiltonian.sample_momentum = fake_sample
        if fail:
            model.fail_at = model.calls + 3  # a NaN potential in the middle of the first trajectory
        before = [p.tensor._ids.tolist() for p in params]
        ret = op.step()
        tr.witness_runs += 1
        tr.ops_checked += t.nchecked
        tr.regions += 1
        after = [p.tensor._ids.tolist() for p in params]
        V = {d.args[i][0]: i for i in d.topo([int(ret._ids.reshape(-1)[0])] + sum(after, [])) if d.ops[i] == 'var'}
        goals = []
        # which draw was the successful one
        used = draws[-1]
        # independent kinetic energy with the inverse mass matrix the operator holds
        def K(pids):
            acc = 0
            imi = inv_used._ids
            for i in range(dim):
                for j in range(dim):
                    m = int(imi[i, j]) if imi.dim() == 2 else (int(imi[i]) if i == j else 0)
                    acc = d.add(acc, d.mul(d.mul(pids[i], m), pids[j]))
            return d.mul(d.const(0.5), acc)

        # recompute the trajectory independently of the operator to get the final momentum
        if fail:
            goals.append(('a numerically failed trajectory is retried with a fresh momentum draw', d.bconst(len(draws) == 2)))
        # the operator must return K(p0) - K(p_end); p_end is what the real integrator returns for this draw:
        for p_, b in zip(params, before):
            p_.tensor = from_ids(torch.tensor(b, dtype=torch.int64))
        model.fail_at = None
        pend = integ(model, params, used, inv_used)
        again = [p.tensor._ids.tolist() for p in params]
        goals.append(('Hastings term == K(p_start) - K(p_end) with K = p^T M^-1 p / 2',
                      d.eq(int(ret._ids.reshape(-1)[0]), d.sub(K(used._ids.tolist()), K(pend._ids.tolist())))))
        goals.append(('proposed position is the end point of the leapfrog trajectory started at the saved state',
                      d.and_(*[d.eq(a, b) for x, y in zip(after, again) for a, b in zip(x, y)])))
        goals.append(('requires_grad switched off on the parameters', d.bconst(all(p.requires_grad is False for p in params))))
        # reject() restores the state exactly
        for p_, a in zip(params, after):
            p_.tensor = from_ids(torch.tensor(a, dtype=torch.int64))
        op.reject()
        rest = [p.tensor._ids.tolist() for p in params]
        goals.append(('reject() restores every parameter to its value before the proposal (identical expressions)',
                      d.bconst(rest == before)))
        # inverse mass matrix relation (diagonal): M^-1 == 1/M
        if not dense:
            goals.append(('inverse mass matrix == 1 / mass matrix',
                          d.and_(*[d.eq(int(inv_used._ids[j]), d.div(1, int(mass.tensor._ids[j]))) for j in range(dim)])))
        tr.sample({'case': label, 'hastings': d.to_str(int(ret._ids.reshape(-1)[0]), 4)})
        dom = [d.lt(0, V['eps'])] + [d.lt(0, i) for n, i in V.items() if n.startswith('M[') and (not dense or n in ('M[0,0]',))]
        cm.discharge(tr, d, dom + list(t.pcs), goals, label,
                     replay=lambda v: replay_hastings(dim, nparams, dense, steps, fail, v), varnodes=V,
                     sig_prefix='HMCOperator._step:',
                     defined=False, timeout=40, parallel=True)


# ------------------------------------------------------------------ histories: objects built once, USED, then RETUNED
# Every task above builds a fresh integrator / operator and uses it once.  In a run the same objects live for the whole
# chain while their tunables are rewritten: the step size through the attribute, LeapfrogIntegrator.load_state_dict, the
# operator's adaptable parameter (MCMCOperator.tune), the AdaptiveStepSize / DualAveragingStepSize adaptors,
# find_reasonable_step_size, the checkpoint of the operator; the number of steps through load_state_dict; the mass
# matrix through its Parameter (listener -> update_mass_matrices), the checkpoint and the MassMatrixAdaptor.
# history_task: build (eps0, steps0, M0) -> one transition (anything computed lazily is now cached) -> change the
# tunables through the real mutator with SYMBOLIC new values -> every clause of the property is decided for the state
# the object REPORTS (integrator.step_size, integrator.steps, mass_matrix.tensor), against a leapfrog written directly
# on the expression DAG (independent of integrator.py).
HIST_KINDS = ('attr', 'attr2', 'lsd', 'setadapt', 'tune', 'adaptive', 'dualavg', 'frs', 'mass', 'oplsd', 'massadapt')
HIST_WHAT = {
    'attr': 'integrator.step_size = eps1',
    'attr2': 'integrator.step_size = eps1; one transition; integrator.step_size = eps2',
    'lsd': 'LeapfrogIntegrator.load_state_dict({step_size: eps1, steps: steps1})',
    'setadapt': 'operator.adaptable_parameter = v (set_adaptable_parameter: step size exp(v))',
    'tune': 'HMCOperator.tune(acc) without adaptors (MCMCOperator.tune -> set_adaptable_parameter)',
    'adaptive': 'HMCOperator.tune(acc) -> AdaptiveStepSize.learn',
    'dualavg': 'HMCOperator.tune(acc) -> DualAveragingStepSize.learn',
    'frs': 'HMCOperator(..., find_reasonable_step_size=True): step size doubled / halved by find_reasonable_step_size',
    'mass': 'mass_matrix.tensor = M1 (parameter listener -> update_mass_matrices)',
    'oplsd': 'HMCOperator.load_state_dict(checkpoint with step size eps1, steps1 and mass matrix M1)',
    'massadapt': 'HMCOperator.tune -> MassMatrixAdaptor.learn x5 (update_frequency 5) rewrites the mass matrix parameter',
}
DUAL_MU = -2.0
_M0 = {False: [0.9, 1.4, 0.7], True: [[0.9, 0.1], [0.1, 1.4]]}
_M1 = {False: [1.6, 0.6, 1.2], True: [[1.5, -0.15], [-0.15, 0.7]]}


class _Patched:
    """math -> SymMath15 in the operator / adaptation modules (exp / log of the symbolic step size stay symbolic) and
    Hamiltonian.sample_momentum -> caller supplied draws; both restored on exit (worker processes are reused)."""

    def __init__(self, sampler, sym=True):
        self.sampler = sampler
        self.sym = sym

    def __enter__(self):
        import torchtree.inference.hmc.adaptation as ad
        import torchtree.inference.hmc.hamiltonian as hm
        import torchtree.inference.hmc.operator as ho
        import torchtree.inference.mcmc.operator as om
        import torchtree.ops.dual_averaging as da

        self.mods = [ad, ho, om, da]
        self.saved = [m.math for m in self.mods]
        if self.sym:
            from symtorch.ext_c15 import SymMath15

            for m in self.mods:
                m.math = SymMath15()
        self.H = hm.Hamiltonian
        self.saved_sample = hm.Hamiltonian.sample_momentum
        sampler = self.sampler
        hm.Hamiltonian.sample_momentum = lambda self_, mass_matrix: sampler(mass_matrix)
        return self

    def __exit__(self, *exc):
        for m, s in zip(self.mods, self.saved):
            m.math = s
        self.H.sample_momentum = self.saved_sample
        return False


def build_retunable(how, model, params, eps0, steps0, mass):
    """the objects of one chain: integrator, (adaptors,) operator - built ONCE with (eps0, steps0, mass)"""
    from torchtree.inference.hmc.adaptation import AdaptiveStepSize, DualAveragingStepSize, MassMatrixAdaptor
    from torchtree.inference.hmc.integrator import LeapfrogIntegrator
    from torchtree.inference.hmc.operator import HMCOperator

    integ = LeapfrogIntegrator('leapfrog', steps0, eps0)
    adaptors = []
    if how == 'adaptive':
        adaptors = [AdaptiveStepSize('ass', integ, 0.8)]
    elif how == 'dualavg':
        adaptors = [DualAveragingStepSize('das', integ, mu=DUAL_MU, delta=0.8)]
    elif how == 'massadapt':
        adaptors = [MassMatrixAdaptor('mma', params, mass, True, update_frequency=5)]
    kw = {'find_reasonable_step_size': True} if how == 'frs' else {}
    import contextlib
    import io

    with contextlib.redirect_stdout(io.StringIO()):  # the constructor prints the step size it found
        op = HMCOperator('hmc', model, params, integ, mass, 1.0, 0.8, adaptors, **kw)
    return integ, op


def apply_history(how, integ, op, mass, params, inp, use, set_q):
    """the retuning itself, through the real mutators; `inp` holds the new values (symbolic in the solver run, plain
    numbers in the replay), use() = one operator transition, set_q(k) = put the k-th recorded chain state into the parameters"""
    if how == 'attr':
        integ.step_size = inp['eps1']
    elif how == 'attr2':
        integ.step_size = inp['eps1']
        use()
        integ.step_size = inp['eps2']
    elif how == 'lsd':
        integ.load_state_dict({'id': integ.id, 'step_size': inp['eps1'], 'steps': inp['steps1']})
    elif how == 'setadapt':
        op.adaptable_parameter = inp['v']
    elif how in ('tune', 'adaptive', 'dualavg'):
        op.tune(inp['acc'], 1, True)
    elif how == 'frs':
        pass  # done by the constructor of the operator
    elif how == 'mass':
        mass.tensor = inp['M1']
    elif how == 'oplsd':
        state = {'id': op.id, 'adapt_count': 3, 'accept': 2, 'reject': 1, 'accept_window': [1, 0, 1],
                 'mass_matrix': {'id': mass.id, 'type': 'torchtree.Parameter', 'tensor': inp['M1'].tolist(),
                                 'dtype': 'torch.float64', 'nn': False},
                 'integrator': {'id': integ.id, 'step_size': inp['eps1'], 'steps': inp['steps1']}}
        op.load_state_dict(state)
    elif how == 'massadapt':
        for k in range(5):
            set_q(k)
            op.tune(inp['acc'], k + 1, True)
    else:
        raise KeyError(how)


def textbook_dag(d, q, p, minv, eps, steps, extra=(), name='U'):
    """leapfrog for the log density U written on the DAG: gradient = the derivative symbols d_k U of the uninterpreted
    target; minv = list (diagonal) or list of rows (dense) of node ids; returns (q', p').  `extra` = further arguments
    of the target that are not integrated (the parameter outside the HMC block: U(q, h), gradient d_k U(q, h), k < len(q))"""
    n = len(q)
    extra = tuple(extra)

    def grad(x):
        return [d.uf(f'd{k}~{name}', *x, *extra) for k in range(n)]

    def vel(pp):
        if isinstance(minv[0], list):
            out = []
            for i in range(n):
                acc = 0
                for j in range(n):
                    acc = d.add(acc, d.mul(minv[i][j], pp[j]))
                out.append(acc)
            return out
        return [d.mul(minv[i], pp[i]) for i in range(n)]

    half = d.mul(d.const(0.5), eps)
    g = grad(q)
    p = [d.add(a, d.mul(half, b)) for a, b in zip(p, g)]
    for _ in range(steps):
        q = [d.add(a, d.mul(eps, b)) for a, b in zip(q, vel(p))]
        g = grad(q)
        p = [d.add(a, d.mul(eps, b)) for a, b in zip(p, g)]
    p = [d.sub(a, d.mul(half, b)) for a, b in zip(p, g)]
    return q, p


def kinetic_dag(d, p, minv):
    n = len(p)
    acc = 0
    for i in range(n):
        for j in range(n):
            m = minv[i][j] if isinstance(minv[0], list) else (minv[i] if i == j else 0)
            acc = d.add(acc, d.mul(d.mul(p[i], m), p[j]))
    return d.mul(d.const(0.5), acc)


def sym_id(x):
    d = cur().dag
    if isinstance(x, SymFloat):
        return x.nid
    if isinstance(x, SymTensor):
        return int(x._ids.reshape(-1)[0])
    return d.const(float(x))


def history_task(task, tr):
    from torchtree.inference.hmc.adaptation import (AdaptiveStepSize, DualAveragingStepSize, MassMatrixAdaptor,
                                                    find_reasonable_step_size)
    from torchtree.inference.hmc.hamiltonian import Hamiltonian
    from torchtree.inference.hmc.integrator import LeapfrogIntegrator
    from torchtree.inference.hmc.operator import HMCOperator
    from torchtree.inference.mcmc.operator import MCMCOperator

    _, how, dim, nparams, dense, steps0, steps1, vol = task
    if how == 'massadapt' and dense:
        raise ValueError('massadapt histories: diagonal mass matrices only (stated in the bounds)')
    cfg = (how, dim, nparams, dense, steps0, steps1)
    label = f'retuned object [{HIST_WHAT[how]}] d={dim} params={nparams} dense={dense} steps={steps0}->{steps1}'
    tr.fn(LeapfrogIntegrator.__call__, LeapfrogIntegrator.load_state_dict, HMCOperator._step, HMCOperator.set_adaptable_parameter,
          HMCOperator.update_mass_matrices, HMCOperator.handle_parameter_changed, HMCOperator._load_state_dict,
          HMCOperator.tune, MCMCOperator.tune, Hamiltonian.kinetic_energy)
    if how == 'adaptive':
        tr.fn(AdaptiveStepSize.learn)
    if how == 'dualavg':
        tr.fn(DualAveragingStepSize.learn)
    if how == 'massadapt':
        tr.fn(MassMatrixAdaptor.learn)
    if how == 'frs':
        tr.fn(find_reasonable_step_size)
    tr.stubs.add('Hamiltonian.sample_momentum: the drawn momentum is an arbitrary symbolic vector')
    tr.stubs.add('math module of the hmc operator / adaptation / mcmc operator / dual averaging modules -> SymMath '
                 '(exp / log of the symbolic step size are uninterpreted)')
    tr.bounds['retuned objects'] = ('one integrator / operator per history, one transition before the change, one change '
                                    '(attr2: two) through each mutator of step size, number of steps and mass matrix; '
                                    'dimension <= 2 (3 with a diagonal mass matrix and three parameters), steps <= 2 quick / 3 thorough; new values symbolic')
    try:
        _history_symbolic(task, tr, cfg, label)
    except Exception as e:  # noqa: BLE001
        # the symbolic run of the history died inside the library: does the real code die on the same history too?
        ok, detail = replay_history(cfg, 'runs', {})
        if ok:
            tr.violation('LeapfrogIntegrator:retuned-object:raises', f'{label}: the history cannot be run ({type(e).__name__}: {e}): {detail}',
                         {'label': label, 'clause': 'runs', 'values': {}})
            return
        raise


def _history_symbolic(task, tr, cfg, label):
    from torchtree.core.parameter import Parameter

    _, how, dim, nparams, dense, steps0, steps1, vol = task
    draws = []

    def sampler(mm):
        k = len(draws)
        pv = new_vars(f'mom{k}', torch.tensor([0.7 - 0.5 * j + 0.1 * k for j in range(dim)], dtype=torch.float64))
        draws.append(pv)
        return pv

    with tracing() as t, _Patched(sampler):
        d = t.dag
        params, p0, _im, eps0, _integ, model = setup(dim, nparams, dense, True, steps0)
        qvars = [p.tensor._ids.clone() for p in params]
        q0 = [i for x in qvars for i in x.tolist()]

        def symM(name, vals):
            m = new_vars(name, torch.tensor(vals, dtype=torch.float64)[:dim] if not dense else torch.tensor(vals, dtype=torch.float64)[:dim, :dim])
            if dense:
                ids = m._ids.clone()
                for i in range(dim):
                    for j in range(i):
                        ids[i, j] = ids[j, i]
                m = from_ids(ids)
            return m

        mass = Parameter('mass', symM('M', _M0[dense]))
        samples = [new_vars(f'x{k}', torch.tensor([0.2 + 0.35 * k - 0.1 * j * (k % 3) for j in range(dim)], dtype=torch.float64))
                   for k in range(5)] if how == 'massadapt' else []

        def reset():
            for p_, ids in zip(params, qvars):
                p_.tensor = from_ids(ids.clone())

        def set_q(k):
            off = 0
            for p_ in params:
                n = p_.shape[-1]
                p_.tensor = from_ids(samples[k]._ids[off:off + n].clone())
                off += n

        def use():
            op.step()
            reset()

        integ, op = build_retunable(how, model, params, eps0, steps0, mass)
        reset()
        use()
        inp = {'eps1': mkfloat(d.var('eps1', 0.07)), 'eps2': mkfloat(d.var('eps2', 0.19)), 'steps1': steps1,
               'v': mkfloat(d.var('v', -2.9)), 'acc': new_vars('acc', torch.tensor(0.65, dtype=torch.float64)),
               'M1': symM('M1', _M1[dense])}
        apply_history(how, integ, op, mass, params, inp, use, set_q)
        reset()
        n_pre = len(draws)
        # ---- the state the objects REPORT after the history
        live = sym_id(integ.step_size)
        L = integ.steps
        Mlive = mass.tensor
        if abs(d.vals[live] - d.vals[sym_id(eps0)]) < 1e-9 and how not in ('mass', 'massadapt'):
            tr.inconc(f'{label}: the history left the step size unchanged at the witness: the obligations would be vacuous')
            return
        if how in ('mass', 'oplsd', 'massadapt') and torch.allclose(Mlive._v, torch.tensor(_M0[dense], dtype=torch.float64)[:dim] if not dense else torch.tensor(_M0[dense], dtype=torch.float64)):
            tr.inconc(f'{label}: the history left the mass matrix unchanged at the witness: the obligations would be vacuous')
            return
        hy_sym = []
        if dense:
            W = torch.inverse(Mlive)  # functional stub: the symbols of the inverse of THIS matrix + its contract
            minv = W._ids.tolist()
            con = [c for c in t.contracts if c['kind'] == 'inverse' and c['W']._ids.tolist() == minv][-1]
            contract = list(con['left'].values()) + list(con['right'].values())
            hy_sym = [d.eq(minv[i][j], minv[j][i]) for i in range(dim) for j in range(i)]
            tr.stubs.add('torch.inverse: functional contract stub (W M = M W = I)')
        else:
            minv = [d.div(1, int(i)) for i in Mlive._ids.tolist()]
            contract = []
        goals = []
        SIG = 'LeapfrogIntegrator:retuned-object:'
        # (0) what the object reports is what was set
        want_live = {'attr': lambda: sym_id(inp['eps1']), 'attr2': lambda: sym_id(inp['eps2']), 'lsd': lambda: sym_id(inp['eps1']),
                     'oplsd': lambda: sym_id(inp['eps1']), 'setadapt': lambda: d.uf('exp', sym_id(inp['v']))}.get(how)
        if want_live is not None:
            goals.append(('step size and number of steps reported by the integrator / operator / state_dict are the values that were set',
                          d.and_(d.eq(live, want_live()), d.eq(sym_id(op.tuning_parameter), live),
                                 d.eq(sym_id(integ.state_dict()['step_size']), live),
                                 d.bconst(integ.state_dict()['steps'] == (steps1 if how in ('lsd', 'oplsd') else steps0))),
                          [], SIG + 'reported-tunables'))
        if how in ('mass', 'oplsd'):
            goals.append(('the mass matrix parameter holds the value that was set', d.and_(*[d.eq(int(a), int(b)) for a, b in zip(Mlive._ids.reshape(-1).tolist(), inp['M1']._ids.reshape(-1).tolist())]),
                          [], 'HMCOperator:retuned-object:reported-mass-matrix'))
        used = op.inverse_mass_matrix
        goals.append(('the inverse mass matrix the operator holds is the inverse of the CURRENT mass matrix parameter',
                      d.and_(*[d.eq(int(a), b) for a, b in zip(used._ids.reshape(-1).tolist(),
                                                               [x for r in minv for x in r] if dense else minv)]),
                      contract, 'HMCOperator:retuned-object:inverse-mass-matrix'))
        # (1) one trajectory of the retuned integrator against the leapfrog written on the DAG
        U0 = sym_id(model())
        pm = integ(model, params, p0, used)
        q1 = [i for p in params for i in p.tensor._ids.tolist()]
        U1 = sym_id(model())
        qT, pT = textbook_dag(d, q0, p0._ids.tolist(), minv, live, L)
        goals.append(('trajectory == leapfrog (half step, full steps, half step back) with the CURRENT step size, number of steps and inverse mass matrix',
                      d.and_(*([d.eq(a, b) for a, b in zip(q1, qT)] + [d.eq(a, b) for a, b in zip(pm._ids.tolist(), pT)])),
                      [], SIG + 'trajectory'))
        # (2) flip and return
        back = integ(model, params, -pm, used)
        q2 = [i for p in params for i in p.tensor._ids.tolist()]
        goals.append(('flip-and-return: q(after) == q and p(after) == -p',
                      d.and_(*([d.eq(a, b) for a, b in zip(q2, q0)] + [d.eq(a, d.neg(b)) for a, b in zip(back._ids.tolist(), p0._ids.tolist())])),
                      [], SIG + 'reversibility'))
        goals.append(('requires_grad switched off on return', d.bconst(all(p.requires_grad is False for p in params)), [],
                      SIG + 'requires_grad'))
        # (3) energy error as a function of the CURRENT step size: vanishes to first order at 0
        K0 = kinetic_dag(d, p0._ids.tolist(), minv)
        K1 = kinetic_dag(d, pm._ids.tolist(), minv)
        dH = d.sub(d.add(d.neg(U1), K1), d.add(d.neg(U0), K0))
        if d.ops[live] == 'var':
            e = live
        elif d.ops[live] == 'uf':
            e = d.var('h_live', d.vals[live])
            dH = d.substitute([dH], {live: e})[0]
        else:  # find_reasonable_step_size: eps0 * 2^k - differentiate along eps0
            e = sym_id(eps0)
        dH0 = d.substitute([dH], {e: 0})[0]
        g0 = d.substitute([d.grad(dH, [e], honour_stops=False)[0]], {e: 0})[0]
        goals.append(('energy error vanishes when the CURRENT step size -> 0', d.eq(dH0, 0), hy_sym, SIG + 'energy-order'))
        goals.append(('d(energy error)/d(CURRENT step size) vanishes at 0 (error is O(eps^2) in the step size the object reports)',
                      d.eq(g0, 0), hy_sym, SIG + 'energy-order'))
        if dense:
            goals.append(('the inverse of the symmetric mass matrix is symmetric (lemma used by the energy goals)',
                          d.and_(*hy_sym), contract, SIG + 'inverse-symmetric'))
        # (4) the operator's transition after the history
        reset()
        ret = sym_id(op.step())
        mom = draws[-1]
        after = [i for p in params for i in p.tensor._ids.tolist()]
        qS, pS = textbook_dag(d, q0, mom._ids.tolist(), minv, live, L)
        goals.append(('Hastings term == K(p_start) - K(p_end), K = p^T M^-1 p / 2 with the CURRENT mass matrix, p_end of the leapfrog with the CURRENT step size',
                      d.eq(ret, d.sub(kinetic_dag(d, mom._ids.tolist(), minv), kinetic_dag(d, pS, minv))), [],
                      'HMCOperator._step:retuned-object:hastings'))
        goals.append(('proposed position == end point of the leapfrog with the CURRENT tunables', d.and_(*[d.eq(a, b) for a, b in zip(after, qS)]),
                      [], 'HMCOperator._step:retuned-object:proposal'))
        goals.append(('one momentum draw per successful transition', d.bconst(len(draws) == n_pre + 1), [],
                      'HMCOperator._step:retuned-object:draws'))
        # (5) volume
        if vol:
            import C07

            z0 = q0 + p0._ids.tolist()
            z1 = q1 + pm._ids.tolist()
            J = [d.grad(a, z0, honour_stops=False) for a in z1]
            det = C07.det_leibniz(d, J)
            goals.append(("det d(q',p')/d(q,p) == 1", d.eq(det, 1), hess_symmetry(d, [det]), SIG + 'volume'))
            tr.assumptions.add('the Hessian of the uninterpreted target is symmetric (ground instances for the points visited)')
        tr.witness_runs += 1
        tr.ops_checked += t.nchecked
        tr.regions += 1
        if t.concretized:
            tr.inconc(f'{label}: concretised {t.concretized[:2]}')
            return
        roots = [g[1] for g in goals] + [h for g in goals for h in g[2]]
        V = {d.args[i][0]: i for i in d.topo(roots) if d.ops[i] == 'var'}
        dom = [d.lt(0, i) for n, i in V.items() if n in ('eps', 'eps1', 'eps2', 'h_live')]
        if dense:
            for nm in ('M', 'M1'):
                if f'{nm}[0,0]' in V:
                    dom.append(d.lt(0, V[f'{nm}[0,0]']))
        else:
            dom += [d.lt(0, i) for n, i in V.items() if n.startswith('M[') or n.startswith('M1[')]
        if how == 'massadapt':
            # the adaptor writes 1 / (regularised variance): positive, hence non-zero
            dom += [d.lt(0, int(i)) for i in Mlive._ids.tolist()]
            tr.assumptions.add('MassMatrixAdaptor: the regularised variance it inverts is positive')
        pcs = list(t.pcs) if how != 'frs' else []
        if how == 'frs':
            tr.assumptions.add('find_reasonable_step_size: the goals are proved for every step size c * eps0 (c = the power of two '
                               'reached at the witness), without the path conditions of the search loop (superset of the region)')
        tr.sample({'case': label, 'live_step_size': d.to_str(live, 5), 'steps': L, 'n_path_conditions': len(t.pcs),
                   'momentum_draws': len(draws)})
        discharge_each(tr, d, dom + pcs, goals, label, V, lambda clause, vals: replay_history(cfg, clause, vals),
                       timeout=60 if cm_tier() == 'quick' else 300, threads=4 if cm_tier() == 'quick' else 2)


def cm_tier():
    import os

    return os.environ.get('VERIF_TIER', 'quick')


def discharge_each(tr, d, hyps, goals, label, V, replay, timeout=60.0, threads=4):
    """cm.discharge with one replay PER GOAL: goal = (text, node, extra hyps, signature); the clause handed to the replay
    is the last component of the signature.  unsat = proved; sat -> replay of the solver's point, then of the witness,
    on the real code (plain tensors); not reproduced / unknown -> inconclusive."""
    from concurrent.futures import ThreadPoolExecutor

    from symtorch.explore import _to_float, prove

    def run(g):
        return prove(d, list(hyps) + list(g[2]), g[1], timeout=timeout, get_values=list(V.values()), tr=tr, label=g[0],
                     parallel=True)

    with ThreadPoolExecutor(max_workers=threads) as ex:
        results = list(ex.map(run, goals))
    wit = {n: d.vals[i] for n, i in V.items()}
    for g, (st, r, _text) in zip(goals, results):
        if st == 'proved':
            continue
        clause = g[3].rsplit(':', 1)[1]
        tries = [wit]
        if st == 'refuted':
            tries.insert(0, {n: _to_float(r.values[i]) for n, i in V.items() if i in r.values})
        detail = ''
        for vals in tries:
            ok, detail = replay(clause, vals)
            if ok:
                how = 'fails at' if st == 'refuted' else 'solver undecided, witness separates at'
                tr.violation(g[3], f'{label}: {g[0]} {how} {vals}: {detail}', {'label': label, 'clause': clause, 'values': vals})
                break
        else:
            if st == 'refuted':
                tr.inconc(f'{label}: counterexample for "{g[0]}" did not reproduce on the real code ({detail})')
            else:
                tr.inconc(f'{label}: "{g[0]}" undecided by the solver portfolio ({r.raw[:100] if r else ""})')


# ------------------------------------------------------------------ replay of a history on the real code (plain tensors)
def _sq(x, lo=1e-3, span=0.3):
    """step sizes of the solver's point mapped into (lo, lo + span), strictly monotone in |x| (distinct stay distinct)"""
    x = abs(float(x))
    return lo + span * x / (1.0 + x)


def _cl(x, a=3.0):
    return max(-a, min(a, float(x)))


def logp_real(q):
    return -(0.5 * q * q).sum() - 0.25 * (q ** 4).sum() + 0.3 * q.prod()


def textbook_real(q, p, minv, eps, steps, logp=None):
    """leapfrog written out independently of integrator.py (gradient by torch.autograd on the pure function)"""
    logp = logp or logp_real

    def grad(x):
        x = x.clone().requires_grad_()
        return torch.autograd.grad(logp(x), x)[0]

    def vel(pp):
        return minv @ pp if minv.dim() == 2 else minv * pp

    q, p = q.clone(), p.clone()
    g = grad(q)
    p = p + 0.5 * eps * g
    for _ in range(steps):
        q = q + eps * vel(p)
        g = grad(q)
        p = p + eps * g
    p = p - 0.5 * eps * g
    return q, p


class RealHistory:
    """the plain-tensor twin of the symbolic history: same constructor, same transition before the change, same mutator"""

    def __init__(self, cfg, vals, force=None):
        import math

        from torchtree.core.model import CallableModel
        from torchtree.core.parameter import Parameter

        how, dim, nparams, dense, steps0, steps1 = cfg
        self.cfg = cfg
        force = force or {}
        f64 = torch.float64
        sizes = [dim] if nparams == 1 else [1] * dim
        if nparams == 3:
            sizes = [1, 1, dim - 2]
        self.q0 = []
        k = 0
        for i, sz in enumerate(sizes):
            self.q0.append(torch.tensor([_cl(vals.get(f'q{i}[{j}]', 0.3 + 0.4 * (k + j))) for j in range(sz)], dtype=f64))
            k += sz
        params = self.params = [Parameter(f'x{i}', x.clone()) for i, x in enumerate(self.q0)]

        class T(CallableModel):
            def __init__(self):
                super().__init__('t')
                for i, p in enumerate(params):
                    setattr(self, f'p{i}', p)

            def _call(self, *a, **k):
                return logp_real(torch.cat([p.tensor for p in params], -1))

            def _sample_shape(self):
                return torch.Size([])

            @classmethod
            def from_json(cls, data, dic):
                raise NotImplementedError

        self.model = T()
        self.p0 = torch.tensor([_cl(vals.get(f'p[{j}]', 0.7 - 0.5 * j)) for j in range(dim)], dtype=f64)

        def spd(name, default):
            if dense:
                g = lambda i, j: vals.get(f'{name}[{i},{j}]', default[i][j])
                a = min(abs(g(0, 0)), 5.0) + 0.1
                if dim == 1:
                    return torch.tensor([[a]], dtype=f64)
                b = _cl(g(0, 1), 2.0)
                c = min(abs(g(1, 1)), 5.0) + b * b / a + 0.1
                return torch.tensor([[a, b], [b, c]], dtype=f64)
            return torch.tensor([min(abs(vals.get(f'{name}[{j}]', default[j])), 5.0) + 0.05 for j in range(dim)], dtype=f64)

        self.mass = Parameter('mass', spd('M', _M0[dense]))
        self.M0 = self.mass.tensor.clone()
        eps0 = force.get('eps', _sq(vals.get('eps', 0.11)))
        self.inp = {'eps1': force.get('eps1', _sq(vals.get('eps1', 0.07))), 'eps2': force.get('eps2', _sq(vals.get('eps2', 0.19))),
                    'steps1': steps1,
                    'v': force.get('v', math.log(_sq(math.exp(_cl(vals.get('v', -2.9), 20.0))))),
                    'acc': torch.tensor(force.get('acc', min(1.0, max(0.0, float(vals.get('acc', 0.65))))), dtype=f64),
                    'M1': spd('M1', _M1[dense])}
        self.eps0 = eps0
        self.samples = [torch.tensor([_cl(vals.get(f'x{k}[{j}]', 0.2 + 0.35 * k - 0.1 * j * (k % 3))) for j in range(dim)], dtype=f64)
                        for k in range(5)]
        self.vals = vals
        self.dim = dim
        self.draws = []

    def sampler(self, mm):
        k = len(self.draws)
        m = torch.tensor([_cl(self.vals.get(f'mom{k}[{j}]', 0.7 - 0.5 * j + 0.1 * k)) for j in range(self.dim)], dtype=torch.float64)
        self.draws.append(m)
        return m.clone()

    def reset(self):
        for p_, x in zip(self.params, self.q0):
            p_.tensor = x.clone()

    def set_q(self, k):
        off = 0
        for p_ in self.params:
            n = p_.shape[-1]
            p_.tensor = self.samples[k][off:off + n].clone()
            off += n

    def use(self):
        self.op.step()
        self.reset()

    def run(self):
        """-> the state the objects report after the history (to be called inside `with _Patched(self.sampler, sym=False)`)"""
        how, dim, nparams, dense, steps0, steps1 = self.cfg
        self.integ, self.op = build_retunable(how, self.model, self.params, self.eps0, steps0, self.mass)
        self.reset()
        self.use()
        apply_history(how, self.integ, self.op, self.mass, self.params, self.inp, self.use, self.set_q)
        self.reset()
        self.live = float(self.integ.step_size)
        self.L = self.integ.steps
        M = self.mass.tensor.detach()
        self.minv = torch.linalg.inv(M) if dense else 1.0 / M  # independent of the operator
        return self

    def H(self, p):
        K = 0.5 * (p @ (self.minv @ p if self.minv.dim() == 2 else self.minv * p))
        return float(-logp_real(torch.cat([x.tensor.detach() for x in self.params], -1)) + K)

    def energy_error(self):
        self.reset()
        h0 = self.H(self.p0)
        pm = self.integ(self.model, self.params, self.p0.clone(), self.op.inverse_mass_matrix)
        return abs(self.H(pm.detach()) - h0)


ENERGY_FORCE = {  # two runs of the same history whose reported step sizes differ (both small)
    'attr': ({'eps1': 0.04}, {'eps1': 0.02}), 'lsd': ({'eps1': 0.04}, {'eps1': 0.02}), 'oplsd': ({'eps1': 0.04}, {'eps1': 0.02}),
    'attr2': ({'eps2': 0.04}, {'eps2': 0.02}), 'setadapt': ({'v': -3.2188758248682006}, {'v': -3.912023005428146}),
    'tune': ({'eps': 0.03, 'acc': 1.0}, {'eps': 0.03, 'acc': 0.0}), 'adaptive': ({'eps': 0.03, 'acc': 1.0}, {'eps': 0.03, 'acc': 0.0}),
    'dualavg': ({'acc': 0.8}, {'acc': 0.2}), 'mass': ({'eps': 0.04}, {'eps': 0.02}), 'massadapt': ({'eps': 0.04}, {'eps': 0.02}),
}


def replay_history(cfg, clause, vals):
    """(reproduced, detail): the history is rebuilt on the real code with plain tensors and the clause is evaluated
    against oracles that do not use integrator.py / operator.py (textbook leapfrog, own kinetic energy, own inverse)"""
    import math

    how, dim, nparams, dense, steps0, steps1 = cfg
    if clause == 'inverse-symmetric':
        return False, 'lemma about the inverse stub (nothing to run on the real code)'
    rh = RealHistory(cfg, vals)
    with _Patched(rh.sampler, sym=False):
        try:
            rh.run()
        except Exception as e:  # noqa: BLE001 - the replay reports whatever the real code does
            return True, f'the history raised {type(e).__name__}: {e}'
        integ, op, params, model = rh.integ, rh.op, rh.params, rh.model
        live, L, minv = rh.live, rh.L, rh.minv
        q0 = torch.cat(rh.q0)
        state = f'[reported step size {live!r}, steps {L}, built with step size {rh.eps0!r}]'
        close = lambda a, b: torch.allclose(a, b, rtol=1e-8, atol=1e-10)
        try:
            if clause == 'reported-tunables':
                want = {'attr': rh.inp['eps1'], 'attr2': rh.inp['eps2'], 'lsd': rh.inp['eps1'], 'oplsd': rh.inp['eps1'],
                        'setadapt': math.exp(rh.inp['v'])}[how]
                sd = integ.state_dict()
                got = (live, float(op.tuning_parameter), float(sd['step_size']), sd['steps'])
                exp_steps = steps1 if how in ('lsd', 'oplsd') else steps0
                if any(abs(x - want) > 1e-12 * max(1.0, abs(want)) for x in got[:3]) or got[3] != exp_steps:
                    return True, f'step size set to {want!r} (steps {exp_steps}) but step_size / tuning_parameter / state_dict report {got}'
                return False, 'agree'
            if clause == 'reported-mass-matrix':
                if not torch.equal(rh.mass.tensor, rh.inp['M1']):
                    return True, f'mass matrix set to {rh.inp["M1"].tolist()} but the parameter holds {rh.mass.tensor.tolist()}'
                return False, 'agree'
            if clause == 'inverse-mass-matrix':
                if not torch.allclose(op.inverse_mass_matrix, minv, rtol=1e-9, atol=1e-12):
                    return True, (f'after the history the mass matrix is {rh.mass.tensor.tolist()} (was {rh.M0.tolist()}) but the operator '
                                  f'holds the inverse {op.inverse_mass_matrix.tolist()} instead of {minv.tolist()}')
                return False, 'agree'
            if clause in ('trajectory', 'reversibility', 'requires_grad'):
                pm = integ(model, params, rh.p0.clone(), op.inverse_mass_matrix)
                q1 = torch.cat([p.tensor.detach() for p in params])
                if clause == 'trajectory':
                    qT, pT = textbook_real(q0, rh.p0, minv, live, L)
                    if not close(q1, qT) or not close(pm, pT):
                        return True, (f'{state} integrator gives q={q1.tolist()} p={pm.tolist()}, leapfrog with the reported tunables '
                                      f'gives q={qT.tolist()} p={pT.tolist()}')
                    return False, 'agree'
                back = integ(model, params, -pm, op.inverse_mass_matrix)
                q2 = torch.cat([p.tensor.detach() for p in params])
                if clause == 'requires_grad':
                    if any(p.requires_grad for p in params):
                        return True, 'requires_grad left on'
                    return False, 'agree'
                if not close(q2, q0) or not close(back, -rh.p0):
                    return True, (f'{state} flip-and-return gives q={q2.tolist()} p={back.tolist()} instead of q={q0.tolist()} '
                                  f'p={(-rh.p0).tolist()}')
                return False, 'agree'
            if clause in ('hastings', 'proposal', 'draws'):
                n_pre = len(rh.draws)
                ret = float(op.step())
                mom = rh.draws[-1]
                after = torch.cat([p.tensor.detach() for p in params])
                qT, pT = textbook_real(q0, mom, minv, live, L)
                K = lambda p: float(0.5 * (p @ (minv @ p if minv.dim() == 2 else minv * p)))
                want = K(mom) - K(pT)
                if clause == 'draws':
                    return (len(rh.draws) != n_pre + 1), f'{len(rh.draws) - n_pre} momentum draw(s)'
                if clause == 'hastings':
                    if not abs(ret - want) <= 1e-8 * max(1.0, abs(want)):
                        return True, (f'{state} step() returned {ret!r} but K(p_start) - K(p_end) = {want!r} for the leapfrog with the '
                                      f'reported tunables and the current mass matrix {rh.mass.tensor.tolist()}')
                    return False, 'agree'
                if not close(after, qT):
                    return True, f'{state} proposed position {after.tolist()} but the leapfrog with the reported tunables ends at {qT.tolist()}'
                return False, 'agree'
            if clause == 'runs':
                integ(model, params, rh.p0.clone(), op.inverse_mass_matrix)
                rh.reset()
                op.step()
                return False, 'the real code runs the history, a trajectory and a transition without raising'
            if clause == 'volume':
                h = 1e-6
                z0 = torch.cat([q0, rh.p0])

                def flow(z):
                    k = 0
                    for p in params:
                        n = p.tensor.shape[-1]
                        p.tensor = z[k:k + n].clone()
                        k += n
                    pm = integ(model, params, z[dim:].clone(), op.inverse_mass_matrix)
                    return torch.cat([torch.cat([p.tensor.detach() for p in params]), pm.detach()])

                J = torch.zeros(2 * dim, 2 * dim, dtype=torch.float64)
                for j in range(2 * dim):
                    e = torch.zeros(2 * dim, dtype=torch.float64)
                    e[j] = h
                    J[:, j] = (flow(z0 + e) - flow(z0 - e)) / (2 * h)
                det = float(torch.linalg.det(J))
                if abs(det - 1.0) > 1e-5:
                    return True, f'{state} numerical Jacobian determinant of the leapfrog map = {det}'
                return False, 'agree'
        except Exception as e:  # noqa: BLE001
            return True, f'{state} raised {type(e).__name__}: {e}'
    if clause == 'energy-order':
        if how == 'frs':
            with _Patched(rh.sampler, sym=False):
                err = rh.energy_error()
                rh.reset()
                h0 = rh.H(rh.p0)
                qT, pT = textbook_real(q0, rh.p0, minv, live, L)
                for p_, x in zip(params, torch.split(qT, [x.numel() for x in rh.q0])):
                    p_.tensor = x.clone()
                want = abs(rh.H(pT) - h0)
            if abs(err - want) > 1e-8 * max(1.0, want):
                return True, f'{state} energy error {err!r}, the leapfrog with the reported step size has {want!r}'
            return False, 'agree'
        out = []
        for force in ENERGY_FORCE[how]:
            r2 = RealHistory(cfg, vals, force)
            with _Patched(r2.sampler, sym=False):
                try:
                    r2.run()
                    out.append((r2.live, r2.energy_error(), r2.eps0))
                except Exception as e:  # noqa: BLE001
                    return True, f'the history raised {type(e).__name__}: {e}'
        (hA, eA, cA), (hB, eB, cB) = out
        if not hA > 1.2 * hB:
            return False, f'the two histories report step sizes {hA}, {hB}: no separation'
        if eB > 1e-13 and eA / eB < 0.7 * (hA / hB) ** 2:
            return True, (f'energy error does not shrink quadratically with the step size the object reports: reported {hA!r} -> '
                          f'error {eA!r}, reported {hB!r} -> error {eB!r} (objects built with step size {cA!r} / {cB!r})')
        return False, f'energy errors {eA}, {eB} at reported step sizes {hA}, {hB}'
    return False, f'no replay for clause {clause}'


# ------------------------------------------------------------------ consecutive calls on the SAME objects, changing target
# Everything above decides the clauses for ONE call of a (possibly retuned) integrator / operator.  In a chain the same
# integrator and operator are called again and again, the next trajectory starts where the last one ended (accepted) or
# started (rejected), and between two HMC moves other operators change parameters the target depends on but that are
# not in the HMC block (HMC within Gibbs).  seq_task: the target is the uninterpreted U(q, h) with a second argument h
# (Parameter 'h', registered with the target, NOT in the operator's parameter list) whose value gets FRESH symbols
# between two calls; the gradient the real backward() delivers is the uninterpreted d_k U(q, h): a gradient / energy
# memoised from the previous call is d_k U(q, h_old) - a different term (congruence only identifies equal arguments;
# a solver vacuity guard checks that d_k U(q, h_old) == d_k U(q, h_new) is refutable).
# After EVERY call: trajectory == the leapfrog of the CURRENT target written on the DAG from the start of THIS call,
# requires_grad off, det == 1, second-order energy error; Hastings == K0 - K1 (operator); flip-and-return after the
# last call of the history (pure histories of 1, 2, 3 forward calls: a flip in between would itself be a call that
# changes whatever the object carries) and - 'revmid' histories - after every call followed by the forward call again.
SEQ_MODES = ('acc', 'rej', 'gibbs', 'acc+gibbs', 'inplace-h', 'inplace-q')
SEQ_WHAT = {
    'acc': 'accepted move: nothing changes, the next trajectory starts at the tensor objects the last one left',
    'rej': 'rejected move: the parameters are put back to the saved start of the last trajectory',
    'gibbs': 'rejected move, then the target changes through the parameter outside the HMC block (h.tensor = fresh symbols)',
    'acc+gibbs': 'accepted move, then h.tensor = fresh symbols',
    'inplace-h': 'accepted move, then h written in place (h.tensor[...] = fresh symbols) + fire_parameter_changed',
    'inplace-q': 'accepted move, then the HMC parameters written in place (tensor.copy_(fresh symbols)) + fire_parameter_changed',
}
SEQ_SIG = {'integ': 'LeapfrogIntegrator:consecutive-calls:', 'op': 'HMCOperator._step:consecutive-calls:'}
_MINV0 = {False: [1.3, 0.8, 1.1], True: [[1.3, 0.2], [0.2, 0.8]]}


def gibbs_witness(d, n, m=1):
    """witness values for U(q, h) = sum_i -(q_i - h_{i mod m})^2 / 2 + 0.1 q_i and its first / second partials
    (arguments 0..n-1 = q, n..n+m-1 = h); named 'G' so that it cannot be confused with the one-argument-block U"""
    def G(*a):
        return sum(-0.5 * (a[i] - a[n + i % m]) ** 2 + 0.1 * a[i] for i in range(n))

    def d1(k):
        if k < n:
            return lambda *a: -(a[k] - a[n + k % m]) + 0.1
        j = k - n
        return lambda *a: sum(a[i] - a[n + j] for i in range(n) if i % m == j)

    def d2(l, k):  # d / d arg_l of d_k G
        if k < n and l < n:
            c = -1.0 if k == l else 0.0
        elif k < n:
            c = 1.0 if k % m == l - n else 0.0
        elif l < n:
            c = 1.0 if l % m == k - n else 0.0
        else:
            c = -float(sum(1 for i in range(n) if i % m == k - n)) if k == l else 0.0
        return lambda *a: c

    d.uf_eval['G'] = G
    for k in range(n + m):
        d.uf_eval[f'd{k}~G'] = d1(k)
        for l in range(n + m):
            d.uf_eval[f'd{l}~d{k}~G'] = d2(l, k)


def make_gibbs_target(params, hyper):
    """model() = the uninterpreted G(q, h): q = the HMC parameters, h = a parameter the operator does not own"""
    from torchtree.core.model import CallableModel

    class Target(CallableModel):
        def __init__(self):
            super().__init__('target')
            for i, p in enumerate(params):
                setattr(self, f'p{i}', p)
            self.h = hyper
            self.calls = 0
            self.fail_at = None
            self.nans = 0

        def _call(self, *a, **k):
            self.calls += 1
            if self.fail_at is not None and self.calls == self.fail_at:
                self.nans += 1
                return torch.tensor(float('nan'))
            d = cur().dag
            q = torch.cat([p.tensor for p in params], -1)
            out = d.uf('G', *q._ids.tolist(), *hyper.tensor._ids.reshape(-1).tolist())
            r = from_ids(torch.tensor(out, dtype=torch.int64))
            r._rg = any(p.tensor._rg for p in params if isinstance(p.tensor, SymTensor))
            return r

        def _sample_shape(self):
            return torch.Size([])

        @classmethod
        def from_json(cls, data, dic):
            raise NotImplementedError

    return Target()


def logp_gibbs(q, h):
    z = q - h[0]
    return -(0.5 * z * z).sum() - 0.25 * (z ** 4).sum() + 0.3 * q.prod() + 0.2 * h[0] * q.sum()


def _mk_params(dim, nparams, fresh):
    from torchtree.core.parameter import Parameter

    sizes = [dim] if nparams == 1 else [1] * dim
    if nparams == 3:
        sizes = [1, 1, dim - 2]
    params = []
    k = 0
    for i, sz in enumerate(sizes):
        params.append(Parameter(f'x{i}', fresh(f'q{i}', [0.3 + 0.4 * (k + j) for j in range(sz)])))
        k += sz
    return params


def _spd_real(vals, name, default, dim, dense):
    f64 = torch.float64
    if dense:
        g = lambda i, j: vals.get(f'{name}[{i},{j}]', default[i][j])
        a = min(abs(g(0, 0)), 5.0) + 0.1
        if dim == 1:
            return torch.tensor([[a]], dtype=f64)
        b = _cl(g(0, 1), 2.0)
        c = min(abs(g(1, 1)), 5.0) + b * b / a + 0.1
        return torch.tensor([[a, b], [b, c]], dtype=f64)
    return torch.tensor([min(abs(vals.get(f'{name}[{j}]', default[j])), 5.0) + 0.05 for j in range(dim)], dtype=f64)


def _spd_sym(name, default, dim, dense):
    raw = torch.tensor(default, dtype=torch.float64)
    m = new_vars(name, raw[:dim, :dim] if dense else raw[:dim])
    if dense:
        ids = m._ids.clone()
        for i in range(dim):
            for j in range(i):
                ids[i, j] = ids[j, i]
        m = from_ids(ids)
    return m


class _Seq:
    """the objects of ONE chain (parameters, h, target, integrator, operator) and the script of one history.  The script
    is shared by the solver run (_SymSeq: fresh() = new symbols, snap = node ids) and the replay on the real code
    (_RealSeq: fresh() = plain tensors taken from the solver's point, snap = cloned tensors)."""

    def __init__(self, cfg):
        self.cfg = cfg
        self.level, self.modes, self.dim, self.nparams, self.dense, self.steps, self.fail, self.revmid = cfg
        self.draws = []
        self.recs = []
        self.saved = None
        self.op = None

    def sampler(self, mm):
        k = len(self.draws)
        m = self.fresh(f'mom{k}', [0.7 - 0.5 * j + 0.1 * k for j in range(self.dim)])
        self.draws.append(m)
        return m.clone()

    def between(self, mode, k):
        ps, hy = self.params, self.hyper
        if self.level == 'op':
            (self.op.reject if mode in ('rej', 'gibbs') else self.op.accept)()
        elif mode in ('rej', 'gibbs'):
            for p_, s in zip(ps, self.saved):
                p_.tensor = s
        if mode in ('gibbs', 'acc+gibbs'):
            hy.tensor = self.fresh(f'h{k}', [0.25 + 0.3 * k])
        elif mode == 'inplace-h':
            hy.tensor[...] = self.fresh(f'h{k}', [0.25 + 0.3 * k])
            hy.fire_parameter_changed()
        elif mode == 'inplace-q':
            w = self.fresh(f'w{k}', [-0.2 + 0.15 * j + 0.1 * k for j in range(self.dim)])
            off = 0
            for p_ in ps:
                n = p_.shape[-1]
                p_.tensor.copy_(w[off:off + n])
                p_.fire_parameter_changed()
                off += n

    def call_integ(self, k):
        self.saved = [p_.tensor.clone() for p_ in self.params]  # what MCMCOperator.step() keeps for reject()
        P = self.fresh(f'P{k}', [0.7 - 0.5 * j + 0.1 * k for j in range(self.dim)])
        rec = {'k': k, 'start': self.snap_q(), 'h': self.snap(self.hyper.tensor), 'P': P}
        pm = self.integ(self.model, self.params, P, self.im)
        rec.update(end=self.snap_q(), pm=pm, rg=any(p_.requires_grad for p_ in self.params))
        self.recs.append(rec)

    def flip(self, k):
        rec = self.recs[k]
        back = self.integ(self.model, self.params, -rec['pm'], self.im)
        rec['flip'] = (self.snap_q(), back)

    def recall(self, k):
        """after a flip: back to the saved start and the same forward call again (the chain goes on from its end point)"""
        rec = self.recs[k]
        for p_, s in zip(self.params, self.saved):
            p_.tensor = s
        self.saved = [p_.tensor.clone() for p_ in self.params]
        pm = self.integ(self.model, self.params, rec['P'], self.im)
        rec['re'] = (self.snap_q(), pm)

    def call_op(self, k):
        n0, nan0 = len(self.draws), self.model.nans
        if self.fail is not None and self.fail[0] == k:
            self.model.fail_at = self.model.calls + self.fail[1]
        rec = {'k': k, 'start': self.snap_q(), 'h': self.snap(self.hyper.tensor)}
        ret = self.op.step()
        rec.update(end=self.snap_q(), ret=ret, mom=self.draws[-1], ndraws=len(self.draws) - n0,
                   nans=self.model.nans - nan0, rg=any(p_.requires_grad for p_ in self.params))
        self.recs.append(rec)

    def run(self, upto=None):
        """upto = k: return just BEFORE call k (its between step applied) - the finite-difference replay continues itself"""
        n = len(self.modes) + 1
        for k in range(n):
            if k > 0:
                if self.revmid and self.level == 'integ':
                    self.flip(k - 1)
                    self.recall(k - 1)
                self.between(self.modes[k - 1], k)
            if upto == k:
                return self
            (self.call_integ if self.level == 'integ' else self.call_op)(k)
        if self.level == 'op':
            # the integrator that lived through the operator's history: one more forward trajectory from the accepted state
            self.op.accept()
            self.im = self.op.inverse_mass_matrix
            self.call_integ(n)
            self.flip(n)
        else:
            self.flip(n - 1)
        return self


class _SymSeq(_Seq):
    def fresh(self, name, defaults):
        return new_vars(name, torch.tensor(defaults, dtype=torch.float64))

    def snap(self, x):
        return [int(i) for i in x._ids.reshape(-1).tolist()]

    def snap_q(self):
        return [i for p_ in self.params for i in self.snap(p_.tensor)]

    def build(self):
        from torchtree.core.parameter import Parameter
        from torchtree.inference.hmc.integrator import LeapfrogIntegrator
        from torchtree.inference.hmc.operator import HMCOperator

        d = cur().dag
        gibbs_witness(d, self.dim)
        self.params = _mk_params(self.dim, self.nparams, self.fresh)
        self.hyper = Parameter('h', self.fresh('h0', [0.25]))
        self.model = make_gibbs_target(self.params, self.hyper)
        self.eps = mkfloat(d.var('eps', 0.11))
        self.integ = LeapfrogIntegrator('leapfrog', self.steps, self.eps)
        if self.level == 'integ':
            self.im = _spd_sym('Minv', _MINV0[self.dense], self.dim, self.dense)
        else:
            self.mass = Parameter('mass', _spd_sym('M', _M0[self.dense], self.dim, self.dense))
            self.op = HMCOperator('hmc', self.model, self.params, self.integ, self.mass, 1.0, 0.8, [])
        return self


class _RealSeq(_Seq):
    def __init__(self, cfg, vals, force=None):
        super().__init__(cfg)
        self.vals = vals
        self.force = force or {}

    def fresh(self, name, defaults):
        return torch.tensor([_cl(self.vals.get(f'{name}[{j}]', x)) for j, x in enumerate(defaults)], dtype=torch.float64)

    def snap(self, x):
        return x.detach().clone()

    def snap_q(self):
        return torch.cat([p_.tensor.detach().clone() for p_ in self.params], -1)

    def build(self):
        from torchtree.core.model import CallableModel
        from torchtree.core.parameter import Parameter
        from torchtree.inference.hmc.integrator import LeapfrogIntegrator
        from torchtree.inference.hmc.operator import HMCOperator

        params = self.params = _mk_params(self.dim, self.nparams, self.fresh)
        hyper = self.hyper = Parameter('h', self.fresh('h0', [0.25]))

        class T(CallableModel):
            def __init__(self):
                super().__init__('t')
                for i, p in enumerate(params):
                    setattr(self, f'p{i}', p)
                self.h = hyper
                self.calls = 0
                self.fail_at = None
                self.nans = 0

            def _call(self, *a, **k):
                self.calls += 1
                if self.fail_at is not None and self.calls == self.fail_at:
                    self.nans += 1
                    return torch.tensor(float('nan'), dtype=torch.float64)
                return logp_gibbs(torch.cat([p.tensor for p in params], -1), hyper.tensor)

            def _sample_shape(self):
                return torch.Size([])

            @classmethod
            def from_json(cls, data, dic):
                raise NotImplementedError

        self.model = T()
        self.eps = self.force.get('eps', _sq(self.vals.get('eps', 0.11)))
        self.integ = LeapfrogIntegrator('leapfrog', self.steps, self.eps)
        if self.level == 'integ':
            self.im = _spd_real(self.vals, 'Minv', _MINV0[self.dense], self.dim, self.dense)
        else:
            self.mass = Parameter('mass', _spd_real(self.vals, 'M', _M0[self.dense], self.dim, self.dense))
            self.op = HMCOperator('hmc', self.model, self.params, self.integ, self.mass, 1.0, 0.8, [])
        return self

    def minv(self):
        """independent of the operator"""
        if self.level == 'integ':
            return self.im
        M = self.mass.tensor.detach()
        return torch.linalg.inv(M) if self.dense else 1.0 / M


def seq_label(cfg):
    level, modes, dim, nparams, dense, steps, fail, revmid = cfg
    what = 'LeapfrogIntegrator.__call__' if level == 'integ' else 'HMCOperator.step'
    chain = 'call 1' + ''.join(f' -> [{m}] -> call {k + 2}' for k, m in enumerate(modes))
    extra = ''
    if fail is not None:
        extra += f' NaN target at evaluation {fail[1]} of call {fail[0] + 1}'
    if revmid:
        extra += ' flip-and-return + forward again after every call'
    return f'consecutive calls on one object [{what}: {chain}]{extra} d={dim} params={nparams} dense={dense} steps={steps}'


def seq_task(task, tr):
    from torchtree.core.parameter import Parameter
    from torchtree.inference.hmc.hamiltonian import Hamiltonian
    from torchtree.inference.hmc.integrator import LeapfrogIntegrator, set_tensor
    from torchtree.inference.hmc.operator import HMCOperator
    from torchtree.inference.mcmc.operator import MCMCOperator

    _, level, modes, dim, nparams, dense, steps, fail, revmid, vol = task
    cfg = (level, tuple(modes), dim, nparams, dense, steps, fail, revmid)
    label = seq_label(cfg)
    tr.fn(LeapfrogIntegrator.__call__, set_tensor, Parameter.fire_parameter_changed)
    if level == 'op':
        tr.fn(HMCOperator._step, MCMCOperator.step, MCMCOperator.accept, MCMCOperator.reject, Hamiltonian.kinetic_energy,
              Hamiltonian.potential_energy, HMCOperator.update_mass_matrices)
        tr.stubs.add('Hamiltonian.sample_momentum: the drawn momentum is an arbitrary symbolic vector')
    tr.bounds['consecutive calls'] = (
        'histories of 2 (quick) / 3 (thorough) calls of ONE LeapfrogIntegrator / HMCOperator.step on ONE set of parameter objects; '
        'between two calls: ' + '; '.join(f'{k} = {v}' for k, v in SEQ_WHAT.items()) + '; target = uninterpreted U(q, h), h one '
        'scalar parameter outside the HMC block; operator histories also with a NaN target inside one trajectory (restore + '
        'retry) and end with a direct integrator call + flip on the objects the operator used; dimension <= 2 (3 with three '
        'parameters, diagonal), steps <= 2, momenta / h / overwritten positions fresh symbols per call')
    try:
        _seq_symbolic(cfg, vol, tr, label)
    except Exception as e:  # noqa: BLE001
        ok, detail = replay_seq(cfg, 'runs', {})
        if ok:
            tr.violation(SEQ_SIG[level] + 'raises', f'{label}: the history cannot be run ({type(e).__name__}: {e}): {detail}',
                         {'label': label, 'clause': 'runs', 'values': {}})
            return
        raise


def _seq_symbolic(cfg, vol, tr, label):
    import contextlib

    from symtorch.explore import prove

    level, modes, dim, nparams, dense, steps, fail, revmid = cfg
    with tracing() as t:
        d = t.dag
        S = _SymSeq(cfg)
        with (_Patched(S.sampler) if level == 'op' else contextlib.nullcontext()):
            S.build()
            S.run()
            if level == 'op':
                if dense:
                    minv = torch.inverse(S.mass.tensor)._ids.tolist()  # functional stub: the symbols of the inverse of THIS matrix
                    tr.stubs.add('torch.inverse: functional contract stub (W M = M W = I)')
                else:
                    minv = [d.div(1, int(i)) for i in S.mass.tensor._ids.tolist()]
            else:
                minv = S.im._ids.tolist()
        tr.witness_runs += 1
        tr.ops_checked += t.nchecked
        tr.regions += 1
        if t.concretized:
            tr.inconc(f'{label}: concretised {t.concretized[:2]}')
            return
        eps = sym_id(S.integ.step_size)
        L = S.integ.steps
        ids = lambda x: [int(i) for i in x._ids.reshape(-1).tolist()]
        goals = []
        for rec in S.recs:
            k = rec['k']
            at = f'@call{k + 1}'
            direct = 'P' in rec
            SIG = SEQ_SIG['integ' if direct else 'op']
            mom = ids(rec['P'] if direct else rec['mom'])
            h = rec['h']
            qT, pT = textbook_dag(d, rec['start'], mom, minv, eps, L, extra=h, name='G')
            who = f'call {k + 1}' + (' (direct integrator call after the operator history)' if direct and level == 'op' else '')
            if direct:
                goals.append((f'{who}: trajectory == leapfrog of the CURRENT target U(., h) from the start of THIS call (gradient d_k U(q, h) of the current h)',
                              d.and_(*([d.eq(a, b) for a, b in zip(rec['end'], qT)] + [d.eq(a, b) for a, b in zip(ids(rec['pm']), pT)])),
                              [], SIG + 'trajectory' + at))
                if 're' in rec:
                    goals.append((f'{who}: the same forward call again after flip-and-return gives the same leapfrog trajectory',
                                  d.and_(*([d.eq(a, b) for a, b in zip(rec['re'][0], qT)] + [d.eq(a, b) for a, b in zip(ids(rec['re'][1]), pT)])),
                                  [], SIG + 'trajectory-again' + at))
                if 'flip' in rec:
                    goals.append((f'{who}: flip-and-return: q(after) == start of this call and p(after) == -p',
                                  d.and_(*([d.eq(a, b) for a, b in zip(rec['flip'][0], rec['start'])] +
                                           [d.eq(a, d.neg(b)) for a, b in zip(ids(rec['flip'][1]), mom)])),
                                  [], SIG + 'reversibility' + at))
            else:
                goals.append((f'{who}: Hastings term == K(p_start) - K(p_end), p_end of the leapfrog of the CURRENT target from the state this step started at',
                              d.eq(sym_id(rec['ret']), d.sub(kinetic_dag(d, mom, minv), kinetic_dag(d, pT, minv))), [], SIG + 'hastings' + at))
                goals.append((f'{who}: proposed position == end point of the leapfrog of the CURRENT target from the state this step started at',
                              d.and_(*[d.eq(a, b) for a, b in zip(rec['end'], qT)]), [], SIG + 'proposal' + at))
                goals.append((f'{who}: one momentum draw per trajectory: 1 + the number of numerically failed trajectories',
                              d.bconst(rec['ndraws'] == 1 + rec['nans']), [], SIG + 'draws' + at))
                if k > 0:
                    prev = S.recs[k - 1]
                    if modes[k - 1] in ('rej', 'gibbs'):
                        goals.append((f'{who}: reject() put every parameter back to the start of the previous step (identical expressions)',
                                      d.bconst(rec['start'] == prev['start']), [], SIG + 'reject-restores' + at))
                    elif modes[k - 1] != 'inplace-q':
                        goals.append((f'{who}: accept() leaves the proposal in place (identical expressions)',
                                      d.bconst(rec['start'] == prev['end']), [], SIG + 'accept-keeps' + at))
            goals.append((f'{who}: requires_grad switched off on return', d.bconst(not rec['rg']), [], SIG + 'requires_grad' + at))
            if vol and direct and level == 'integ':
                import C07

                z0 = rec['start'] + mom
                z1 = rec['end'] + ids(rec['pm'])
                J = [d.grad(a, z0, honour_stops=False) for a in z1]
                det = C07.det_leibniz(d, J)
                # the start of an accepted move is an expression (the last end point): generalised to free variables
                det = cm.abstracted(d, [i for i in rec['start'] if d.ops[i] != 'var'], [det])[0]
                goals.append((f"{who}: det d(q',p')/d(q,p) == 1 for the map this call applied", d.eq(det, 1), hess_symmetry(d, [det]),
                              SIG + 'volume' + at))
                tr.assumptions.add('the Hessian of the uninterpreted target is symmetric (ground instances for the points visited)')
                U0 = d.uf('G', *rec['start'], *h)
                U1 = d.uf('G', *rec['end'], *h)
                dH = d.sub(d.add(d.neg(U1), kinetic_dag(d, ids(rec['pm']), minv)), d.add(d.neg(U0), kinetic_dag(d, mom, minv)))
                dH = cm.abstracted(d, [i for i in rec['start'] if d.ops[i] != 'var'], [dH])[0]
                e = d.var_ids['eps']
                dH0 = d.substitute([dH], {e: 0})[0]
                g0 = d.substitute([d.grad(dH, [e], honour_stops=False)[0]], {e: 0})[0]
                goals.append((f'{who}: energy error of this call vanishes at eps = 0', d.eq(dH0, 0), [], SIG + 'energy-order' + at))
                goals.append((f'{who}: d(energy error of this call)/d eps vanishes at eps = 0 (error is O(eps^2))', d.eq(g0, 0), [],
                              SIG + 'energy-order' + at))
        dom = [d.lt(0, eps)]
        if level == 'integ':
            im = S.im._ids
            if dense:
                dom.append(d.lt(0, int(im[0, 0])))
                if dim == 2:
                    dom.append(d.lt(0, d.sub(d.mul(int(im[0, 0]), int(im[1, 1])), d.mul(int(im[0, 1]), int(im[0, 1])))))
            else:
                dom += [d.lt(0, int(i)) for i in im.tolist()]
        elif dense:
            dom.append(d.lt(0, int(S.mass.tensor._ids[0, 0])))
        else:
            dom += [d.lt(0, int(i)) for i in S.mass.tensor._ids.tolist()]
        roots = [g[1] for g in goals] + [x for g in goals for x in g[2]] + dom
        V = {d.args[i][0]: i for i in d.topo(roots) if d.ops[i] == 'var'}
        pcs = list(t.pcs)
        # ---- the history did what it says (witness level) and the congruence keeps the two targets apart (solver level)
        changed = [k for k in range(1, len(S.recs)) if S.recs[k]['h'] != S.recs[k - 1]['h']]
        want_changed = [k + 1 for k, m in enumerate(modes) if m in ('gibbs', 'acc+gibbs', 'inplace-h')]
        if [k for k in changed if k <= len(modes)] != want_changed:
            tr.inconc(f'{label}: harness: the target changed before calls {changed}, the history says {want_changed}')
            return
        if level == 'integ':
            for k, m in enumerate(modes):
                a, b = S.recs[k], S.recs[k + 1]
                same = b['start'] == (a['re'][0] if 're' in a else a['end'])
                if (m in ('acc', 'acc+gibbs', 'inplace-h')) != same or (m in ('rej', 'gibbs') and b['start'] != a['start']):
                    tr.inconc(f'{label}: harness: call {k + 2} does not start where the history says')
                    return
        if fail is not None and S.model.nans != 1:
            tr.inconc(f'{label}: the NaN evaluation armed for call {fail[0] + 1} was served {S.model.nans} times: the restore path was not exercised as stated')
        if pcs:
            # decisions taken on the float witness (torch.equal, comparisons) are hypotheses of every goal: if they are
            # contradictory over the reals (a round-off difference recorded as "not equal") everything would be proved
            st, _r, _ = prove(d, dom + pcs, d.FALSE, timeout=20, tr=tr, parallel=True,
                              label='vacuity guard: the path conditions of the history are satisfiable (must be refutable)')
            if st == 'proved':
                tr.inconc(f'{label}: the {len(pcs)} path conditions recorded along the history are contradictory over the reals: '
                          f'nothing can be concluded from this run')
                return
        for k in want_changed:
            a, b = S.recs[k - 1], S.recs[k]
            g_old = d.uf('d0~G', *b['start'], *a['h'])
            g_new = d.uf('d0~G', *b['start'], *b['h'])
            st, _r, _ = prove(d, dom + pcs, d.eq(g_old, g_new), timeout=20, tr=tr, parallel=True,
                              label='vacuity guard: gradient of the previous target == gradient of the current target (must be refutable)')
            if st != 'refuted' or d.vals[g_old] == d.vals[g_new]:
                tr.inconc(f'{label}: vacuity guard: the solver / the witness does not separate d_0 U(q, h_old) from d_0 U(q, h_new) ({st})')
                return
        tr.sample({'case': label, 'calls': len(S.recs), 'target_changed_before_call': [k + 1 for k in want_changed], 'n_path_conditions': len(pcs),
                   'momentum_draws': len(S.draws), 'gradient_call2[0]': d.to_str(d.uf('d0~G', *S.recs[1]['start'], *S.recs[1]['h']), 3)})
        discharge_each(tr, d, dom + pcs, goals, label, V, lambda clause, vals: replay_seq(cfg, clause, vals),
                       timeout=60 if cm_tier() == 'quick' else 240, threads=4 if cm_tier() == 'quick' else 2)


def replay_seq(cfg, clause, vals):
    """(reproduced, detail): the same history on the real code with plain tensors and the target logp_gibbs(q, h);
    oracles: textbook leapfrog with torch.autograd on the pure function of the CURRENT h, own kinetic energy, own inverse"""
    import contextlib

    level, modes, dim, nparams, dense, steps, fail, revmid = cfg
    name, _, at = clause.partition('@call')
    k = int(at) - 1 if at else None
    close = lambda a, b: torch.allclose(a, b, rtol=1e-8, atol=1e-10)

    def history(force=None, upto=None):
        R = _RealSeq(cfg, vals, force)
        with (_Patched(R.sampler, sym=False) if level == 'op' else contextlib.nullcontext()):
            R.build()
            R.run(upto)
        return R

    def H(R, q, p, h):
        mi = R.minv()
        return float(-logp_gibbs(q, h) + 0.5 * (p @ (mi @ p if mi.dim() == 2 else mi * p)))

    try:
        if name == 'energy-order':
            errs = []
            for e in (0.04, 0.02):
                R = history({'eps': e})
                rec = R.recs[k]
                errs.append(abs(H(R, rec['end'], rec['pm'].detach(), rec['h']) - H(R, rec['start'], rec['P'], rec['h'])))
            if errs[1] > 1e-12 and errs[0] / errs[1] < 2.8:
                return True, f'energy error of call {k + 1} does not shrink quadratically with the step size: {errs} at step sizes 0.04, 0.02'
            return False, f'energy errors {errs}'
        if name == 'volume':
            h_ = 1e-6
            R0 = history()
            rec = R0.recs[k]
            z0 = torch.cat([rec['start'], rec['P']])

            def flow(z):
                R = history(upto=k)
                off = 0
                for p_ in R.params:
                    n = p_.shape[-1]
                    p_.tensor = z[off:off + n].clone()
                    off += n
                pm = R.integ(R.model, R.params, z[dim:].clone(), R.im)
                return torch.cat([R.snap_q(), pm.detach()])

            J = torch.zeros(2 * dim, 2 * dim, dtype=torch.float64)
            for j in range(2 * dim):
                e = torch.zeros(2 * dim, dtype=torch.float64)
                e[j] = h_
                J[:, j] = (flow(z0 + e) - flow(z0 - e)) / (2 * h_)
            det = float(torch.linalg.det(J))
            if abs(det - 1.0) > 1e-5:
                return True, f'numerical Jacobian determinant of the map of call {k + 1} = {det}'
            return False, 'agree'
        R = history()
    except Exception as e:  # noqa: BLE001 - the replay reports whatever the real code does
        return True, f'the history raised {type(e).__name__}: {e}'
    if name == 'runs':
        return False, 'the real code runs the history without raising'
    rec = R.recs[k]
    minv, eps, L = R.minv(), float(R.integ.step_size), R.integ.steps
    direct = 'P' in rec
    mom = rec['P'] if direct else rec['mom']
    hk = rec['h']
    qT, pT = textbook_real(rec['start'], mom, minv, eps, L, logp=lambda x: logp_gibbs(x, hk))
    state = (f'[call {k + 1} of the history, step size {eps!r}, steps {L}, h = {hk.tolist()}' +
             (f' (h during the previous call: {R.recs[k - 1]["h"].tolist()})' if k > 0 else '') + ']')
    if name in ('trajectory', 'trajectory-again'):
        q1, pm = (rec['end'], rec['pm']) if name == 'trajectory' else rec['re']
        if not close(q1, qT) or not close(pm.detach(), pT):
            return True, (f'{state} integrator gives q={q1.tolist()} p={pm.tolist()}, the leapfrog of the current target from the '
                          f'start of this call {rec["start"].tolist()} gives q={qT.tolist()} p={pT.tolist()}')
        return False, 'agree'
    if name == 'reversibility':
        q2, back = rec['flip']
        if not close(q2, rec['start']) or not close(back.detach(), -mom):
            return True, (f'{state} flip-and-return gives q={q2.tolist()} p={back.tolist()} instead of q={rec["start"].tolist()} '
                          f'p={(-mom).tolist()}')
        return False, 'agree'
    if name == 'requires_grad':
        return bool(rec['rg']), 'requires_grad left on' if rec['rg'] else 'agree'
    K = lambda p: float(0.5 * (p @ (minv @ p if minv.dim() == 2 else minv * p)))
    if name == 'hastings':
        ret, want = float(rec['ret']), K(mom) - K(pT)
        if not abs(ret - want) <= 1e-8 * max(1.0, abs(want)):
            return True, (f'{state} step() returned {ret!r} but K(p_start) - K(p_end) = {want!r} for the leapfrog of the current target '
                          f'from {rec["start"].tolist()} with the momentum of the successful trajectory ({rec["ndraws"]} draw(s))')
        return False, 'agree'
    if name == 'proposal':
        if not close(rec['end'], qT):
            return True, f'{state} proposed position {rec["end"].tolist()} but the leapfrog of the current target ends at {qT.tolist()}'
        return False, 'agree'
    if name == 'draws':
        return rec['ndraws'] != 1 + rec['nans'], f'{rec["ndraws"]} momentum draw(s), {rec["nans"]} failed trajectory(ies)'
    if name == 'reject-restores':
        ok = torch.equal(rec['start'], R.recs[k - 1]['start'])
        return (not ok), f'{state} state after reject() {rec["start"].tolist()}, start of the previous step {R.recs[k - 1]["start"].tolist()}'
    if name == 'accept-keeps':
        ok = torch.equal(rec['start'], R.recs[k - 1]['end'])
        return (not ok), f'{state} state after accept() {rec["start"].tolist()}, proposal of the previous step {R.recs[k - 1]["end"].tolist()}'
    return False, f'no replay for clause {clause}'


# ------------------------------------------------------------------ replays (real autograd, Gaussian-mixture target)
def real_setup(dim, nparams, dense, steps, vals):
    from torchtree.core.model import CallableModel
    from torchtree.core.parameter import Parameter
    from torchtree.inference.hmc.integrator import LeapfrogIntegrator

    sizes = [dim] if nparams == 1 else [1] * dim
    if nparams == 3:
        sizes = [1, 1, dim - 2]
    params = []
    k = 0
    for i, sz in enumerate(sizes):
        tv = [vals.get(f'q{i}[{j}]', 0.3 + 0.4 * (k + j)) for j in range(sz)]
        k += sz
        params.append(Parameter(f'x{i}', torch.tensor(tv, dtype=torch.float64)))

    class T(CallableModel):
        def __init__(self):
            super().__init__('t')
            for i, p in enumerate(params):
                setattr(self, f'p{i}', p)

        def _call(self, *a, **k):
            q = torch.cat([p.tensor for p in params], -1)
            return -(0.5 * q * q).sum() - 0.25 * (q ** 4).sum() + 0.3 * q.prod()

        def _sample_shape(self):
            return torch.Size([])

        @classmethod
        def from_json(cls, data, dic):
            raise NotImplementedError

    p0 = torch.tensor([vals.get(f'p[{j}]', 0.7 - 0.5 * j) for j in range(dim)], dtype=torch.float64)
    if dense:
        a = abs(vals.get('Minv[0,0]', 1.3)) + 0.1
        if dim == 1:
            im = torch.tensor([[a]], dtype=torch.float64)
        else:
            b = vals.get('Minv[0,1]', 0.2)
            c = abs(vals.get('Minv[1,1]', 0.8)) + (b * b) / a + 0.1
            im = torch.tensor([[a, b], [b, c]], dtype=torch.float64)
    else:
        im = torch.tensor([abs(vals.get(f'Minv[{j}]', 1.0)) + 0.05 for j in range(dim)], dtype=torch.float64)
    eps = min(abs(vals.get('eps', 0.11)), 0.2) + 1e-3
    return params, p0, im, LeapfrogIntegrator('l', steps, eps), T()


def replay_rev(dim, nparams, dense, steps, vals):
    params, p0, im, integ, model = real_setup(dim, nparams, dense, steps, vals)
    q0 = torch.cat([p.tensor.clone() for p in params])
    try:
        pm = integ(model, params, p0, im)
        back = integ(model, params, -pm, im)
    except Exception as e:
        return True, f'integrator raised {type(e).__name__}: {e}'
    q2 = torch.cat([p.tensor for p in params])
    if not torch.allclose(q2, q0, rtol=1e-8, atol=1e-10) or not torch.allclose(back, -p0, rtol=1e-8, atol=1e-10):
        return True, f'flip-and-return gives q={q2.tolist()} p={back.tolist()} instead of q={q0.tolist()} p={(-p0).tolist()}'
    return False, 'agree'


def replay_vol(dim, nparams, dense, steps, vals):
    params, p0, im, integ, model = real_setup(dim, nparams, dense, steps, vals)
    q0 = torch.cat([p.tensor.clone() for p in params])
    h = 1e-6
    z0 = torch.cat([q0, p0])

    def flow(z):
        k = 0
        for p in params:
            n = p.tensor.shape[-1]
            p.tensor = z[k:k + n].clone()
            k += n
        pm = integ(model, params, z[dim:].clone(), im)
        return torch.cat([torch.cat([p.tensor.detach() for p in params]), pm.detach()])

    J = torch.zeros(2 * dim, 2 * dim, dtype=torch.float64)
    for j in range(2 * dim):
        e = torch.zeros(2 * dim, dtype=torch.float64)
        e[j] = h
        J[:, j] = (flow(z0 + e) - flow(z0 - e)) / (2 * h)
    det = float(torch.linalg.det(J))
    if abs(det - 1.0) > 1e-5:
        return True, f'numerical Jacobian determinant of the leapfrog map = {det}'
    return False, 'agree'


def replay_energy(dim, nparams, dense, steps, vals):
    errs = []
    for eps in (0.02, 0.01):
        v = dict(vals)
        v['eps'] = eps - 1e-3
        params, p0, im, integ, model = real_setup(dim, nparams, dense, steps, v)

        def H(p):
            K = 0.5 * (p @ (im @ p if im.dim() == 2 else im * p))
            return float(-model() + K)

        h0 = H(p0)
        pm = integ(model, params, p0, im)
        errs.append(abs(H(pm) - h0))
    if errs[1] > 1e-12 and errs[0] / errs[1] < 2.8:
        return True, f'energy error does not shrink quadratically: {errs}'
    return False, 'agree'


def replay_hastings(dim, nparams, dense, steps, fail, vals):
    from torchtree.core.parameter import Parameter
    from torchtree.inference.hmc.operator import HMCOperator

    params, p0, im, integ, model = real_setup(dim, nparams, dense, steps, vals)
    mass = Parameter('mass', torch.linalg.inv(im) if dense else 1.0 / im)
    op = HMCOperator('hmc', model, params, integ, mass, 1.0, 0.8, [])
    moms = [torch.tensor([vals.get(f'mom{k}[{j}]', 0.7 - 0.5 * j + 0.1 * k) for j in range(dim)], dtype=torch.float64)
            for k in range(2)]
    drawn = []

    def sample(mm):
        drawn.append(len(drawn))
        return moms[min(len(drawn) - 1, 1)].clone()

    op._hamiltonian.sample_momentum = sample
    if fail:
        # a NaN potential in the middle of the first trajectory (same call index as in the symbolic run)
        calls = {'n': 0}
        orig_call = type(model)._call

        def flaky(self_, *a, **k):
            calls['n'] += 1
            if calls['n'] == 3:
                return torch.tensor(float('nan'), dtype=torch.float64)
            return orig_call(self_, *a, **k)

        type(model)._call = flaky
    before = [p.tensor.clone() for p in params]
    try:
        ret = float(op.step())
    except Exception as e:
        return True, f'step raised {type(e).__name__}: {e}'
    finally:
        if fail:
            type(model)._call = orig_call
    used = moms[min(len(drawn) - 1, 1)]
    after = [p.tensor.clone() for p in params]
    imu = op.inverse_mass_matrix

    def K(p):
        return float(0.5 * (p @ (imu @ p if imu.dim() == 2 else imu * p)))

    for p_, b in zip(params, before):
        p_.tensor = b.clone()
    pend = integ(model, params, used.clone(), imu)
    want = K(used) - K(pend)
    if abs(ret - want) > 1e-9 * max(1.0, abs(want)):
        return True, (f'HMCOperator.step() returned {ret} but K(p_start) - K(p_end) = {want} for the momentum of the successful '
                      f'trajectory ({len(drawn)} momentum draw(s))')
    again = [p.tensor for p in params]
    if any(not torch.allclose(a, b, rtol=1e-9, atol=1e-12) for a, b in zip(after, again)):
        return True, 'proposed position differs from the leapfrog end point'
    for p_, a in zip(params, after):
        p_.tensor = a.clone()
    op.reject()
    if any(not torch.equal(p_.tensor, b) for p_, b in zip(params, before)):
        return True, 'reject() did not restore the parameters bit-identically'
    return False, 'agree'


def run_task(task, tr):
    {'rev': reversibility_task, 'vol': volume_task, 'energy': energy_task, 'hastings': hastings_task,
     'hist': history_task, 'seq': seq_task}[task[0]](task, tr)


def tasks_for(tier):
    ts = []
    if tier == 'quick':
        for dim, nparams, dense, steps in [(1, 1, False, 1), (1, 1, False, 2), (2, 1, False, 2), (2, 2, False, 2),
                                           (2, 1, True, 2), (2, 2, True, 1)]:
            ts.append(('rev', dim, nparams, dense, steps))
        ts.append(('rev', 3, 3, False, 1))  # three parameters per operator (offset bookkeeping of set_tensor)
        ts += [('vol', 1, 1, False, 1), ('vol', 1, 1, False, 2), ('vol', 2, 1, False, 1), ('vol', 2, 2, True, 1)]
        ts += [('energy', 1, 1, False, 1, 'uf'), ('energy', 2, 1, False, 2, 'gauss'), ('energy', 2, 2, True, 1, 'uf')]
        ts += [('hastings', 2, 1, False, 2, False), ('hastings', 2, 2, True, 1, False), ('hastings', 1, 1, False, 2, True)]
        # histories on ONE object: (kind, dim, params, dense, steps at construction, steps after the history, volume clause)
        ts += [('hist', 'attr', 1, 1, False, 2, 2, True), ('hist', 'attr', 2, 2, True, 1, 1, False), ('hist', 'attr', 3, 3, False, 1, 1, False),
               ('hist', 'attr2', 2, 1, False, 1, 1, False),
               ('hist', 'lsd', 2, 2, False, 1, 2, True), ('hist', 'lsd', 1, 1, True, 2, 1, True),
               ('hist', 'setadapt', 2, 1, False, 2, 2, False), ('hist', 'tune', 2, 2, False, 1, 1, False),
               ('hist', 'adaptive', 1, 1, False, 2, 2, True), ('hist', 'dualavg', 2, 1, True, 1, 1, False),
               ('hist', 'frs', 2, 2, False, 1, 1, False), ('hist', 'frs', 1, 1, True, 2, 2, False),
               ('hist', 'mass', 2, 1, True, 2, 2, False), ('hist', 'mass', 2, 2, False, 1, 1, True),
               ('hist', 'oplsd', 2, 2, False, 1, 2, False), ('hist', 'oplsd', 2, 1, True, 2, 1, False),
               ('hist', 'massadapt', 2, 2, False, 1, 1, False)]
        # consecutive calls on ONE object, changing target:
        # (level, what happens between the calls, dim, params, dense, steps, NaN at (call, evaluation), flip after every call, volume + energy clause)
        ts += [('seq', 'integ', ('acc',), 2, 2, False, 1, None, False, True), ('seq', 'integ', ('rej',), 1, 1, False, 2, None, False, True),
               ('seq', 'integ', ('gibbs',), 2, 1, True, 1, None, False, True), ('seq', 'integ', ('acc+gibbs',), 2, 2, False, 2, None, False, True),
               ('seq', 'integ', ('acc+gibbs',), 1, 1, True, 1, None, False, True), ('seq', 'integ', ('inplace-h',), 2, 1, False, 1, None, False, True),
               ('seq', 'integ', ('inplace-q',), 3, 3, False, 1, None, False, False), ('seq', 'integ', ('acc+gibbs',), 2, 1, True, 2, None, True, False),
               ('seq', 'op', ('acc',), 2, 1, False, 1, None, False, False), ('seq', 'op', ('rej',), 1, 1, True, 2, None, False, False),
               ('seq', 'op', ('gibbs',), 2, 2, False, 1, None, False, False), ('seq', 'op', ('acc+gibbs',), 2, 2, True, 1, None, False, False),
               ('seq', 'op', ('acc+gibbs',), 1, 1, False, 2, None, False, False), ('seq', 'op', ('inplace-h',), 2, 1, False, 2, None, False, False),
               ('seq', 'op', ('inplace-q',), 2, 2, False, 1, None, False, False),
               # restore-on-failure between the calls: a NaN target inside the first / the second step
               ('seq', 'op', ('acc+gibbs',), 2, 1, False, 1, (1, 2), False, False), ('seq', 'op', ('acc',), 1, 1, False, 2, (0, 2), False, False),
               ('seq', 'op', ('rej',), 2, 2, False, 1, (1, 1), False, False), ('seq', 'op', ('gibbs',), 1, 1, True, 1, (0, 3), False, False)]
    else:
        for dim in (1, 2):
            for nparams in ((1,) if dim == 1 else (1, 2)):
                for dense in (False, True):
                    for steps in (1, 2, 3):
                        ts.append(('rev', dim, nparams, dense, steps))
                        if steps <= 2:
                            ts.append(('vol', dim, nparams, dense, steps))
                        ts.append(('energy', dim, nparams, dense, steps, 'uf'))
                        ts.append(('energy', dim, nparams, dense, steps, 'gauss'))
                        ts.append(('hastings', dim, nparams, dense, steps, False))
                    ts.append(('hastings', dim, nparams, dense, 2, True))
        ts.append(('rev', 3, 3, False, 2))
        ts.append(('hastings', 3, 3, False, 1, False))
        for how in HIST_KINDS:
            for dim, nparams in ((1, 1), (2, 1), (2, 2)):
                for dense in (False, True):
                    if how == 'massadapt' and dense:
                        continue
                    for s0, s1 in ((1, 2), (2, 1), (2, 3)):
                        changes_steps = how in ('lsd', 'oplsd')
                        L = s1 if changes_steps else s0
                        # the determinant: Leibniz expansion of a symbolic 2d x 2d Jacobian - dense d=2 only for one step
                        vol = dim == 1 or (L <= 2 and not dense) or (L == 1 and how in ('attr', 'mass', 'oplsd', 'lsd'))
                        ts.append(('hist', how, dim, nparams, dense, s0, s1, vol))
            ts.append(('hist', how, 3, 3, False, 1, 2, False))
        # consecutive calls: every between-step for histories of 2 calls on six shapes, every PAIR of between-steps for 3 calls
        shapes = [(1, 1, False, 2), (2, 2, False, 1), (2, 1, True, 1), (2, 1, False, 2), (1, 1, True, 1), (2, 2, True, 1)]
        i = 0
        for m in SEQ_MODES:
            for c in shapes:
                i += 1
                ts.append(('seq', 'integ', (m,), *c, None, False, True))
                ts.append(('seq', 'integ', (m,), *c, None, True, False))
                ts.append(('seq', 'op', (m,), *c, None, False, False))
                ts.append(('seq', 'op', (m,), *c, (i % 2, 1 + i % 3), False, False))
            ts.append(('seq', 'integ', (m,), 3, 3, False, 1, None, False, False))
            ts.append(('seq', 'op', (m,), 3, 3, False, 1, None, False, False))
        i = 0
        for m1 in SEQ_MODES:
            for m2 in SEQ_MODES:
                i += 1
                c = shapes[i % 6]
                ts.append(('seq', 'integ', (m1, m2), *c, None, False, c[0] == 1 or not c[2]))
                ts.append(('seq', 'integ', (m1, m2), *shapes[(i + 2) % 6], None, True, False))
                ts.append(('seq', 'op', (m1, m2), *shapes[(i + 4) % 6], None, False, False))
                ts.append(('seq', 'op', (m1, m2), *c, (i % 3, 1 + (i // 3) % 3), False, False))
    return ts


def body(chk):
    chk.explanation = ('the real leapfrog integrator and HMC operator are executed with an uninterpreted differentiable '
                       'target (U(q), gradient and Hessian are uninterpreted function symbols produced by symbolic reverse '
                       'differentiation); reversibility, unit Jacobian determinant, second-order energy error and the '
                       'Hastings term are identities decided by the solver for all q, p, step sizes and SPD mass matrices')
    chk.explanation += ('; histories: ONE integrator / operator is built, used for a transition, and then retuned through every '
                        'mutator the library has (step_size attribute, LeapfrogIntegrator.load_state_dict, adaptable_parameter / '
                        'MCMCOperator.tune, AdaptiveStepSize, DualAveragingStepSize, find_reasonable_step_size, the mass matrix '
                        'parameter, MassMatrixAdaptor, HMCOperator.load_state_dict) with symbolic new values; the trajectory of the '
                        'retuned object equals a leapfrog written on the expression DAG for the tunables the object reports, and '
                        'flip-and-return, unit determinant, second-order energy error in the reported step size and the Hastings '
                        'term (kinetic energy of the current mass matrix) are decided again on that object')
    chk.total.bounds['hmc histories'] = ('one transition before the change, one change per history (attr2: two, with a transition in '
                                         'between), then one trajectory, its reversal and one operator transition; MassMatrixAdaptor: '
                                         'diagonal mass matrix, five samples, update_frequency 5; DualAveragingStepSize mu = -2; '
                                         'find_reasonable_step_size: the search path taken at the witness (goals proved for every '
                                         'step size c * eps0); stan_adaptation.py (warm-up schedule) not covered')
    chk.explanation += ('; consecutive calls: ONE integrator / operator and ONE set of parameter objects are used for histories of 2 '
                        '(quick) / 3 (thorough) trajectories / operator steps; the next call starts at the very tensor objects the last '
                        'one left (accepted), at the restored start (rejected), after the target U(q, h) changed through a parameter h '
                        'outside the HMC block (fresh symbols for h: the gradient of the current target d_k U(q, h_new) and a gradient '
                        'kept from the last call d_k U(q, h_old) are different terms, solver vacuity guard), after in-place writes + '
                        'fire_parameter_changed, and across the restore-and-retry path of HMCOperator._step (NaN target); after every '
                        'call the trajectory equals the leapfrog of the CURRENT target from the start of THAT call, det = 1, the energy '
                        'error is second order, Hastings = K0 - K1, and flip-and-return holds on the object as the history left it')
    chk.total.bounds['hmc consecutive calls'] = (
        'one scalar parameter h outside the HMC block; 2 calls quick / 2 and 3 calls thorough (every pair of between-steps); per history '
        'one NaN evaluation at most; a flip-and-return is itself a call, so pure histories flip only after their last call (histories of '
        '1, 2, 3 calls cover every position) and the revmid histories flip after every call and repeat the forward call; det / energy '
        'clauses on integrator histories only (the operator returns no momentum); warm-up schedules (stan_adaptation.py) and adaptors '
        'between the calls are covered by the retuned-object histories, not combined with a changing target')
    chk.total.bounds['hmc'] = 'dimension <= 2, leapfrog steps <= 2 quick / 3 thorough, diagonal and dense SPD inverse mass matrix, 1 or 2 parameters per operator'
    chk.total.assumptions |= {'target differentiable with symmetric Hessian; autograd modelled by symbolic reverse differentiation '
                              '(validated against torch.autograd in the replays)',
                              'isnan() guards are false on real inputs; the numerical-failure branch is exercised by a target that returns NaN once'}
    pmap(run_task, tasks_for(chk.tier), chk.total)


if __name__ == '__main__':
    if '--replay' in sys.argv:
        import json

        r = json.load(open(sys.argv[sys.argv.index('--replay') + 1]))
        print('replay:', r['what'])
        sys.exit(1)
    sys.exit(main_for(PID, body))
