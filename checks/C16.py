"""C16 The leapfrog integrator is reversible and volume preserving.

The real LeapfrogIntegrator.__call__ / Hamiltonian / HMCOperator._step are run with
the target an UNINTERPRETED differentiable function: model() returns U(q) and
backward() delivers the uninterpreted gradient g(q) (symbolic reverse
differentiation of the recorded DAG).  Symbolic q, p, step size, inverse mass matrix.
  * flip-and-return: integrate, negate the momentum, integrate again -> (q, -p)
  * det d(q',p')/d(q,p) == 1 (Hessian symbols symmetric)
  * energy error: dH(eps) has dH(0) = 0 and d dH/d eps (0) = 0  (=> O(eps^2))
  * HMCOperator._step returns K0 - K1 with K = p^T M^-1 p / 2, and restores the
    parameters when the trajectory fails numerically
"""
from __future__ import annotations

import itertools
import sys

import torch

import common as cm
from symtorch import SymFloat, SymTensor, cur, from_ids, new_vars, tracing
from symtorch.tensor import mkfloat
from vlib.core import main_for, pmap

PID = 'C16'


def make_target(params, kind='uf'):
    from torchtree.core.model import CallableModel

    class Target(CallableModel):
        def __init__(self, ps):
            super().__init__('target')
            for i, p in enumerate(ps):
                setattr(self, f'p{i}', p)
            self.ps = ps
            self.calls = 0
            self.fail_at = None

        def _call(self, *a, **k):
            self.calls += 1
            d = cur().dag
            q = torch.cat([p.tensor for p in self.ps], -1)
            if self.fail_at is not None and self.calls == self.fail_at:
                return torch.tensor(float('nan'))
            ids = q._ids.tolist()
            if kind == 'uf':
                vals = tuple(d.vals[i] for i in ids)
                key = ('U', vals)
                if key not in d.uf_witness:
                    d.uf_witness[key] = -0.5 * sum(v * v for v in vals) + 0.1 * sum(vals)
                out = d.uf('U', *ids)
            else:  # standard Gaussian log density (quadratic target)
                out = 0
                for i in ids:
                    out = d.add(out, d.mul(d.const(-0.5), d.mul(i, i)))
            r = from_ids(torch.tensor(out, dtype=torch.int64))
            r._rg = any(p.tensor._rg for p in self.ps if isinstance(p.tensor, SymTensor))
            return r

        def _sample_shape(self):
            return torch.Size([])

        @classmethod
        def from_json(cls, data, dic):
            raise NotImplementedError

    return Target(params)


def uf_partial_witness(d):
    """witness values for gradient / Hessian symbols of U: those of U(q) = -|q|^2/2 + 0.1 sum(q)"""
    def grad_k(k):
        return lambda *q: -q[k] + 0.1

    def hess(k, l):
        return lambda *q: (-1.0 if k == l else 0.0)

    for k in range(4):
        d.uf_eval[f'd{k}~U'] = grad_k(k)
        for l in range(4):
            d.uf_eval[f'd{l}~d{k}~U'] = hess(k, l)


def setup(dim, nparams, dense, symbolic_eps=True, steps=2, kind='uf'):
    from torchtree.core.parameter import Parameter
    from torchtree.inference.hmc.integrator import LeapfrogIntegrator

    t = cur()
    d = t.dag
    uf_partial_witness(d)
    sizes = [dim] if nparams == 1 else [1] * dim
    if nparams == 3:
        sizes = [1, 1, dim - 2]
    qs = []
    params = []
    k = 0
    for i, sz in enumerate(sizes):
        st = new_vars(f'q{i}', torch.tensor([0.3 + 0.4 * (k + j) for j in range(sz)], dtype=torch.float64))
        k += sz
        params.append(Parameter(f'x{i}', st))
        qs.append(st)
    p0 = new_vars('p', torch.tensor([0.7 - 0.5 * j for j in range(dim)], dtype=torch.float64))
    if dense:
        raw = torch.tensor([[1.3, 0.2, 0.1], [0.2, 0.8, 0.05], [0.1, 0.05, 1.1]], dtype=torch.float64)[:dim, :dim]
        im = new_vars('Minv', raw)
        # symmetric: use the same symbol for [i,j] and [j,i]
        ids = im._ids.clone()
        for i in range(dim):
            for j in range(i):
                ids[i, j] = ids[j, i]
        im = from_ids(ids)
    else:
        im = new_vars('Minv', torch.tensor([1.3, 0.8, 1.1][:dim], dtype=torch.float64))
    eps = mkfloat(d.var('eps', 0.11)) if symbolic_eps else 0.11
    integ = LeapfrogIntegrator('leapfrog', steps, eps)
    model = make_target(params, kind)
    return params, p0, im, eps, integ, model


def domain(d, dim, dense, V):
    cs = [d.lt(0, V['eps'])] if 'eps' in V else []
    if dense:
        if dim == 1:
            cs.append(d.lt(0, V['Minv[0,0]']))
        else:
            a, b, c = V['Minv[0,0]'], V['Minv[0,1]'], V['Minv[1,1]']
            cs += [d.lt(0, a), d.lt(0, d.sub(d.mul(a, c), d.mul(b, b)))]
    else:
        cs += [d.lt(0, V[f'Minv[{j}]']) for j in range(dim) if f'Minv[{j}]' in V]
    return cs


def hess_symmetry(d, roots):
    """ground instances of d_k d_l U == d_l d_k U for the Hessian symbols that occur"""
    hy = []
    seen = {}
    for n in d.topo(roots):
        if d.ops[n] == 'uf' and d.args[n][0].count('~') == 2:
            name = d.args[n][0]
            l, k, _ = name.split('~')
            seen[(l, k, d.args[n][1:])] = n
    for (l, k, args), n in list(seen.items()):
        other = seen.get((k, l, args))
        if other is None:
            other = d.uf(f'{k}~{l}~U', *args)
        hy.append(d.eq(n, other))
    return hy


def reversibility_task(task, tr):
    from torchtree.inference.hmc.integrator import LeapfrogIntegrator

    _, dim, nparams, dense, steps = task
    label = f'reversibility d={dim} params={nparams} dense={dense} steps={steps}'
    tr.fn(LeapfrogIntegrator.__call__)
    with tracing() as t:
        d = t.dag
        params, p0, im, eps, integ, model = setup(dim, nparams, dense, True, steps)
        q0 = [i for p in params for i in p.tensor._ids.tolist()]
        pm = integ(model, params, p0, im)
        q1 = [i for p in params for i in p.tensor._ids.tolist()]
        back = integ(model, params, -pm, im)
        q2 = [i for p in params for i in p.tensor._ids.tolist()]
        tr.witness_runs += 1
        tr.ops_checked += t.nchecked
        tr.regions += 1
        if t.concretized:
            tr.inconc(f'{label}: concretised {t.concretized[:2]}')
            return
        V = {d.args[i][0]: i for i in d.topo(q2 + back._ids.tolist()) if d.ops[i] == 'var'}
        goals = [('positions return: q(after flip-and-return) == q', d.and_(*[d.eq(a, b) for a, b in zip(q2, q0)])),
                 ('momentum returns negated: p(after) == -p', d.and_(*[d.eq(a, d.neg(b)) for a, b in zip(back._ids.tolist(), p0._ids.tolist())])),
                 ('requires_grad switched off on return', d.bconst(all(p.requires_grad is False for p in params)))]
        tr.sample({'case': label, 'q1[0]': d.to_str(q1[0], 4), 'n_path_conditions': len(t.pcs)})
        cm.discharge(tr, d, domain(d, dim, dense, V) + list(t.pcs), goals, label, replay=lambda v: replay_rev(dim, nparams, dense, steps, v),
                     varnodes=V, sig_prefix='LeapfrogIntegrator:', defined=False, timeout=40, threads=3, parallel=True)


def volume_task(task, tr):
    from torchtree.inference.hmc.integrator import LeapfrogIntegrator

    _, dim, nparams, dense, steps = task
    label = f'volume d={dim} params={nparams} dense={dense} steps={steps}'
    tr.fn(LeapfrogIntegrator.__call__)
    with tracing() as t:
        d = t.dag
        params, p0, im, eps, integ, model = setup(dim, nparams, dense, True, steps)
        q0 = [i for p in params for i in p.tensor._ids.tolist()]
        pm = integ(model, params, p0, im)
        q1 = [i for p in params for i in p.tensor._ids.tolist()]
        tr.witness_runs += 1
        tr.ops_checked += t.nchecked
        tr.regions += 1
        z0 = q0 + p0._ids.tolist()
        z1 = q1 + pm._ids.tolist()
        J = [d.grad(a, z0, honour_stops=False) for a in z1]
        import C07

        det = C07.det_leibniz(d, J)
        V = {d.args[i][0]: i for i in d.topo(z1) if d.ops[i] == 'var'}
        hy = hess_symmetry(d, [det])
        goals = [('det d(q\',p\')/d(q,p) == 1', d.eq(det, 1), hy)]
        tr.sample({'case': label, 'det_nodes': d.size([det])})
        tr.assumptions.add('the Hessian of the uninterpreted target is symmetric (ground instances for the points visited)')
        cm.discharge(tr, d, domain(d, dim, dense, V), goals, label, replay=lambda v: replay_vol(dim, nparams, dense, steps, v),
                     varnodes=V, sig_prefix='LeapfrogIntegrator:', defined=False, timeout=60, parallel=True)


def energy_task(task, tr):
    from torchtree.inference.hmc.hamiltonian import Hamiltonian
    from torchtree.inference.hmc.integrator import LeapfrogIntegrator

    _, dim, nparams, dense, steps, kind = task
    label = f'energy order d={dim} params={nparams} dense={dense} steps={steps} target={kind}'
    tr.fn(LeapfrogIntegrator.__call__, Hamiltonian.kinetic_energy)
    with tracing() as t:
        d = t.dag
        params, p0, im, eps, integ, model = setup(dim, nparams, dense, True, steps, kind)
        ham = Hamiltonian(None, model)
        K0 = ham.kinetic_energy(p0, im)
        U0 = model()
        pm = integ(model, params, p0, im)
        K1 = ham.kinetic_energy(pm, im)
        U1 = model()
        tr.witness_runs += 1
        tr.ops_checked += t.nchecked
        tr.regions += 1
        # H = -log density + K
        def sid(x):
            return int(x._ids.reshape(-1)[0])

        dH = d.sub(d.add(d.neg(sid(U1)), sid(K1)), d.add(d.neg(sid(U0)), sid(K0)))
        e = d.var_ids['eps']
        dH0 = d.substitute([dH], {e: 0})[0]
        g = d.grad(dH, [e], honour_stops=False)[0]
        g0 = d.substitute([g], {e: 0})[0]
        V = {d.args[i][0]: i for i in d.topo([dH]) if d.ops[i] == 'var'}
        goals = [('energy error vanishes at eps = 0', d.eq(dH0, 0)),
                 ('first derivative of the energy error w.r.t. eps vanishes at eps = 0 (error is O(eps^2))', d.eq(g0, 0))]
        tr.sample({'case': label, 'dH_nodes': d.size([dH])})
        cm.discharge(tr, d, domain(d, dim, dense, V), goals, label, replay=lambda v: replay_energy(dim, nparams, dense, steps, v),
                     varnodes=V, sig_prefix='LeapfrogIntegrator:', defined=False, timeout=40, parallel=True)


def hastings_task(task, tr):
    from torchtree.core.parameter import Parameter
    from torchtree.inference.hmc.operator import HMCOperator
    from torchtree.inference.hmc.hamiltonian import Hamiltonian

    _, dim, nparams, dense, steps, fail = task
    label = f'HMCOperator._step d={dim} params={nparams} dense={dense} steps={steps} numerical-failure={fail}'
    tr.fn(HMCOperator._step, Hamiltonian.sample_momentum, Hamiltonian.kinetic_energy)
    tr.stubs.add('Hamiltonian.sample_momentum: the drawn momentum is an arbitrary symbolic vector')
    with tracing() as t:
        d = t.dag
        params, p0, im, eps, integ, model = setup(dim, nparams, dense, True, steps)
        # mass matrix parameter: the operator inverts it; give it the inverse-of-inverse through the same symbols
        if dense:
            mass = Parameter('mass', new_vars('M', torch.linalg.inv(im._v)))
        else:
            mass = Parameter('mass', new_vars('M', 1.0 / im._v))
        op = HMCOperator('hmc', model, params, integ, mass, 1.0, 0.8, [])
        inv_used = op.inverse_mass_matrix
        draws = []

        def fake_sample(mm):
            k = len(draws)
            pv = new_vars(f'mom{k}', torch.tensor([0.7 - 0.5 * j + 0.1 * k for j in range(dim)], dtype=torch.float64))
            draws.append(pv)
            return pv

        op._hamiltonian.sample_momentum = fake_sample
        if fail:
            model.fail_at = model.calls + 3  # a NaN potential in the middle of the first trajectory
        before = [p.tensor._ids.tolist() for p in params]
        ret = op.step()
        tr.witness_runs += 1
        tr.ops_checked += t.nchecked
        tr.regions += 1
        after = [p.tensor._ids.tolist() for p in params]
        V = {d.args[i][0]: i for i in d.topo([int(ret._ids.reshape(-1)[0])] + sum(after, [])) if d.ops[i] == 'var'}
        goals = []
        # which draw was the successful one
        used = draws[-1]
        # independent kinetic energy with the inverse mass matrix the operator holds
        def K(pids):
            acc = 0
            imi = inv_used._ids
            for i in range(dim):
                for j in range(dim):
                    m = int(imi[i, j]) if imi.dim() == 2 else (int(imi[i]) if i == j else 0)
                    acc = d.add(acc, d.mul(d.mul(pids[i], m), pids[j]))
            return d.mul(d.const(0.5), acc)

        # recompute the trajectory independently of the operator to get the final momentum
        if fail:
            goals.append(('a numerically failed trajectory is retried with a fresh momentum draw', d.bconst(len(draws) == 2)))
        # the operator must return K(p0) - K(p_end); p_end is what the real integrator returns for this draw:
        for p_, b in zip(params, before):
            p_.tensor = from_ids(torch.tensor(b, dtype=torch.int64))
        model.fail_at = None
        pend = integ(model, params, used, inv_used)
        again = [p.tensor._ids.tolist() for p in params]
        goals.append(('Hastings term == K(p_start) - K(p_end) with K = p^T M^-1 p / 2',
                      d.eq(int(ret._ids.reshape(-1)[0]), d.sub(K(used._ids.tolist()), K(pend._ids.tolist())))))
        goals.append(('proposed position is the end point of the leapfrog trajectory started at the saved state',
                      d.and_(*[d.eq(a, b) for x, y in zip(after, again) for a, b in zip(x, y)])))
        goals.append(('requires_grad switched off on the parameters', d.bconst(all(p.requires_grad is False for p in params))))
        # reject() restores the state exactly
        for p_, a in zip(params, after):
            p_.tensor = from_ids(torch.tensor(a, dtype=torch.int64))
        op.reject()
        rest = [p.tensor._ids.tolist() for p in params]
        goals.append(('reject() restores every parameter to its value before the proposal (identical expressions)',
                      d.bconst(rest == before)))
        # inverse mass matrix relation (diagonal): M^-1 == 1/M
        if not dense:
            goals.append(('inverse mass matrix == 1 / mass matrix',
                          d.and_(*[d.eq(int(inv_used._ids[j]), d.div(1, int(mass.tensor._ids[j]))) for j in range(dim)])))
        tr.sample({'case': label, 'hastings': d.to_str(int(ret._ids.reshape(-1)[0]), 4)})
        dom = [d.lt(0, V['eps'])] + [d.lt(0, i) for n, i in V.items() if n.startswith('M[') and (not dense or n in ('M[0,0]',))]
        cm.discharge(tr, d, dom + list(t.pcs), goals, label,
                     replay=lambda v: replay_hastings(dim, nparams, dense, steps, fail, v), varnodes=V,
                     sig_prefix='HMCOperator._step:',
                     defined=False, timeout=40, parallel=True)


# ------------------------------------------------------------------ replays (real autograd, Gaussian-mixture target)
def real_setup(dim, nparams, dense, steps, vals):
    from torchtree.core.model import CallableModel
    from torchtree.core.parameter import Parameter
    from torchtree.inference.hmc.integrator import LeapfrogIntegrator

    sizes = [dim] if nparams == 1 else [1] * dim
    if nparams == 3:
        sizes = [1, 1, dim - 2]
    params = []
    k = 0
    for i, sz in enumerate(sizes):
        tv = [vals.get(f'q{i}[{j}]', 0.3 + 0.4 * (k + j)) for j in range(sz)]
        k += sz
        params.append(Parameter(f'x{i}', torch.tensor(tv, dtype=torch.float64)))

    class T(CallableModel):
        def __init__(self):
            super().__init__('t')
            for i, p in enumerate(params):
                setattr(self, f'p{i}', p)

        def _call(self, *a, **k):
            q = torch.cat([p.tensor for p in params], -1)
            return -(0.5 * q * q).sum() - 0.25 * (q ** 4).sum() + 0.3 * q.prod()

        def _sample_shape(self):
            return torch.Size([])

        @classmethod
        def from_json(cls, data, dic):
            raise NotImplementedError

    p0 = torch.tensor([vals.get(f'p[{j}]', 0.7 - 0.5 * j) for j in range(dim)], dtype=torch.float64)
    if dense:
        a = abs(vals.get('Minv[0,0]', 1.3)) + 0.1
        if dim == 1:
            im = torch.tensor([[a]], dtype=torch.float64)
        else:
            b = vals.get('Minv[0,1]', 0.2)
            c = abs(vals.get('Minv[1,1]', 0.8)) + (b * b) / a + 0.1
            im = torch.tensor([[a, b], [b, c]], dtype=torch.float64)
    else:
        im = torch.tensor([abs(vals.get(f'Minv[{j}]', 1.0)) + 0.05 for j in range(dim)], dtype=torch.float64)
    eps = min(abs(vals.get('eps', 0.11)), 0.2) + 1e-3
    return params, p0, im, LeapfrogIntegrator('l', steps, eps), T()


def replay_rev(dim, nparams, dense, steps, vals):
    params, p0, im, integ, model = real_setup(dim, nparams, dense, steps, vals)
    q0 = torch.cat([p.tensor.clone() for p in params])
    try:
        pm = integ(model, params, p0, im)
        back = integ(model, params, -pm, im)
    except Exception as e:
        return True, f'integrator raised {type(e).__name__}: {e}'
    q2 = torch.cat([p.tensor for p in params])
    if not torch.allclose(q2, q0, rtol=1e-8, atol=1e-10) or not torch.allclose(back, -p0, rtol=1e-8, atol=1e-10):
        return True, f'flip-and-return gives q={q2.tolist()} p={back.tolist()} instead of q={q0.tolist()} p={(-p0).tolist()}'
    return False, 'agree'


def replay_vol(dim, nparams, dense, steps, vals):
    params, p0, im, integ, model = real_setup(dim, nparams, dense, steps, vals)
    q0 = torch.cat([p.tensor.clone() for p in params])
    h = 1e-6
    z0 = torch.cat([q0, p0])

    def flow(z):
        k = 0
        for p in params:
            n = p.tensor.shape[-1]
            p.tensor = z[k:k + n].clone()
            k += n
        pm = integ(model, params, z[dim:].clone(), im)
        return torch.cat([torch.cat([p.tensor.detach() for p in params]), pm.detach()])

    J = torch.zeros(2 * dim, 2 * dim, dtype=torch.float64)
    for j in range(2 * dim):
        e = torch.zeros(2 * dim, dtype=torch.float64)
        e[j] = h
        J[:, j] = (flow(z0 + e) - flow(z0 - e)) / (2 * h)
    det = float(torch.linalg.det(J))
    if abs(det - 1.0) > 1e-5:
        return True, f'numerical Jacobian determinant of the leapfrog map = {det}'
    return False, 'agree'


def replay_energy(dim, nparams, dense, steps, vals):
    errs = []
    for eps in (0.02, 0.01):
        v = dict(vals)
        v['eps'] = eps - 1e-3
        params, p0, im, integ, model = real_setup(dim, nparams, dense, steps, v)

        def H(p):
            K = 0.5 * (p @ (im @ p if im.dim() == 2 else im * p))
            return float(-model() + K)

        h0 = H(p0)
        pm = integ(model, params, p0, im)
        errs.append(abs(H(pm) - h0))
    if errs[1] > 1e-12 and errs[0] / errs[1] < 2.8:
        return True, f'energy error does not shrink quadratically: {errs}'
    return False, 'agree'


def replay_hastings(dim, nparams, dense, steps, fail, vals):
    from torchtree.core.parameter import Parameter
    from torchtree.inference.hmc.operator import HMCOperator

    params, p0, im, integ, model = real_setup(dim, nparams, dense, steps, vals)
    mass = Parameter('mass', torch.linalg.inv(im) if dense else 1.0 / im)
    op = HMCOperator('hmc', model, params, integ, mass, 1.0, 0.8, [])
    moms = [torch.tensor([vals.get(f'mom{k}[{j}]', 0.7 - 0.5 * j + 0.1 * k) for j in range(dim)], dtype=torch.float64)
            for k in range(2)]
    drawn = []

    def sample(mm):
        drawn.append(len(drawn))
        return moms[min(len(drawn) - 1, 1)].clone()

    op._hamiltonian.sample_momentum = sample
    if fail:
        # a NaN potential in the middle of the first trajectory (same call index as in the symbolic run)
        calls = {'n': 0}
        orig_call = type(model)._call

        def flaky(self_, *a, **k):
            calls['n'] += 1
            if calls['n'] == 3:
                return torch.tensor(float('nan'), dtype=torch.float64)
            return orig_call(self_, *a, **k)

        type(model)._call = flaky
    before = [p.tensor.clone() for p in params]
    try:
        ret = float(op.step())
    except Exception as e:
        return True, f'step raised {type(e).__name__}: {e}'
    finally:
        if fail:
            type(model)._call = orig_call
    used = moms[min(len(drawn) - 1, 1)]
    after = [p.tensor.clone() for p in params]
    imu = op.inverse_mass_matrix

    def K(p):
        return float(0.5 * (p @ (imu @ p if imu.dim() == 2 else imu * p)))

    for p_, b in zip(params, before):
        p_.tensor = b.clone()
    pend = integ(model, params, used.clone(), imu)
    want = K(used) - K(pend)
    if abs(ret - want) > 1e-9 * max(1.0, abs(want)):
        return True, (f'HMCOperator.step() returned {ret} but K(p_start) - K(p_end) = {want} for the momentum of the successful '
                      f'trajectory ({len(drawn)} momentum draw(s))')
    again = [p.tensor for p in params]
    if any(not torch.allclose(a, b, rtol=1e-9, atol=1e-12) for a, b in zip(after, again)):
        return True, 'proposed position differs from the leapfrog end point'
    for p_, a in zip(params, after):
        p_.tensor = a.clone()
    op.reject()
    if any(not torch.equal(p_.tensor, b) for p_, b in zip(params, before)):
        return True, 'reject() did not restore the parameters bit-identically'
    return False, 'agree'


def run_task(task, tr):
    {'rev': reversibility_task, 'vol': volume_task, 'energy': energy_task, 'hastings': hastings_task}[task[0]](task, tr)


def tasks_for(tier):
    ts = []
    if tier == 'quick':
        for dim, nparams, dense, steps in [(1, 1, False, 1), (1, 1, False, 2), (2, 1, False, 2), (2, 2, False, 2),
                                           (2, 1, True, 2), (2, 2, True, 1)]:
            ts.append(('rev', dim, nparams, dense, steps))
        ts.append(('rev', 3, 3, False, 1))  # three parameters per operator (offset bookkeeping of set_tensor)
        ts += [('vol', 1, 1, False, 1), ('vol', 1, 1, False, 2), ('vol', 2, 1, False, 1), ('vol', 2, 2, True, 1)]
        ts += [('energy', 1, 1, False, 1, 'uf'), ('energy', 2, 1, False, 2, 'gauss'), ('energy', 2, 2, True, 1, 'uf')]
        ts += [('hastings', 2, 1, False, 2, False), ('hastings', 2, 2, True, 1, False), ('hastings', 1, 1, False, 2, True)]
    else:
        for dim in (1, 2):
            for nparams in ((1,) if dim == 1 else (1, 2)):
                for dense in (False, True):
                    for steps in (1, 2, 3):
                        ts.append(('rev', dim, nparams, dense, steps))
                        if steps <= 2:
                            ts.append(('vol', dim, nparams, dense, steps))
                        ts.append(('energy', dim, nparams, dense, steps, 'uf'))
                        ts.append(('energy', dim, nparams, dense, steps, 'gauss'))
                        ts.append(('hastings', dim, nparams, dense, steps, False))
                    ts.append(('hastings', dim, nparams, dense, 2, True))
        ts.append(('rev', 3, 3, False, 2))
        ts.append(('hastings', 3, 3, False, 1, False))
    return ts


def body(chk):
    chk.explanation = ('the real leapfrog integrator and HMC operator are executed with an uninterpreted differentiable '
                       'target (U(q), gradient and Hessian are uninterpreted function symbols produced by symbolic reverse '
                       'differentiation); reversibility, unit Jacobian determinant, second-order energy error and the '
                       'Hastings term are identities decided by the solver for all q, p, step sizes and SPD mass matrices')
    chk.total.bounds['hmc'] = 'dimension <= 2, leapfrog steps <= 2 quick / 3 thorough, diagonal and dense SPD inverse mass matrix, 1 or 2 parameters per operator'
    chk.total.assumptions |= {'target differentiable with symmetric Hessian; autograd modelled by symbolic reverse differentiation '
                              '(validated against torch.autograd in the replays)',
                              'isnan() guards are false on real inputs; the numerical-failure branch is exercised by a target that returns NaN once'}
    pmap(run_task, tasks_for(chk.tier), chk.total)


if __name__ == '__main__':
    if '--replay' in sys.argv:
        import json

        r = json.load(open(sys.argv[sys.argv.index('--replay') + 1]))
        print('replay:', r['what'])
        sys.exit(1)
    sys.exit(main_for(PID, body))
