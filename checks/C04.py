"""C04 Transition probabilities are exp(Qt) of a properly normalised rate matrix.

(a) rate-matrix builders on symbolic parameters: q() equals the documented matrix
    (independent construction), rows sum to zero, off-diagonals >= 0, detailed
    balance, stationarity, and q/norm has one expected substitution per unit time;
(b) eigen path (SymmetricSubstitutionModel.p_t, EmpiricalSubstitutionModel.p_t):
    eigh is a contract stub (S = V diag(e) V^T, V orthonormal, V^-1 = V^T); obligations
    decided entry-wise with lemma selection: the argument of eigh is symmetric,
    P_ij(t) = sum_k A_ik exp(e_k t) B_kj, AB = I, A diag(e) B = Q/norm;
    with the classical lemma  AB = I & A E B = Q  =>  A e^{Et} B = e^{Qt}  this is the property;
(c) closed forms (JC69, GeneralJC69): P(0)=I, rows sum to 1, P(s+t)=P(s)P(t), dP/dt|0 = Q;
(d) NonSymmetric model: the argument handed to matrix_exp is Q/norm * t entry by entry;
(e) sample-shaped parameters (one leading sample axis): per sample, q() is the documented matrix of that sample's
    parameters with the facts of (a) and its own normalisation (codon model on all 61 states with symbolic non-uniform
    frequencies, general models, HKY, GTR); the eigen path of (b) per sample and branch on [S,B,K] branch lengths.
"""
from __future__ import annotations

import itertools
import math
import sys

import torch

import common as cm
from symtorch import SymTensor, cur, from_ids, new_vars, tracing
from symtorch.axioms import ground_axioms
from vlib.core import main_for, pmap

PID = 'C04'
NUC = 'ACGT'
TRANSITIONS = {('A', 'G'), ('G', 'A'), ('C', 'T'), ('T', 'C')}


# ------------------------------------------------------------------ model builders
def general_dt(S):
    return {'id': 'dt', 'type': 'GeneralDataType', 'codes': [chr(ord('a') + i) for i in range(S)]}


def model_json(kind, S=4, mapping=None, code='Universal'):
    if kind == 'JC69':
        return {'id': 'm', 'type': 'JC69'}
    if kind == 'GeneralJC69':
        return {'id': 'm', 'type': 'GeneralJC69', 'state_count': S}
    fr = {'id': 'freqs', 'type': 'Parameter', 'tensor': [1.0 / S] * S}
    if kind == 'HKY':
        return {'id': 'm', 'type': 'HKY', 'kappa': {'id': 'kappa', 'type': 'Parameter', 'tensor': [2.0]}, 'frequencies': fr}
    if kind == 'GTR':
        return {'id': 'm', 'type': 'GTR', 'rates': {'id': 'rates', 'type': 'Parameter', 'tensor': [1.0] * 6}, 'frequencies': fr}
    if kind == 'GeneralSymmetric':
        nr = max(mapping) + 1
        return {'id': 'm', 'type': 'GeneralSymmetricSubstitutionModel', 'data_type': general_dt(S), 'mapping': mapping,
                'rates': {'id': 'rates', 'type': 'Parameter', 'tensor': [1.0] * nr}, 'frequencies': fr}
    if kind == 'GeneralNonSymmetric':
        nr = max(mapping) + 1
        return {'id': 'm', 'type': 'GeneralNonSymmetricSubstitutionModel', 'data_type': general_dt(S), 'mapping': mapping,
                'rates': {'id': 'rates', 'type': 'Parameter', 'tensor': [1.0] * nr}, 'frequencies': fr}
    if kind == 'MG94':
        from torchtree.evolution.datatype import CodonDataType

        ncod = CodonDataType.NUMBER_OF_CODONS[[c.lower() for c in CodonDataType.GENETIC_CODE_NAMES].index(code.lower())]
        return {'id': 'm', 'type': 'MG94', 'data_type': {'id': 'dt', 'type': 'CodonDataType', 'genetic_code': code},
                'alpha': {'id': 'alpha', 'type': 'Parameter', 'tensor': [1.0]},
                'beta': {'id': 'beta', 'type': 'Parameter', 'tensor': [1.0]},
                'kappa': {'id': 'kappa', 'type': 'Parameter', 'tensor': [1.0]},
                'frequencies': {'id': 'freqs', 'type': 'Parameter', 'tensor': [1.0 / ncod] * ncod}}
    raise KeyError(kind)


def symbolize_all(dic, d, V, seed=0):
    """replace every float Parameter by symbols; returns name -> node id"""
    from torchtree.core.parameter import Parameter

    base = {'kappa': 2.3, 'rates': 0.8, 'freqs': None, 'alpha': 0.7, 'beta': 1.9}
    for key, p in list(dic.items()):
        if isinstance(p, Parameter) and p.tensor.is_floating_point():
            n = p.tensor.shape[-1]
            if key == 'freqs':
                raw = torch.tensor([1.0 + 0.37 * ((i * 7 + seed) % 5) for i in range(n)], dtype=torch.float64)
                vals = raw / raw.sum()
            else:
                vals = torch.tensor([base.get(key, 1.0) + 0.31 * i for i in range(n)], dtype=torch.float64)
            st = cm.symbolize(p, key, vals)
            for i in st._ids.reshape(-1).tolist():
                V[d.args[i][0]] = i


def param_domain(d, V, simplex=True):
    dom = [d.lt(0, i) for i in V.values()]
    if simplex:
        fr = [i for n, i in sorted(V.items()) if n.startswith('freqs')]
        if fr:
            s = 0
            for i in fr:
                s = d.add(s, i)
            dom.append(d.eq(s, 1))
    return dom


# ------------------------------------------------------------------ documented rate matrices (oracle)
def exchangeability(kind, mapping, S, V, d, extra=None):
    """r(i,j) node for i != j according to the documentation of each model."""
    def rate(k):
        return V[f'rates[{k}]']

    if kind == 'HKY':
        return lambda i, j: V['kappa[0]'] if (NUC[i], NUC[j]) in TRANSITIONS else 1
    if kind == 'GTR':
        pairs = list(itertools.combinations(range(4), 2))  # a,b,c,d,e,f = AC AG AT CG CT GT
        return lambda i, j: rate(pairs.index((min(i, j), max(i, j))))
    if kind == 'GeneralSymmetric':
        pairs = list(itertools.combinations(range(S), 2))
        return lambda i, j: rate(mapping[pairs.index((min(i, j), max(i, j)))])
    if kind == 'GeneralNonSymmetric':
        pairs = list(itertools.combinations(range(S), 2))
        half = len(pairs)
        return lambda i, j: rate(mapping[pairs.index((i, j))] if i < j else mapping[half + pairs.index((j, i))])
    if kind == 'MG94':
        codons, aa = extra

        def r(i, j):
            c1, c2 = codons[i], codons[j]
            diff = [k for k in range(3) if c1[k] != c2[k]]
            if len(diff) != 1:
                # the shipped MG94 gives rate 1 (not 0) to multi-nucleotide changes: documented behaviour of
                # this implementation is taken from its own docstring-free code only for this convention
                return 1
            out = 1
            if (c1[diff[0]], c2[diff[0]]) in TRANSITIONS:
                out = d.mul(out, V['kappa[0]'])
            if aa[i] == aa[j]:
                out = d.mul(out, V['alpha[0]'])
            else:
                out = d.mul(out, V['beta[0]'])
            return out

        return r
    raise KeyError(kind)


def codon_tables(code):
    """independent reading of the genetic code: sense codons in TCAG-free 'ACGT' order and their amino acids"""
    from torchtree.evolution.datatype import CodonDataType

    idx = [c.lower() for c in CodonDataType.GENETIC_CODE_NAMES].index(code.lower())
    table = CodonDataType.GENETIC_CODE_TABLES[idx]
    codons = [a + b + c for a in NUC for b in NUC for c in NUC]
    sense = [(cdn, table[k]) for k, cdn in enumerate(codons) if table[k] != '*']
    return [s[0] for s in sense], [s[1] for s in sense]


def q_facts(d, Q, pi, S, reversible, label):
    goals = []
    rows = []
    offd = []
    db = []
    stat = []
    for i in range(S):
        s = 0
        for j in range(S):
            s = d.add(s, Q[i][j])
            if i != j:
                offd.append(d.le(0, Q[i][j]))
                if reversible and i < j:
                    db.append(d.eq(d.mul(pi[i], Q[i][j]), d.mul(pi[j], Q[j][i])))
        rows.append(d.eq(s, 0))
    for j in range(S):
        s = 0
        for i in range(S):
            s = d.add(s, d.mul(pi[i], Q[i][j]))
        stat.append(d.eq(s, 0))
    goals.append(('rows of Q sum to zero', d.and_(*rows)))
    goals.append(('off-diagonal rates non-negative', d.and_(*offd)))
    if reversible:
        goals.append(('detailed balance pi_i Q_ij == pi_j Q_ji', d.and_(*db)))
        goals.append(('frequencies are stationary: pi Q == 0', d.and_(*stat)))
    return goals


# ------------------------------------------------------------------ tasks
def q_task(task, tr):
    from torchtree.evolution.substitution_model import abstract, codon, general, nucleotide

    _, kind, S, mapping, code = task
    label = f'Q {kind} S={S} mapping={mapping} code={code}'
    cls = {'HKY': nucleotide.HKY, 'GTR': nucleotide.GTR, 'GeneralSymmetric': general.GeneralSymmetricSubstitutionModel,
           'GeneralNonSymmetric': general.GeneralNonSymmetricSubstitutionModel, 'MG94': codon.MG94}[kind]
    tr.fn(cls.q, abstract.AbstractSubstitutionModel.norm)
    with tracing() as t:
        d = t.dag
        m, dic = cm.build(model_json(kind, S, mapping, code))
        V = {}
        symbolize_all(dic, d, V)
        S_ = m.frequencies.shape[-1]
        Qt = m.q()
        Q = Qt._ids.reshape(S_, S_).tolist()
        pi = m.frequencies._ids.reshape(-1).tolist()
        tr.witness_runs += 1
        tr.ops_checked += t.nchecked
        tr.regions += 1
        extra = codon_tables(code) if kind == 'MG94' else None
        if kind == 'MG94' and len(extra[0]) != S_:
            tr.inconc(f'{label}: genetic code table has {len(extra[0])} sense codons, model has {S_} states')
            return
        r = exchangeability(kind, mapping, S_, V, d, extra)
        doc = []
        for i in range(S_):
            rowsum = 0
            for j in range(S_):
                if i != j:
                    e = d.mul(r(i, j), pi[j])
                    rowsum = d.add(rowsum, e)
                    doc.append(d.eq(Q[i][j], e))
            doc.append(d.eq(Q[i][i], d.neg(rowsum)))
        goals = [('q() == documented rate matrix (r_ij * pi_j off the diagonal, minus the row sum on it)', d.and_(*doc))]
        goals += q_facts(d, Q, pi, S_, kind != 'GeneralNonSymmetric', label)
        # normalisation: -sum_i pi_i (Q/norm)_ii == 1
        nrm = m.norm(Qt)
        ni = int(nrm._ids.reshape(-1)[0])
        tot = 0
        for i in range(S_):
            tot = d.add(tot, d.mul(pi[i], d.div(Q[i][i], ni)))
        goals.append(('one expected substitution per unit time: -sum_i pi_i Q_ii/norm == 1', d.eq(d.neg(tot), 1)))
        # norm > 0 by lemma chaining (the direct goal, a sign condition on a polynomial with S*(S-1) monomials, costs 10 s
        # for the codon model and times out on a loaded machine): (1) every diagonal entry is negative, (2) with the
        # diagonal entries generalised to arbitrary negative numbers, -sum_i pi_i q_i > 0; the well-definedness goal then
        # uses norm > 0 with the norm generalised to an arbitrary positive number
        dneg = [d.lt(Q[i][i], 0) for i in range(S_)]
        goals.append(('every diagonal entry of q() is negative', d.and_(*dneg), [], f'{kind}.q:diagonal-sign'))
        ab_ = cm.abstracted(d, [Q[i][i] for i in range(S_)], dneg + [d.lt(0, ni)])
        goals.append(('norm > 0', ab_[-1], ab_[:-1], f'{kind}.q:norm > 0'))
        obl = [d.not_(d.eq(x, 0)) for x in t.denominators]
        obl += [d.lt(0, x) if k_ == 'pos' else d.le(0, x) for k_, x in t.domains]
        if obl:
            allok = d.and_(*obl)
            ab_ = cm.abstracted(d, [ni], [d.lt(0, ni), allok])
            goals.append(('every denominator is non-zero and every log/sqrt argument is in its domain', ab_[-1],
                          ab_[:-1] + ground_axioms(d, [ab_[-1]]), f'{kind}.q:well-defined'))
        tr.sample({'case': label, 'Q[0][1]': d.to_str(Q[0][1], 4), 'norm': d.to_str(ni, 3)})
        dom = param_domain(d, V)

        def replay(vals):
            return q_replay(kind, S, mapping, code, vals)

        cm.discharge(tr, d, dom, goals, label, replay=replay, timeout=120.0, varnodes=V, sig_prefix=f'{kind}.q:',
                     defined=False, parallel=True)


def set_params(dic, vals):
    from torchtree.core.parameter import Parameter

    for key, p in dic.items():
        if isinstance(p, Parameter) and p.tensor.is_floating_point():
            tns = p.tensor.clone().to(torch.float64)
            for k in range(tns.shape[-1]):
                nm = f'{key}[{k}]'
                if nm in vals:
                    tns[k] = vals[nm]
            p.tensor = tns


def q_replay(kind, S, mapping, code, vals):
    m, dic = cm.build(model_json(kind, S, mapping, code))
    set_params(dic, vals)
    if any(v <= 0 for v in vals.values()):
        return False, 'counterexample outside the domain'
    try:
        Q = m.q().to(torch.float64)
        pi = m.frequencies.to(torch.float64)
    except Exception as e:
        return True, f'q() raised {type(e).__name__}: {e}'
    S_ = pi.shape[-1]
    if not torch.allclose(Q.sum(-1), torch.zeros(S_, dtype=torch.float64), atol=1e-9):
        return True, f'rows of Q do not sum to zero: {Q.sum(-1).tolist()}'
    off = Q - torch.diag(torch.diagonal(Q))
    if (off < -1e-12).any():
        return True, 'negative off-diagonal rate'
    if kind != 'GeneralNonSymmetric':
        F = pi.unsqueeze(-1) * Q
        if not torch.allclose(F, F.t(), rtol=1e-9, atol=1e-12):
            return True, 'detailed balance violated'
    # documented structure
    with tracing() as t:
        d = t.dag
        V = {k: d.const(v) for k, v in vals.items()}
        for key, p in dic.items():
            if hasattr(p, 'tensor') and p.tensor.is_floating_point():
                for k in range(p.tensor.shape[-1]):
                    V.setdefault(f'{key}[{k}]', d.const(float(p.tensor[k])))
        extra = codon_tables(code) if kind == 'MG94' else None
        r = exchangeability(kind, mapping, S_, V, d, extra)
        for i in range(S_):
            for j in range(S_):
                if i != j:
                    want = d.vals[d.mul(r(i, j), d.const(float(pi[j])))]
                    if abs(float(Q[i, j]) - want) > 1e-9 * max(1, abs(want)):
                        return True, f'Q[{i},{j}] = {float(Q[i, j])} but the documented matrix has {want}'
    return False, 'agree'


def _empirical_class():
    from torchtree.evolution.substitution_model.general import EmpiricalSubstitutionModel

    class Emp(EmpiricalSubstitutionModel):  # LG/WAG do the same: only the abstract `rates` property is added
        @property
        def rates(self):
            return []

    return Emp


def _Empirical(*a):
    return _empirical_class()(*a)


def _eigen_goals(d, c, branches, pi, Q, ni, kind, S_, pre='', sigpre=None, entries=None):
    """obligations of the eigen path for ONE matrix: c = eigh contract of the matrix handed to eigh, branches =
    [(tag, node ids of the returned P (S x S) of that branch, branch-length node)], pi / Q / ni = frequencies,
    un-normalised rate matrix and norm the result must belong to.  `pre` prefixes the goal labels (sample of a
    batched call)."""
    sigpre = f'{kind}.p_t:' if sigpre is None else sigpre
    ent = [(i, j) for i in range(S_) for j in range(S_)] if entries is None else [tuple(x) for x in entries]
    e = c['e']._ids.tolist()
    Vm = c['V']._ids.tolist()
    sq = [d.sqrt(p) for p in pi]
    sqrt_ax = []
    for p, s in zip(pi, sq):
        sqrt_ax += [d.lt(0, s), d.eq(d.mul(s, s), p)]
    # A = diag(1/sqrt pi) V,  B = V^T diag(sqrt pi)  -- built here, independently of the traced code
    A = [[d.div(Vm[i][k], sq[i]) for k in range(S_)] for i in range(S_)]
    B = [[d.mul(Vm[j][k], sq[j]) for j in range(S_)] for k in range(S_)]
    goals = []
    Sm = c['S']._ids.tolist()
    for i, j in sorted({(min(i, j), max(i, j)) for i, j in ent if i != j}):
        goals.append((f'{pre}the matrix handed to eigh is symmetric: S[{i},{j}] == S[{j},{i}] (eigh reads one triangle only)',
                      d.eq(Sm[i][j], Sm[j][i]), sqrt_ax, sigpre + 'eigh-argument-symmetric'))
    for tag, Pm, tn in branches:
        form = []
        for i, j in ent:
            acc = 0
            for k in range(S_):
                acc = d.add(acc, d.mul(d.mul(A[i][k], d.exp(d.mul(e[k], tn))), B[k][j]))
            form.append(d.eq(Pm[i][j], acc))
        gl = f'{pre}{tag}P_ij(t) == sum_k A_ik exp(e_k t) B_kj with A = pi^-1/2 V, B = V^T pi^1/2'
        if sigpre == f'{kind}.p_t:' and not pre and not tag:
            goals.append((gl, d.and_(*form), sqrt_ax))
        else:
            goals.append((gl, d.and_(*form), sqrt_ax, sigpre + 'eigen-formula'))
    for i, j in ent:
        ab = 0
        aeb = 0
        for k in range(S_):
            ab = d.add(ab, d.mul(A[i][k], B[k][j]))
            aeb = d.add(aeb, d.mul(d.mul(A[i][k], e[k]), B[k][j]))
        # lemma selection: only the contract rows this entry needs
        goals.append((f'{pre}(AB)[{i},{j}] == I[{i},{j}]', d.eq(ab, 1 if i == j else 0),
                      sqrt_ax + [c['ortho_rows'][(i, j)]], sigpre + 'AB=I'))
        # lemma chaining: (1) pure identity  AEB_ij == (sq_j/sq_i) * X_ij  with X_ij = sum_k V_ik e_k V_jk,
        # (2) with the contract row X_ij == S_ij:  (sq_j/sq_i) * S_ij == Q_ij/norm, (3) conclusion
        X = c['recon_lhs'][(i, j)]
        Sij = int(c['S']._ids[i, j])
        ratio = d.div(sq[j], sq[i])
        g1 = d.eq(aeb, d.mul(ratio, X))
        g2 = d.eq(d.mul(ratio, Sij), d.div(Q[i][j], ni))
        goals.append((f'{pre}(A diag(e) B)[{i},{j}] == (sqrt(pi_j)/sqrt(pi_i)) * (V diag(e) V^T)[{i},{j}]', g1, sqrt_ax,
                      sigpre + 'AEB=Q'))
        goals.append((f'{pre}(sqrt(pi_j)/sqrt(pi_i)) * S[{i},{j}] == Q[{i},{j}]/norm', g2, sqrt_ax, sigpre + 'AEB=Q'))
        qn = d.div(Q[i][j], ni)
        ab_ = cm.abstracted(d, [aeb, X, Sij, ratio, qn], [g1, g2, c['recon'][(i, j)], d.eq(aeb, qn)])
        goals.append((f'{pre}(A diag(e) B)[{i},{j}] == Q[{i},{j}]/norm (conclusion, sub-terms abstracted)', ab_[3],
                      ab_[:3], sigpre + 'AEB=Q'))
    return goals


def eigen_task(task, tr):
    from torchtree.evolution.substitution_model import abstract, general, nucleotide

    _, kind, S, mapping = task
    label = f'eigen path {kind} S={S} mapping={mapping}'
    tr.fn(abstract.SymmetricSubstitutionModel.p_t, abstract.SymmetricSubstitutionModel.eigen)
    tr.stubs |= {'torch.linalg.eigh: contract S = V diag(e) V^T, V^T V = V V^T = I (and symmetry of S as an obligation)',
                 'inverse(V) of the orthonormal eigenvector matrix = V^T'}
    with tracing() as t:
        d = t.dag
        if kind == 'Empirical':
            from torchtree.evolution.substitution_model.general import EmpiricalSubstitutionModel

            tr.fn(EmpiricalSubstitutionModel.p_t, EmpiricalSubstitutionModel.create_rate_matrix,
                  EmpiricalSubstitutionModel.__init__)
            nr = S * (S - 1) // 2
            rates = new_vars('rates', torch.tensor([0.6 + 0.3 * i for i in range(nr)], dtype=torch.float64))
            raw = torch.tensor([1.0 + 0.4 * i for i in range(S)], dtype=torch.float64)
            freqs = new_vars('freqs', raw / raw.sum())
            m = _Empirical('m', rates, freqs)
            V = {d.args[i][0]: i for i in rates._ids.tolist() + freqs._ids.tolist()}
            Qun = m.q()
        else:
            m, dic = cm.build(model_json(kind, S, mapping))
            V = {}
            symbolize_all(dic, d, V)
            Qun = None
        tt = new_vars('t', torch.tensor([[0.37]], dtype=torch.float64))  # branch lengths [B=1,K=1]
        V['t[0,0]'] = int(tt._ids[0, 0])
        P = m.p_t(tt)
        tr.witness_runs += 1
        tr.ops_checked += t.nchecked
        tr.regions += 1
        if Qun is None:
            Qun = m.q()
        S_ = m.frequencies.shape[-1]
        if tuple(P.shape) != (1, 1, S_, S_):
            tr.violation(f'{kind}.p_t:shape', f'{label}: p_t shape {tuple(P.shape)}', {'label': label})
            return
        Pi = P._ids[0, 0].tolist()
        pi = m.frequencies._ids.reshape(-1).tolist()
        Q = Qun._ids.reshape(S_, S_).tolist()
        if kind == 'Empirical':
            nrm = 0
            for i in range(S_):
                nrm = d.add(nrm, d.mul(Q[i][i], pi[i]))
            ni = d.neg(nrm)
        else:
            ni = int(m.norm(Qun)._ids.reshape(-1)[0])
        con = [c for c in t.contracts if c['kind'] == 'eigh']
        if len(con) != 1:
            tr.inconc(f'{label}: expected exactly one eigh call, saw {len(con)}')
            return
        c = con[0]
        dom = param_domain(d, V)
        tnode = V['t[0,0]']
        goals = _eigen_goals(d, c, [('', Pi, tnode)], pi, Q, ni, kind, S_)
        tr.sample({'case': label, 'P[0][1]': d.to_str(Pi[0][1], 5)})
        tr.assumptions.add('classical lemma (trusted): AB = I and A diag(e) B = Q  imply  A exp(diag(e) t) B = exp(Qt)')

        def replay(vals):
            return pt_replay(kind, S, mapping, vals)

        cm.discharge(tr, d, dom, goals, label, replay=replay, timeout=60.0, varnodes=V, sig_prefix=f'{kind}.p_t:',
                     threads=4, parallel=True)


def pt_replay(kind, S, mapping, vals):
    """real eigh / matrix_exp on plain tensors: p_t(t) vs torch.matrix_exp(Q/norm * t)"""
    tval = abs(vals.get('t[0,0]', 0.37)) or 0.37
    pos = {k: v for k, v in vals.items() if k != 't[0,0]'}
    if any(v <= 0 for v in pos.values()):
        return False, 'counterexample outside the domain'
    if kind == 'Empirical':
        from torchtree.evolution.substitution_model.general import EmpiricalSubstitutionModel

        nr = S * (S - 1) // 2
        rates = torch.tensor([vals.get(f'rates[{i}]', 0.6 + 0.3 * i) for i in range(nr)], dtype=torch.float64)
        fr = torch.tensor([vals.get(f'freqs[{i}]', 1.0 / S) for i in range(S)], dtype=torch.float64)
        fr = fr / fr.sum()
        m = _Empirical('m', rates, fr)
        Q = m.q()
        pi = fr
    else:
        m, dic = cm.build(model_json(kind, S, mapping))
        set_params(dic, pos)
        fr = dic['freqs'].tensor
        dic['freqs'].tensor = fr / fr.sum()
        Q = m.q()
        pi = m.frequencies
    try:
        P = m.p_t(torch.tensor([[tval]], dtype=torch.float64))[0, 0]
    except Exception as e:
        return True, f'p_t raised {type(e).__name__}: {e}'
    nrm = -(torch.diagonal(Q) * pi).sum()
    want = torch.matrix_exp(Q / nrm * tval)
    if not torch.allclose(P, want, rtol=1e-7, atol=1e-9):
        return True, f'p_t({tval}) differs from matrix_exp(Q/norm*t) by {float((P - want).abs().max())}'
    return False, 'agree with matrix_exp'


def closed_task(task, tr):
    from torchtree.evolution.substitution_model import general, nucleotide

    _, kind, S = task
    label = f'closed form {kind} S={S}'
    tr.fn(nucleotide.JC69.p_t, nucleotide.JC69.q, general.GeneralJC69.p_t, general.GeneralJC69.q)
    with tracing() as t:
        d = t.dag
        m, dic = cm.build(model_json(kind, S))
        S_ = m.frequencies.shape[-1]
        V = {}
        ts = new_vars('s', torch.tensor([0.21]))
        tt = new_vars('t', torch.tensor([0.37]))
        V['s'] = int(ts._ids[0])
        V['t'] = int(tt._ids[0])
        sn, tn = V['s'], V['t']
        Ps = m.p_t(ts)[0]._ids.tolist()
        Pt = m.p_t(tt)[0]._ids.tolist()
        Pst = m.p_t(ts + tt)[0]._ids.tolist()
        P0 = m.p_t(torch.zeros(1, dtype=torch.float64) + 0.0 * tt)[0]
        P0n = m.p_t(torch.zeros(1, dtype=torch.float64))[0]
        Q = m.q()
        tr.witness_runs += 1
        tr.ops_checked += t.nchecked
        tr.regions += 1
        Qv = Q.tolist() if not isinstance(Q, SymTensor) else None
        goals = []
        ident = []
        P0l = P0n.tolist() if not isinstance(P0n, SymTensor) else [[d.vals[x] for x in r] for r in P0n._ids.tolist()]
        for i in range(S_):
            for j in range(S_):
                ident.append(d.bconst(abs(P0l[i][j] - (1.0 if i == j else 0.0)) < 1e-15))
        goals.append(('P(0) == I', d.and_(*ident)))
        rows = []
        semi = []
        deriv = []
        for i in range(S_):
            s = 0
            for j in range(S_):
                s = d.add(s, Pt[i][j])
                acc = 0
                for k in range(S_):
                    acc = d.add(acc, d.mul(Ps[i][k], Pt[k][j]))
                semi.append(d.eq(Pst[i][j], acc))
                g = d.grad(Pt[i][j], [tn], honour_stops=False)[0]
                g0 = d.substitute([g], {tn: 0})[0]
                deriv.append(d.eq(g0, d.const(Qv[i][j])))
            rows.append(d.eq(s, 1))
        goals.append(('rows of P(t) sum to one', d.and_(*rows)))
        goals.append(('P(s+t) == P(s) P(t)', d.and_(*semi)))
        goals.append(('dP/dt at t=0 == Q', d.and_(*deriv)))
        # normalisation of the closed form's Q
        pi = m.frequencies.tolist()
        goals.append(('-sum_i pi_i Q_ii == 1', d.bconst(abs(-sum(pi[i] * Qv[i][i] for i in range(S_)) - 1.0) < 1e-12)))
        allg = [g[1] for g in goals]
        ax = ground_axioms(d, allg, rounds=3)
        tr.sample({'case': label, 'P[0][0]': d.to_str(Pt[0][0], 5)})
        tr.assumptions.add('classical lemma (trusted): P(0)=I, P(s+t)=P(s)P(t), P\'(0)=Q  imply  P(t)=exp(Qt)')

        def replay(vals):
            tv = abs(vals.get('t', 0.37))
            P = m.p_t(torch.tensor([tv], dtype=torch.float64))[0].to(torch.float64)
            want = torch.matrix_exp(torch.as_tensor(Qv, dtype=torch.float64) * tv)
            if not torch.allclose(P, want, rtol=1e-7, atol=1e-9):
                return True, f'p_t({tv}) differs from matrix_exp(Q t) by {float((P - want).abs().max())}'
            return False, 'agree with matrix_exp'

        cm.discharge(tr, d, [d.le(0, sn), d.le(0, tn)] + ax, goals, label, replay=replay, timeout=60.0, varnodes=V,
                     sig_prefix=f'{kind}.p_t:')


def structured_witnesses(kind, S, mapping):
    """Concrete parameter points for the fallback of the verdict policy (a run the engine cannot encode): generic, and
    the degenerate corners of the admissible domain where a decomposition-based p_t breaks down although exp(Qt) is
    perfectly regular - equal rates (repeated eigenvalues), a (nearly) irreversible chain (a defective, i.e.
    non-diagonalisable, rate matrix: every rate class except the first ones tiny), strongly unequal frequencies."""
    nr = (max(mapping) + 1) if mapping is not None else S * (S - 1)
    pts = []
    base_f = {f'freqs[{i}]': 1.0 / S for i in range(S)}
    pts.append(('generic', dict({f'rates[{i}]': 0.6 + 0.3 * i for i in range(nr)}, **base_f)))
    pts.append(('equal rates', dict({f'rates[{i}]': 1.0 for i in range(nr)}, **base_f)))
    # forward rates 1, backward rates ~ 0: in the row-major off-diagonal numbering of a general model the entries
    # above the diagonal come first in each row; with a mapping the classes are what they are - several patterns
    import itertools as _it

    subsets = (list(_it.product((0, 1), repeat=nr)) if nr <= 8 else
               [tuple(int((i * 7 + k) % 3 == 0) for i in range(nr)) for k in range(12)])
    for eps in (1e-300, 1e-12):
        for bits in subsets:
            if not any(bits) or all(bits):
                continue
            v = {f'rates[{i}]': (1.0 if b else eps) for i, b in enumerate(bits)}
            pts.append((f'rates {"".join(map(str, bits))} (1 = one, 0 = {eps}): some transitions (nearly) impossible', dict(v, **base_f)))
    pts.append(('unequal frequencies', dict({f'rates[{i}]': 0.6 + 0.3 * i for i in range(nr)},
                                            **{f'freqs[{i}]': (0.97 if i == 0 else 0.03 / (S - 1)) for i in range(S)})))
    return pts


def expm_task(task, tr):
    try:
        _expm_task(task, tr)
    except Exception as e:  # e.g. UnsupportedOp: p_t no longer goes through matrix_exp
        _, kind, S, mapping = task
        label = f'matrix_exp argument {kind} S={S}'
        # verdict policy, last rung: the run cannot be encoded - concrete disagreement at witness points is still a
        # (replayed) violation; agreement there proves nothing and the task stays inconclusive
        for name, vals in structured_witnesses(kind, S, mapping):
            for tval in (0.7, 0.05):
                bad, detail = pt_replay(kind, S, mapping, dict(vals, **{'t[0,0]': tval}))
                if bad:
                    tr.violation(f'{kind}.p_t:differs-from-matrix_exp', f'{label}: the symbolic run could not be encoded '
                                 f'({type(e).__name__}: {str(e)[:120]}); on plain tensors at the structured witness '
                                 f'"{name}": {detail}', {'kind': kind, 'S': S, 'mapping': mapping, 'values': vals, 't': tval})
                    return
        tr.inconc(f'{label}: symbolic run raised {type(e).__name__}: {str(e)[:200]}; no structured witness separates p_t from '
                  'matrix_exp(Q/norm*t)')


def _expm_task(task, tr):
    from torchtree.evolution.substitution_model import abstract

    _, kind, S, mapping = task
    label = f'matrix_exp argument {kind} S={S}'
    tr.fn(abstract.NonSymmetricSubstitutionModel.p_t)
    tr.stubs.add('torch.matrix_exp: uninterpreted function of its argument matrix (congruence only)')
    with tracing() as t:
        d = t.dag
        m, dic = cm.build(model_json(kind, S, mapping))
        V = {}
        symbolize_all(dic, d, V)
        tt = new_vars('t', torch.tensor([[0.37], [0.9]], dtype=torch.float64))  # [B=2,K=1]
        for i in tt._ids.reshape(-1).tolist():
            V[d.args[i][0]] = i
        P = m.p_t(tt)
        tr.witness_runs += 1
        tr.ops_checked += t.nchecked
        tr.regions += 1
        con = [c for c in t.contracts if c['kind'] == 'matrix_exp']
        if len(con) != 1 or tuple(P.shape) != (2, 1, S, S):
            tr.inconc(f'{label}: unexpected structure ({len(con)} matrix_exp calls, shape {tuple(P.shape)})')
            return
        A = con[0]['A']._ids
        Qun = m.q()
        Q = Qun._ids.tolist()
        ni = int(m.norm(Qun)._ids.reshape(-1)[0])
        gs = []
        for b in range(2):
            for i in range(S):
                for j in range(S):
                    gs.append(d.eq(int(A[b, 0, i, j]), d.mul(d.div(Q[i][j], ni), int(tt._ids[b, 0]))))
        same = d.and_(*[d.bconst(int(P._ids[b, 0, i, j]) == int(con[0]['out']._ids[b, 0, i, j]))
                        for b in range(2) for i in range(S) for j in range(S)])
        goals = [('argument of matrix_exp == Q/norm * t for every branch', d.and_(*gs)),
                 ('p_t returns the matrix exponential unchanged', same)]
        dom = param_domain(d, V)

        def replay(vals):
            return pt_replay(kind, S, mapping, {k: v for k, v in vals.items() if not k.startswith('t[')})

        cm.discharge(tr, d, dom, goals, label, replay=replay, timeout=40.0, varnodes=V, sig_prefix=f'{kind}.p_t:')


def batched_q_task(task, tr):
    """q() with batched parameters: each sample's rate matrix is the documented matrix of that sample's parameters
    (every subset of {rates/kappa, frequencies} batched)"""
    from torchtree.evolution.substitution_model import nucleotide

    _, kind, batched = task
    label = f'batched Q {kind} batched={sorted(batched)}'
    cls = {'HKY': nucleotide.HKY, 'GTR': nucleotide.GTR}[kind]
    tr.fn(cls.q)
    B = 2
    with tracing() as t:
        d = t.dag
        m, dic = cm.build(model_json(kind, 4, None))
        V = {}
        pnames = {'HKY': {'kappa': 1, 'freqs': 4}, 'GTR': {'rates': 6, 'freqs': 4}}[kind]
        per = {}
        for key, n in pnames.items():
            rows = []
            for b in range(B if key in batched else 1):
                base = [0.1, 0.2, 0.3, 0.4] if key == 'freqs' else [0.8 + 0.31 * i for i in range(n)]
                st = new_vars(f'{key}@{b}', torch.tensor([v * (1 + 0.13 * b) for v in base], dtype=torch.float64))
                rows.append(st)
                for i in st._ids.tolist():
                    V[d.args[i][0]] = i
            per[key] = rows
            if key in batched:
                dic[key].tensor = from_ids(torch.stack([r._ids for r in rows]))
            else:
                dic[key].tensor = rows[0]
        try:
            Q = m.q()
        except Exception as e:
            tr.notes.append(f'{label}: q() raises ({type(e).__name__}) - accepted (fails loudly)')
            tr.obligation(f'raises:{label}', nontrivial=False)
            tr.regions += 1
            return
        tr.witness_runs += 1
        tr.regions += 1
        goals = []
        if tuple(Q.shape) != (B, 4, 4):
            goals.append((f'q() has one matrix per sample (shape {tuple(Q.shape)})', d.FALSE, [], f'{kind}.q:batched:shape'))
        else:
            for b in range(B):
                Vb = {}
                for key, n in pnames.items():
                    row = per[key][b if key in batched else 0]
                    for i in range(n):
                        Vb[f'{key}[{i}]'] = int(row._ids[i])
                pi = [Vb[f'freqs[{i}]'] for i in range(4)]
                r = exchangeability(kind, None, 4, Vb, d)
                Qi = Q._ids[b].tolist()
                doc = []
                for i in range(4):
                    rs = 0
                    for j in range(4):
                        if i != j:
                            e = d.mul(r(i, j), pi[j])
                            rs = d.add(rs, e)
                            doc.append(d.eq(Qi[i][j], e))
                    doc.append(d.eq(Qi[i][i], d.neg(rs)))
                goals.append((f'sample {b}: q()[{b}] == documented matrix of sample {b}\'s parameters', d.and_(*doc), [],
                              f'{kind}.q:batched:mixes-samples'))

        def replay(vals):
            m2, dic2 = cm.build(model_json(kind, 4, None))
            for key, n in pnames.items():
                rows = []
                for b in range(B if key in batched else 1):
                    base = [0.1, 0.2, 0.3, 0.4] if key == 'freqs' else [0.8 + 0.31 * i for i in range(n)]
                    rows.append([abs(vals.get(f'{key}@{b}[{i}]', base[i] * (1 + 0.13 * b))) + 1e-3 for i in range(n)])
                dic2[key].tensor = torch.tensor(rows if key in batched else rows[0], dtype=torch.float64)
            try:
                Q2 = m2.q()
            except Exception as e:
                return False, f'raises {type(e).__name__} (accepted)'
            if tuple(Q2.shape) != (B, 4, 4):
                return True, f'q() has shape {tuple(Q2.shape)}'
            for b in range(B):
                m3, dic3 = cm.build(model_json(kind, 4, None))
                for key in pnames:
                    tns = dic2[key].tensor
                    dic3[key].tensor = tns[b] if key in batched else tns
                if not torch.allclose(Q2[b], m3.q().reshape(4, 4), rtol=1e-9, atol=1e-12):
                    return True, f'sample {b}: batched q() differs from the rate matrix of that sample alone'
            return False, 'agree'

        cm.discharge(tr, d, [d.lt(0, i) for i in V.values()], goals, label, replay=replay, varnodes=V, defined=False,
                     timeout=40, parallel=True)


class _FloatDag:
    """the three DAG builders `exchangeability` uses, on plain floats (concrete oracle of the replays)"""

    @staticmethod
    def mul(a, b):
        return a * b


def doc_matrix_float(kind, mapping, S, code, vals, pi):
    """documented rate matrix (r_ij * pi_j off the diagonal, minus the row sum on it) from plain floats"""
    extra = codon_tables(code) if kind == 'MG94' else None
    r = exchangeability(kind, mapping, S, vals, _FloatDag, extra)
    Q = torch.zeros((S, S), dtype=torch.float64)
    for i in range(S):
        for j in range(S):
            if i != j:
                Q[i, j] = float(r(i, j)) * float(pi[j])
        Q[i, i] = -Q[i].sum()
    return Q


FACT_SIG = {'rows': 'rows-sum-to-zero', 'off-diagonal': 'negative-rate', 'detailed': 'detailed-balance',
            'frequencies': 'stationarity'}
BQX_PARAMS = {'MG94': ('alpha', 'beta', 'kappa', 'freqs'), 'GeneralSymmetric': ('rates', 'freqs'),
              'GeneralNonSymmetric': ('rates', 'freqs'), 'HKY': ('kappa', 'freqs'), 'GTR': ('rates', 'freqs')}


def _bqx_base(key, n, b):
    if key == 'freqs':
        raw = [1.0 + 0.37 * ((i * 7 + 3 * b) % 5) + 0.05 * b for i in range(n)]
        s = sum(raw)
        return [x / s for x in raw]
    off = {'kappa': 2.3, 'rates': 0.8, 'alpha': 0.7, 'beta': 1.9}[key]
    return [(off + 0.31 * i) * (1 + 0.13 * b) for i in range(n)]


def _bqx_concrete(kind, S, mapping, code, batched, B, vals):
    """plain-tensor model holding the batch described by vals (names `<key>@<b>[<i>]`); frequencies renormalised"""
    m, dic = cm.build(model_json(kind, S, mapping, code or 'Universal'))
    per = {}
    for key in BQX_PARAMS[kind]:
        n = dic[key].tensor.shape[-1]
        rows = []
        for b in range(B if key in batched else 1):
            base = _bqx_base(key, n, b)
            row = [float(vals.get(f'{key}@{b}[{i}]', base[i])) for i in range(n)]
            if key == 'freqs':
                s = sum(row)
                row = [x / s for x in row]
            rows.append(row)
        per[key] = rows
        dic[key].tensor = torch.tensor(rows if key in batched else rows[0], dtype=torch.float64)
    return m, dic, per


def _bqx_symbolic(d, kind, S, mapping, code, batched, B):
    """model whose parameters are fresh symbols `<key>@<sample>[<i>]`: batched ones of shape [B, n] (set through the
    public Parameter setter), unbatched ones [n].  Returns model, dic, name -> node, key -> list of per-sample rows"""
    m, dic = cm.build(model_json(kind, S, mapping, code or 'Universal'))
    V = {}
    per = {}
    for key in BQX_PARAMS[kind]:
        n = dic[key].tensor.shape[-1]
        rows = []
        for b in range(B if key in batched else 1):
            st = new_vars(f'{key}@{b}', torch.tensor(_bqx_base(key, n, b), dtype=torch.float64))
            rows.append(st)
            for i in st._ids.tolist():
                V[d.args[i][0]] = i
        per[key] = rows
        dic[key].tensor = from_ids(torch.stack([r._ids for r in rows])) if key in batched else rows[0]
    return m, dic, V, per


def _bqx_sample_vars(kind, per, batched, b):
    """the documented names (`kappa[0]`, `freqs[3]`, ...) of sample b -> node ids"""
    Vb = {}
    for key in BQX_PARAMS[kind]:
        row = per[key][b if key in batched else 0]
        for i, x in enumerate(row._ids.tolist()):
            Vb[f'{key}[{i}]'] = x
    return Vb


def bqx_replay(kind, S, mapping, code, batched, B, vals):
    """real q() / norm() on plain batched tensors against the documented matrix of every sample (float oracle)"""
    if any(v <= 0 for v in vals.values()):
        return False, 'counterexample outside the domain'
    m, dic, per = _bqx_concrete(kind, S, mapping, code, batched, B, vals)
    try:
        Q = m.q().to(torch.float64)
        nrm = m.norm(Q).to(torch.float64)
    except Exception as e:
        return True, f'q()/norm() raised {type(e).__name__}: {e}'
    S_ = dic['freqs'].tensor.shape[-1]
    if tuple(Q.shape) != (B, S_, S_):
        return True, f'q() has shape {tuple(Q.shape)}, expected one matrix per sample {(B, S_, S_)}'
    if tuple(nrm.shape) != (B,):
        return True, f'norm(q()) has shape {tuple(nrm.shape)}, expected one scalar per sample'
    for b in range(B):
        vb = {}
        for key in BQX_PARAMS[kind]:
            row = per[key][b if key in batched else 0]
            for i, x in enumerate(row):
                vb[f'{key}[{i}]'] = x
        pi = [vb[f'freqs[{i}]'] for i in range(S_)]
        want = doc_matrix_float(kind, mapping, S_, code, vb, pi)
        rs = Q[b].sum(-1).abs().max().item()
        if rs > 1e-9 * max(1.0, Q[b].abs().max().item()):
            return True, f'sample {b}: rows of q()[{b}] do not sum to zero (max |row sum| = {rs:.3e})'
        if not torch.allclose(Q[b], want, rtol=1e-9, atol=1e-12):
            ij = (Q[b] - want).abs().argmax().item()
            i, j = divmod(ij, S_)
            return True, (f'sample {b}: q()[{b}][{i},{j}] = {Q[b][i, j].item()} but the documented matrix of that '
                          f'sample\'s parameters has {want[i, j].item()}')
        wn = -(torch.diagonal(want) * torch.tensor(pi, dtype=torch.float64)).sum().item()
        if abs(nrm[b].item() - wn) > 1e-9 * max(1.0, abs(wn)):
            return True, f'sample {b}: norm = {nrm[b].item()} but -sum_i pi_i Q_ii of that sample is {wn}'
    return False, 'agree'


def batched_qx_task(task, tr):
    """q() and norm() with sample-shaped parameters, for the models whose builders work on [..., S, S] tensors (the
    codon model and the two general models): for every sample and every subset of batched parameters the rate matrix
    is the documented matrix of THAT sample's parameters, its rows sum to zero, off-diagonals are non-negative,
    detailed balance / stationarity hold under that sample's frequencies, and Q[b]/norm[b] has one expected
    substitution per unit time.  Frequencies are symbolic on the simplex (non-uniform witness)."""
    from torchtree.evolution.substitution_model import abstract, codon, general, nucleotide

    _, kind, S, mapping, code, batched, B = task
    label = f'batched Q {kind} S={S} mapping={mapping} code={code} batched={sorted(batched)} samples={B}'
    cls = {'HKY': nucleotide.HKY, 'GTR': nucleotide.GTR, 'GeneralSymmetric': general.GeneralSymmetricSubstitutionModel,
           'GeneralNonSymmetric': general.GeneralNonSymmetricSubstitutionModel, 'MG94': codon.MG94}[kind]
    tr.fn(cls.q, abstract.AbstractSubstitutionModel.norm, abstract.SymmetricSubstitutionModel._sample_shape)
    tr.bounds['batched q()'] = ('one leading sample axis with 2 samples, and 3 samples on the 3-state general models (sample '
                                'count == state count); thorough tier: 3 samples for MG94, 3..6 for the others incl. 4 samples '
                                'on 4-state models; batched parameters have shape [samples, n], unbatched ones [n]; subsets '
                                'of batched parameters as listed in the task labels; MG94: all 61 sense codons of the '
                                'Universal code in the quick tier, every genetic code in the thorough tier; HKY/GTR with the '
                                'frequencies alone batched raise (noted by the older batched-q tasks, not examined here)')
    sig = f'{kind}.q:batched:'
    with tracing() as t:
        d = t.dag
        m, dic, V, per = _bqx_symbolic(d, kind, S, mapping, code, batched, B)
        S_ = dic['freqs'].tensor.shape[-1]
        wit = {n: d.vals[i] for n, i in V.items()}
        try:
            Q = m.q()
            nrm = m.norm(Q)
        except Exception as e:
            ok, detail = bqx_replay(kind, S, mapping, code, batched, B, wit)
            tr.regions += 1
            tr.obligation(f'raises:{label}', nontrivial=False)
            if ok:
                tr.violation(sig + 'raises', f'{label}: {detail}', {'label': label, 'values': wit})
            else:
                tr.inconc(f'{label}: symbolic execution raised {type(e).__name__}: {e} but the plain-tensor run does not')
            return
        tr.witness_runs += 1
        tr.ops_checked += t.nchecked
        tr.regions += 1
        if tuple(Q.shape) != (B, S_, S_) or tuple(nrm.shape) != (B,):
            ok, detail = bqx_replay(kind, S, mapping, code, batched, B, wit)
            tr.obligation(f'shape:{label}', nontrivial=False)
            if ok:
                tr.violation(sig + 'shape', f'{label}: {detail}', {'label': label, 'values': wit})
            else:
                tr.inconc(f'{label}: symbolic q()/norm() shapes {tuple(Q.shape)}/{tuple(nrm.shape)} not reproduced')
            return
        extra = codon_tables(code) if kind == 'MG94' else None
        if kind == 'MG94' and len(extra[0]) != S_:
            tr.inconc(f'{label}: genetic code table has {len(extra[0])} sense codons, model has {S_} states')
            return
        dom = [d.lt(0, i) for i in V.values()]
        goals = []
        norm_pos = []
        for b in range(B):
            Vb = _bqx_sample_vars(kind, per, batched, b)
            pi = [Vb[f'freqs[{i}]'] for i in range(S_)]
            if b == 0 or 'freqs' in batched:
                s = 0
                for i in pi:
                    s = d.add(s, i)
                dom.append(d.eq(s, 1))
            r = exchangeability(kind, mapping, S_, Vb, d, extra)
            Qb = Q._ids[b].tolist()
            docoff, docdiag = [], []
            for i in range(S_):
                rs = 0
                for j in range(S_):
                    if i != j:
                        e = d.mul(r(i, j), pi[j])
                        rs = d.add(rs, e)
                        docoff.append(d.eq(Qb[i][j], e))
                docdiag.append(d.eq(Qb[i][i], d.neg(rs)))
            goals.append((f'sample {b}: off-diagonal of q()[{b}] == r_ij * pi_j of sample {b}\'s parameters',
                          d.and_(*docoff), [], sig + 'documented-matrix'))
            goals.append((f'sample {b}: diagonal of q()[{b}] == minus the sum of the documented off-diagonal row of sample {b}',
                          d.and_(*docdiag), [], sig + 'documented-matrix'))
            for gl, node in q_facts(d, Qb, pi, S_, kind != 'GeneralNonSymmetric', label):
                goals.append((f'sample {b}: {gl}', node, [], sig + FACT_SIG[gl.split()[0]]))
            nb = int(nrm._ids[b])
            tot = 0
            for i in range(S_):
                tot = d.add(tot, d.mul(pi[i], d.div(Qb[i][i], nb)))
            goals.append((f'sample {b}: one expected substitution per unit time: -sum_i pi_i Q[{b}]_ii/norm[{b}] == 1',
                          d.eq(d.neg(tot), 1), [], sig + 'normalisation'))
            # norm[b] > 0 by lemma chaining (the direct goal is a sign condition on a polynomial with S*(S-1) monomials and
            # is the one goal that gets close to the time limit on a loaded machine): (1) every diagonal entry is negative,
            # (2) with the diagonal entries generalised to fresh negative numbers, -sum_i pi_i q_i > 0
            dneg = [d.lt(Qb[i][i], 0) for i in range(S_)]
            goals.append((f'sample {b}: every diagonal entry of q()[{b}] is negative', d.and_(*dneg), [],
                          sig + 'diagonal-sign'))
            ab_ = cm.abstracted(d, [Qb[i][i] for i in range(S_)], dneg + [d.lt(0, nb)])
            goals.append((f'sample {b}: norm[{b}] > 0 (diagonal entries generalised to arbitrary negative numbers)', ab_[-1],
                          ab_[:-1], sig + 'normalisation'))
            norm_pos.append(d.lt(0, nb))
        # well-definedness: every denominator (the norms) is non-zero, given the chained conclusions norm[b] > 0
        obl = [d.not_(d.eq(x, 0)) for x in t.denominators]
        obl += [d.lt(0, x) if k_ == 'pos' else d.le(0, x) for k_, x in t.domains]
        if obl:
            allok = d.and_(*obl)
            ab_ = cm.abstracted(d, [int(x) for x in nrm._ids.tolist()], norm_pos + [allok])
            goals.append(('every denominator is non-zero and every log/sqrt argument is in its domain (given norm[b] > 0; '
                          'the norms generalised to arbitrary positive numbers)',
                          ab_[-1], ab_[:-1] + ground_axioms(d, [ab_[-1]]), sig + 'well-defined'))
        tr.sample({'case': label, 'Q[1][0][1]': d.to_str(int(Q._ids[1, 0, 1]), 4), 'norm[1]': d.to_str(int(nrm._ids[1]), 2)})

        def replay(vals):
            return bqx_replay(kind, S, mapping, code, batched, B, vals)

        cm.discharge(tr, d, dom, goals, label, replay=replay, timeout=180.0, varnodes=V, sig_prefix=sig, threads=4,
                     parallel=True, defined=False)


def ptb_replay(kind, S, mapping, code, batched, B, NB, vals):
    """real p_t on plain batched tensors and [B, NB, 1] branch lengths against matrix_exp(Q_b/norm_b * t) where Q_b is
    the documented matrix of sample b (float oracle)"""
    pos = {k: v for k, v in vals.items() if not k.startswith('t[')}
    if any(v <= 0 for v in pos.values()):
        return False, 'counterexample outside the domain'
    m, dic, per = _bqx_concrete(kind, S, mapping, code, batched, B, pos)
    bl = torch.tensor([[[abs(vals.get(f't[{b},{k},0]', 0.37 + 0.21 * b + 0.5 * k)) or 0.37] for k in range(NB)]
                       for b in range(B)], dtype=torch.float64)
    try:
        P = m.p_t(bl).to(torch.float64)
    except Exception as e:
        return True, f'p_t raised {type(e).__name__}: {e}'
    S_ = dic['freqs'].tensor.shape[-1]
    if tuple(P.shape) != (B, NB, 1, S_, S_):
        return True, f'p_t has shape {tuple(P.shape)}, expected {(B, NB, 1, S_, S_)}'
    for b in range(B):
        vb = {}
        for key in BQX_PARAMS[kind]:
            for i, x in enumerate(per[key][b if key in batched else 0]):
                vb[f'{key}[{i}]'] = x
        pi = torch.tensor([vb[f'freqs[{i}]'] for i in range(S_)], dtype=torch.float64)
        Qd = doc_matrix_float(kind, mapping, S_, code, vb, pi.tolist())
        nrm = -(torch.diagonal(Qd) * pi).sum()
        for k in range(NB):
            want = torch.matrix_exp(Qd / nrm * bl[b, k, 0])
            if not torch.allclose(P[b, k, 0], want, rtol=1e-7, atol=1e-9):
                return True, (f'sample {b} branch {k}: p_t({bl[b, k, 0].item()}) differs from matrix_exp(Q/norm*t) of that '
                              f'sample by {float((P[b, k, 0] - want).abs().max())}')
    return False, 'agree with matrix_exp'


def batched_pt_task(task, tr):
    """eigen path with sample-shaped parameters and [samples, branches, categories] branch lengths: for every sample
    b and branch k, P[b,k,0] = A_b exp(diag(e_b) t[b,k,0]) B_b with (e_b, V_b) the eigh contract of the matrix of
    sample b, A_b B_b = I and A_b diag(e_b) B_b = Q_b/norm_b where Q_b, norm_b, pi_b belong to sample b"""
    from torchtree.evolution.substitution_model import abstract

    _, kind, S, mapping, code, batched, B, entries = task
    NB = 2
    label = f'batched eigen path {kind} S={S} mapping={mapping} batched={sorted(batched)} samples={B}'
    tr.fn(abstract.SymmetricSubstitutionModel.p_t, abstract.SymmetricSubstitutionModel.eigen)
    tr.stubs |= {'torch.linalg.eigh: contract S = V diag(e) V^T, V^T V = V V^T = I (and symmetry of S as an obligation)',
                 'inverse(V) of the orthonormal eigenvector matrix = V^T'}
    tr.bounds['batched p_t'] = ('one leading sample axis (2 samples; up to 4 in the thorough tier), branch lengths of shape '
                                '[samples, 2, 1]; HKY and a 3-state general symmetric model (quick), GTR and general symmetric models with '
                                'S <= 4 (thorough), every entry. NOT '
                                'decided: the batched eigen path of the 61-state codon model (the 61-term identities AB = I, '
                                'A diag(e) B = Q/norm time out in every solver of the portfolio even on four entries); for '
                                'MG94 the batched claim is q()/norm() per sample plus the model-independent p_t code on '
                                'the small models')
    sig = f'{kind}.p_t:batched:'
    with tracing() as t:
        d = t.dag
        m, dic, V, per = _bqx_symbolic(d, kind, S, mapping, code, batched, B)
        S_ = dic['freqs'].tensor.shape[-1]
        tt = new_vars('t', torch.tensor([[[0.37 + 0.21 * b + 0.5 * k] for k in range(NB)] for b in range(B)],
                                        dtype=torch.float64))
        for i in tt._ids.reshape(-1).tolist():
            V[d.args[i][0]] = i
        wit = {n: d.vals[i] for n, i in V.items()}

        def replay(vals):
            return ptb_replay(kind, S, mapping, code, batched, B, NB, vals)

        try:
            P = m.p_t(tt)
            Q = m.q()
            nrm = m.norm(Q)
        except Exception as e:
            ok, detail = replay(wit)
            tr.regions += 1
            tr.obligation(f'raises:{label}', nontrivial=False)
            if ok:
                tr.violation(sig + 'raises', f'{label}: {detail}', {'label': label, 'values': wit})
            else:
                tr.inconc(f'{label}: symbolic execution raised {type(e).__name__}: {e} but the plain-tensor run does not')
            return
        tr.witness_runs += 1
        tr.ops_checked += t.nchecked
        tr.regions += 1
        con = [c for c in t.contracts if c['kind'] == 'eigh']
        if tuple(P.shape) != (B, NB, 1, S_, S_) or tuple(Q.shape) != (B, S_, S_) or tuple(nrm.shape) != (B,):
            ok, detail = replay(wit)
            tr.obligation(f'shape:{label}', nontrivial=False)
            if ok:
                tr.violation(sig + 'shape', f'{label}: {detail}', {'label': label, 'values': wit})
            else:
                tr.inconc(f'{label}: symbolic shapes p_t {tuple(P.shape)} q {tuple(Q.shape)} not reproduced on plain tensors')
            return
        if len(con) != B:
            tr.inconc(f'{label}: expected one eigh contract per sample ({B}), saw {len(con)}')
            return
        dom = [d.lt(0, i) for n, i in V.items() if not n.startswith('t[')]
        goals = []
        for b in range(B):
            Vb = _bqx_sample_vars(kind, per, batched, b)
            pi = [Vb[f'freqs[{i}]'] for i in range(S_)]
            if b == 0 or 'freqs' in batched:
                s = 0
                for i in pi:
                    s = d.add(s, i)
                dom.append(d.eq(s, 1))
            branches = [(f'branch {k}: ', P._ids[b, k, 0].tolist(), int(tt._ids[b, k, 0])) for k in range(NB)]
            goals += _eigen_goals(d, con[b], branches, pi, Q._ids[b].tolist(), int(nrm._ids[b]), kind, S_,
                                  pre=f'sample {b}: ', sigpre=sig, entries=entries)
        tr.sample({'case': label, 'P[1][1][0][0][1]': d.to_str(int(P._ids[1, 1, 0, 0, 1]), 5)})
        tr.assumptions.add('classical lemma (trusted): AB = I and A diag(e) B = Q  imply  A exp(diag(e) t) B = exp(Qt)')
        cm.discharge(tr, d, dom, goals, label, replay=replay, timeout=120.0, varnodes=V, sig_prefix=sig, threads=4,
                     parallel=True)


def stale_task(task, tr):
    """p_t after a parameter update equals p_t of a freshly built model holding the same symbols (no stale
    eigendecomposition / rate matrix), for every model incl. the 61-state codon model (a few entries)"""
    _, kind, S, mapping, code = task
    label = f'p_t after update {kind}'
    with tracing() as t:
        d = t.dag

        def build_with(tag, seed):
            m, dic = cm.build(model_json(kind, S, mapping, code or 'Universal'))
            V_ = {}
            symbolize_all(dic, d, V_, seed=seed)
            return m, dic, V_

        m, dic, V0 = build_with('a', 0)
        tt = new_vars('t', torch.tensor([[0.37]], dtype=torch.float64))
        try:
            P0 = m.p_t(tt)
            # update every parameter with fresh symbols
            from torchtree.core.parameter import Parameter

            new = {}
            for key, p_ in dic.items():
                if isinstance(p_, Parameter) and p_.tensor.is_floating_point():
                    base = p_.tensor._v if isinstance(p_.tensor, SymTensor) else p_.tensor
                    st = new_vars(f'{key}_new', (base * 1.17 + 0.01).clone())
                    new[key] = st
                    p_.tensor = st
            P1 = m.p_t(tt)
            m2, dic2 = cm.build(model_json(kind, S, mapping, code or 'Universal'))
            for key, st in new.items():
                dic2[key].tensor = from_ids(st._ids.clone())
            P2 = m2.p_t(tt)
        except Exception as e:
            tr.violation(f'{kind}.p_t:update-raises', f'{label}: raised {type(e).__name__}: {e}', {'label': label})
            return
        tr.witness_runs += 1
        tr.regions += 1
        S_ = P1.shape[-1]
        pick = [(i, j) for i in range(min(S_, 3)) for j in range(min(S_, 3))]
        a = [int(P1._ids[0, 0, i, j]) for i, j in pick]
        b = [int(P2._ids[0, 0, i, j]) for i, j in pick]
        z = [int(P0._ids[0, 0, i, j]) for i, j in pick]
        goals = [('p_t after updating every parameter == p_t of a freshly built model with the same parameters',
                  d.and_(*[d.eq(x, y) for x, y in zip(a, b)]), [], f'{kind}.p_t:stale-after-update')]
        V = {d.args[i][0]: i for i in d.topo(a + b) if d.ops[i] == 'var'}

        def replay(vals):
            m3, dic3 = cm.build(model_json(kind, S, mapping, code or 'Universal'))
            from torchtree.core.parameter import Parameter as P_

            tv = torch.tensor([[0.37]], dtype=torch.float64)
            for key, p_ in dic3.items():
                if isinstance(p_, P_) and p_.tensor.is_floating_point():
                    p_.tensor = p_.tensor.to(torch.float64)
            m3.p_t(tv)
            for key, p_ in dic3.items():
                if isinstance(p_, P_) and p_.tensor.is_floating_point():
                    x = p_.tensor * 1.17 + 0.01
                    p_.tensor = x / x.sum() if key in ('freqs',) else x
            got = m3.p_t(tv)
            m4, dic4 = cm.build(model_json(kind, S, mapping, code or 'Universal'))
            for key, p_ in dic4.items():
                if isinstance(p_, P_) and p_.tensor.is_floating_point():
                    p_.tensor = dic3[key].tensor.clone()
            want = m4.p_t(tv)
            if not torch.allclose(got, want, rtol=1e-8, atol=1e-10):
                return True, f'p_t after the update differs from a fresh model by {float((got - want).abs().max())}'
            return False, 'agree'

        cm.discharge(tr, d, [], goals, label, replay=replay, varnodes=V, defined=False, timeout=40, parallel=True)
        # vacuity: the update changes p_t
        if all(x == y for x, y in zip(a, z)):
            tr.inconc(f'{label}: vacuity guard: the update did not change p_t')


def run_task(task, tr):
    if task[0] == 'bq':
        return batched_q_task(task, tr)
    if task[0] == 'bqx':
        return batched_qx_task(task, tr)
    if task[0] == 'ptb':
        return batched_pt_task(task, tr)
    if task[0] == 'stale':
        return stale_task(task, tr)
    {'q': q_task, 'eigen': eigen_task, 'closed': closed_task, 'expm': expm_task}[task[0]](task, tr)


def tasks_for(tier):
    ts = [('q', 'HKY', 4, None, None), ('q', 'GTR', 4, None, None),
          ('q', 'GeneralSymmetric', 4, [0, 1, 0, 0, 1, 0], None),
          ('q', 'GeneralSymmetric', 3, [0, 1, 2], None),
          ('q', 'GeneralSymmetric', 4, [2, 0, 1, 1, 0, 3], None),
          ('q', 'GeneralNonSymmetric', 3, [0, 1, 2, 3, 4, 5], None),
          ('q', 'GeneralNonSymmetric', 3, [1, 0, 0, 2, 1, 1], None),
          ('q', 'MG94', 61, None, 'Universal'),
          ('eigen', 'HKY', 4, None), ('eigen', 'GTR', 4, None),
          ('eigen', 'GeneralSymmetric', 3, [0, 1, 2]), ('eigen', 'Empirical', 3, None),
          ('closed', 'JC69', 4), ('closed', 'GeneralJC69', 2), ('closed', 'GeneralJC69', 3), ('closed', 'GeneralJC69', 5),
          ('expm', 'GeneralNonSymmetric', 3, [0, 1, 2, 3, 4, 5])]
    for kind, names in (('HKY', ('kappa', 'freqs')), ('GTR', ('rates', 'freqs'))):
        for sub in ((names[0],), (names[1],), names):
            ts.append(('bq', kind, frozenset(sub)))
    ts += [('stale', 'HKY', 4, None, None), ('stale', 'GTR', 4, None, None),
           ('stale', 'GeneralSymmetric', 3, [0, 1, 2], None), ('stale', 'MG94', 61, None, 'Universal')]
    # batched q()/norm() of the models that build [..., S, S] tensors; F = frozenset of batched parameters
    F = frozenset
    abk = ('alpha', 'beta', 'kappa')
    for sub in (abk, abk + ('freqs',), ('freqs',), ('beta',)):
        ts.append(('bqx', 'MG94', 61, None, 'Universal', F(sub), 2))
    for sub in (('rates',), ('freqs',), ('rates', 'freqs')):
        ts.append(('bqx', 'GeneralSymmetric', 3, [0, 1, 2], None, F(sub), 2))
        ts.append(('bqx', 'GeneralNonSymmetric', 3, [0, 1, 2, 3, 4, 5], None, F(sub), 2))
    # sample count == state count (axis collisions)
    ts += [('bqx', 'GeneralSymmetric', 3, [0, 1, 2], None, F(['rates']), 3),
           ('bqx', 'GeneralSymmetric', 3, [0, 1, 0], None, F(['rates', 'freqs']), 3),
           ('bqx', 'GeneralSymmetric', 4, [2, 0, 1, 1, 0, 3], None, F(['rates']), 2),
           ('bqx', 'GeneralNonSymmetric', 3, [1, 0, 0, 2, 1, 1], None, F(['rates', 'freqs']), 3)]
    # HKY / GTR with frequencies alone batched raise (recorded by the 'bq' tasks above); the other subsets also get the
    # per-sample facts and the per-sample normalisation
    ts += [('bqx', 'HKY', 4, None, None, F(['kappa']), 2), ('bqx', 'HKY', 4, None, None, F(['kappa', 'freqs']), 2),
           ('bqx', 'GTR', 4, None, None, F(['rates']), 2), ('bqx', 'GTR', 4, None, None, F(['rates', 'freqs']), 2)]
    # batched eigen path
    ts += [('ptb', 'HKY', 4, None, None, F(['kappa']), 2, None), ('ptb', 'HKY', 4, None, None, F(['kappa', 'freqs']), 2, None),
           ('ptb', 'GeneralSymmetric', 3, [0, 1, 2], None, F(['freqs']), 2, None)]
    if tier == 'thorough':
        from torchtree.evolution.datatype import CodonDataType

        for code in CodonDataType.GENETIC_CODE_NAMES[1:]:
            ts.append(('q', 'MG94', 61, None, code))
            ts.append(('bqx', 'MG94', 61, None, code, F(abk), 2))
            ts.append(('bqx', 'MG94', 61, None, code, F(abk + ('freqs',)), 2))
        for sub in (abk, abk + ('freqs',), ('alpha',), ('kappa',), ('alpha', 'freqs'), ('beta', 'kappa')):
            ts.append(('bqx', 'MG94', 61, None, 'Universal', F(sub), 3))
        for sub in (('rates',), ('freqs',), ('rates', 'freqs')):
            ts += [('bqx', 'GeneralSymmetric', 4, [2, 0, 1, 1, 0, 3], None, F(sub), 4),
                   ('bqx', 'GeneralSymmetric', 5, list(range(10)), None, F(sub), 3),
                   ('bqx', 'GeneralNonSymmetric', 4, list(range(12)), None, F(sub), 4),
                   ('bqx', 'GeneralNonSymmetric', 3, [1, 0, 0, 2, 1, 1], None, F(sub), 3)]
        ts += [('bqx', 'HKY', 4, None, None, F(['kappa']), 4), ('bqx', 'HKY', 4, None, None, F(['kappa', 'freqs']), 4),
               ('bqx', 'GTR', 4, None, None, F(['rates']), 4), ('bqx', 'GTR', 4, None, None, F(['rates', 'freqs']), 4),
               ('bqx', 'GTR', 4, None, None, F(['rates']), 6)]
        ts += [('ptb', 'GTR', 4, None, None, F(['rates']), 3, None), ('ptb', 'GTR', 4, None, None, F(['rates', 'freqs']), 2, None),
               ('ptb', 'GeneralSymmetric', 3, [0, 1, 2], None, F(['rates']), 3, None),
               ('ptb', 'GeneralSymmetric', 3, [0, 1, 2], None, F(['rates', 'freqs']), 3, None),
               ('ptb', 'GeneralSymmetric', 4, [2, 0, 1, 1, 0, 3], None, F(['rates']), 2, None),
               ('ptb', 'HKY', 4, None, None, F(['kappa']), 4, None)]
        ts += [('q', 'GeneralSymmetric', 5, list(range(10)), None), ('q', 'GeneralNonSymmetric', 4, list(range(12)), None),
               ('eigen', 'GeneralSymmetric', 4, [0, 1, 0, 0, 1, 0]), ('eigen', 'Empirical', 4, None),
               ('closed', 'GeneralJC69', 4), ('expm', 'GeneralNonSymmetric', 4, list(range(12)))]
    return ts


def body(chk):
    chk.explanation = ('symbolic execution of the real rate-matrix builders and p_t code; polynomial/rational identities '
                       'over symbolic kappa, rates, frequencies (on the simplex), alpha, beta decided by the solver; the '
                       'eigendecomposition enters through its documented contract with entry-wise lemma selection')
    chk.total.bounds['sample shapes'] = ('unbatched everywhere; one leading sample axis for q()/norm() of HKY, GTR, general '
                                         'symmetric / non-symmetric and MG94 (all 61 codons, non-uniform symbolic frequencies, '
                                         'every listed subset of batched parameters) and for the eigen path of the 4-/3-state '
                                         'models; two or more sample axes are not examined')
    chk.total.bounds['models'] = ('HKY, GTR, GeneralSymmetric (S<=4, several mappings), GeneralNonSymmetric (S=3), MG94 '
                                  '(Universal code quick, all 15 codes thorough), Empirical (symbolic, S=3), JC69, GeneralJC69 k<=5')
    chk.total.assumptions |= {'LG/WAG: concrete tables run through the same EmpiricalSubstitutionModel code that is checked '
                              'symbolically at S=3 (their numeric residuals are not a solver result)',
                              'numerical accuracy of LAPACK eigh / matrix_exp is outside the claim'}
    pmap(run_task, tasks_for(chk.tier), chk.total)


if __name__ == '__main__':
    if '--replay' in sys.argv:
        import json

        r = json.load(open(sys.argv[sys.argv.index('--replay') + 1]))
        print('replay:', r['what'])
        sys.exit(1)
    sys.exit(main_for(PID, body))
