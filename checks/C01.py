"""C01 Tree log-likelihood equals exact marginalisation over ancestral states.

K1  the real pruning kernels run on fully symbolic inputs (transition matrices,
    frequencies, category proportions, weights, tip partial vectors); oracle =
    independently built sum over all internal-state x category assignments.
K2  TreeLikelihoodModel._call built from JSON with the substitution model's
    p_t replaced by an uninterpreted matrix function P(t): which branch length x
    clock rate x site rate reaches which branch, P vs P^T, category weights,
    taxon alignment.  Oracle = brute-force marginalisation whose branch
    arguments are derived independently from the nested-tuple topology.
"""
from __future__ import annotations

import os
import itertools
import math
import sys

import torch

import common as cm
from symtorch import cur, from_ids, new_vars, tracing
from symtorch.axioms import _addends
from vlib.core import main_for, pmap

PID = 'C01'


# ------------------------------------------------------------------ oracle
def index_tree(topology, n):
    """Independent node numbering: leaf = taxon position, internal nodes numbered
    n, n+1, ... in post-order (left to right).  Returns (root_index, children dict)."""
    children = {}
    counter = itertools.count(n)

    def rec(t):
        if not isinstance(t, tuple):
            return t
        cs = [rec(c) for c in t]
        i = next(counter)
        children[i] = cs
        return i

    root = rec(topology)
    return root, children


def brute_force_site(d, topology, n, S, K, P, freq, prop, tip):
    """sum_k prop[k] sum_{states of internal nodes} freq[x_root] prod_edges P(child,k,x_parent,x_child)
    with tip children contributing sum_j P(child,k,x_parent,j) * tip[child][j].
    P(c,k,i,j), freq(i), prop(k), tip(c,j) return node ids."""
    root, children = index_tree(topology, n)
    internal = sorted(children)
    total = 0
    for k in range(K):
        acc_k = 0
        for states in itertools.product(range(S), repeat=len(internal)):
            st = dict(zip(internal, states))
            term = freq(st[root])
            for p in internal:
                for c in children[p]:
                    if c in children:
                        term = d.mul(term, P(c, k, st[p], st[c]))
                    else:
                        s = 0
                        for j in range(S):
                            s = d.add(s, d.mul(P(c, k, st[p], j), tip(c, j)))
                        term = d.mul(term, s)
                if term == 0:
                    break
            acc_k = d.add(acc_k, term)
        total = d.add(total, d.mul(prop(k), acc_k))
    return total


def split_sites(d, impl_node, nsites):
    """impl = sum_s w_s * log(arg_s): return list of (coef node-or-const, arg node)."""
    out = []
    stack = [impl_node]
    terms = []
    while stack:
        x = stack.pop()
        if d.ops[x] == 'add':
            stack.extend(d.args[x])
        else:
            terms.append(x)
    for t in terms:
        if d.ops[t] == 'uf' and d.args[t][0] == 'log':
            out.append((1, d.args[t][1]))
        elif d.ops[t] == 'mul':
            a, b = d.args[t]
            if d.ops[b] == 'uf' and d.args[b][0] == 'log':
                out.append((a, d.args[b][1]))
            elif d.ops[a] == 'uf' and d.args[a][0] == 'log':
                out.append((b, d.args[a][1]))
            else:
                return None
        else:
            return None
    return out


# ------------------------------------------------------------------ K1
def k1_task(task, tr):
    from torchtree.evolution import tree_likelihood as tl

    topology, n, S, K, N, kernel = task
    label = f'K1 {kernel} topology={cm.to_newick(topology)} S={S} K={K} N={N}'
    fn = getattr(tl, kernel)
    tr.fn(fn)
    tr.bounds['K1'] = 'all labelled rooted binary topologies n<=4 (quick) / n<=5 (thorough); S in {2,4}; K<=2; N<=2 site patterns'
    tip_states = 'tip_states' in kernel
    torch.manual_seed(7)
    with tracing() as t:
        d = t.dag
        tree, dic = cm.build(cm.unrooted_tree_json(topology, n), {'taxa': cm.build(cm.taxa_json(n))[0]})
        post = tree.postorder
        B = 2 * n - 2
        mats = new_vars('P', torch.rand(B, K, S, S) + 0.1)
        freqs = new_vars('pi', torch.rand(1, S) + 0.1)
        props = new_vars('prop', torch.rand(K, 1, 1) + 0.1)
        weights = new_vars('w', torch.rand(N) + 0.5)
        if tip_states:
            # tip states: concrete integer states per site (S = unknown/gap)
            st = [[(3 * i + 2 * s + 1) % (S + 1) for s in range(N)] for i in range(n)]
            st[0][0] = S  # an unknown state
            partials = [torch.tensor(row) for row in st] + [None] * (n - 1)
        else:
            tips = [new_vars(f'tip{i}', torch.rand(S, N) + 0.1) for i in range(n)]
            partials = list(tips) + [None] * (n - 1)
        impl = fn(partials, weights, post, mats, freqs, props)
        tr.witness_runs += 1
        tr.ops_checked += t.nchecked
        impl_id = int(impl._ids.reshape(-1)[0])
        sites = split_sites(d, impl_id, N)
        if sites is None or len(sites) != N:
            tr.inconc(f'{label}: implementation value is not of the form sum_s w_s*log(L_s)')
            return
        mi = mats._ids
        goals = []
        V = {d.args[i][0]: i for i in d.topo([impl_id]) if d.ops[i] == 'var'}
        oracle_total = 0
        used = set()
        for s in range(N):
            def P(c, k, i, j):
                return int(mi[c, k, i, j])

            def tip(c, j):
                if tip_states:
                    x = st[c][s]
                    return 1 if (x == S or x == j) else 0
                return int(tips[c]._ids[j, s])

            orc = brute_force_site(d, topology, n, S, K, P, lambda i: int(freqs._ids[0, i]),
                                   lambda k: int(props._ids[k, 0, 0]), tip)
            # which implementation site term carries weight w_s ?
            ws = int(weights._ids[s])
            match = [a for (c, a) in sites if c == ws]
            if len(match) != 1:
                tr.inconc(f'{label}: weight w[{s}] multiplies {len(match)} log terms')
                return
            goals.append((f'site {s}: pruned site likelihood == sum over ancestral states', d.eq(match[0], orc)))
            oracle_total = d.add(oracle_total, d.mul(ws, d.log(orc)))
        base_hyps = []
        if tip_states:
            # the tip-state kernels represent an unknown state by a column of ones, i.e. they assume
            # row-stochastic transition matrices on tip branches (sum_j P_ij = 1): stated as hypothesis
            for c in range(n):
                for k in range(K):
                    for i in range(S):
                        rs = 0
                        for j in range(S):
                            rs = d.add(rs, int(mi[c, k, i, j]))
                        base_hyps.append(d.eq(rs, 1))
            tr.assumptions.add('tip-state kernels: transition matrices on tip branches are row-stochastic '
                               '(the kernel encodes an unknown state as a column of ones)')
        goals = [(g[0], g[1], base_hyps) for g in goals]
        # assembly: impl == sum_s w_s log(oracle_s) given the per-site identities
        hyps = [g[1] for g in goals]
        goals.append(('assembly: log-likelihood == sum_s w_s log L_s', d.eq(impl_id, oracle_total), hyps))
        tr.sample({'case': label, 'impl_nodes': d.size([impl_id]), 'oracle_nodes': d.size([oracle_total]),
                   'postorder': [list(p) for p in post]})

        def replay(vals):
            return k1_replay(kernel, topology, n, S, K, N, vals, st if tip_states else None)

        cm.discharge(tr, d, [], goals, label, replay=replay, timeout=60.0 * TSCALE, varnodes=V,
                     sig_prefix=f'{kernel}:', defined=False)
        tr.regions += 1


def k1_replay(kernel, topology, n, S, K, N, vals, st):
    from torchtree.evolution import tree_likelihood as tl

    def get(prefix, shape, default=0.3):
        t = torch.empty(shape, dtype=torch.float64)
        for name in cm.names_shaped(prefix, shape):
            idx = tuple(int(x) for x in name[len(prefix) + 1:-1].split(',')) if '[' in name else ()
            t[idx] = abs(vals.get(name, default)) + 1e-3 if False else vals.get(name, default)
        return t

    tree, dic = cm.build(cm.unrooted_tree_json(topology, n), {'taxa': cm.build(cm.taxa_json(n))[0]})
    B = 2 * n - 2
    mats = get('P', (B, K, S, S))
    if st is not None:
        mats[:n] = mats[:n] / mats[:n].sum(-1, keepdim=True)
    freqs = get('pi', (1, S))
    props = get('prop', (K, 1, 1))
    w = get('w', (N,))
    if st is not None:
        partials = [torch.tensor(r) for r in st] + [None] * (n - 1)
        tipv = None
    else:
        tipv = [get(f'tip{i}', (S, N)) for i in range(n)]
        partials = list(tipv) + [None] * (n - 1)
    try:
        real = float(getattr(tl, kernel)(partials, w, tree.postorder, mats, freqs, props))
    except Exception as e:
        return True, f'real kernel raised {type(e).__name__}: {e}'
    # numeric oracle
    root, children = index_tree(topology, n)
    internal = sorted(children)
    total = 0.0
    for s in range(N):
        L = 0.0
        for k in range(K):
            for states in itertools.product(range(S), repeat=len(internal)):
                stt = dict(zip(internal, states))
                term = float(freqs[0, stt[root]])
                for p in internal:
                    for c in children[p]:
                        if c in children:
                            term *= float(mats[c, k, stt[p], stt[c]])
                        else:
                            if st is not None:
                                x = st[c][s]
                                term *= sum(float(mats[c, k, stt[p], j]) for j in range(S) if x == S or x == j)
                            else:
                                term *= sum(float(mats[c, k, stt[p], j]) * float(tipv[c][j, s]) for j in range(S))
                L += float(props[k, 0, 0]) * term
        if L <= 0:
            return False, 'site likelihood not positive at the counterexample (outside the domain)'
        total += float(w[s]) * math.log(L)
    if math.isnan(real) or abs(real - total) > 1e-8 * max(1.0, abs(total)):
        return True, f'real={real!r} brute-force={total!r}'
    return False, f'real={real!r} brute-force={total!r} agree'


# ------------------------------------------------------------------ K2
def p_witness(S):
    """witness values for the uninterpreted P_ij(t): an arbitrary but row-stochastic, asymmetric matrix function"""
    def raw(i, j, t):
        x = math.sin(12.9898 * (t + 0.37) * (i * S + j + 1)) * 43758.5453
        return 0.05 + 0.9 * (x - math.floor(x))

    def mk(i, j):
        def f(t):
            return raw(i, j, t) / sum(raw(i, jj, t) for jj in range(S))

        return f

    return {f'P{i}{j}': mk(i, j) for i in range(S) for j in range(S)}


def stub_p_t(S):
    """Uninterpreted transition-matrix function: P(t)[i,j] = P_ij(t)."""

    def p_t(branch_lengths):
        d = cur().dag
        ids = branch_lengths._ids
        flat = ids.reshape(-1).tolist()
        out = []
        for b in flat:
            out.append([[d.uf(f'P{i}{j}', b) for j in range(S)] for i in range(S)])
        oi = torch.tensor(out, dtype=torch.int64).reshape(tuple(ids.shape) + (S, S))
        return from_ids(oi)

    return p_t


SEQS = {
    # pairwise distinct sequences, ambiguity codes, gap, repeated column (cols 0 and 3)
    3: {'t0': 'ACRA', 't1': 'CG-C', 't2': 'GTNG'},
    4: {'t0': 'ACRA', 't1': 'CGYC', 't2': 'GT-G', 't3': 'TANT'},
}


def k2_model_json(topology, n, tree_kind, site_kind, tip_states):
    dates = None
    objs = {}
    taxa = cm.taxa_json(n, dates)
    if tree_kind == 'unrooted':
        tree = cm.unrooted_tree_json(topology, n)
    else:
        tree = cm.time_tree_json(topology, n)
    tree['taxa'] = taxa
    site = {'id': 'site', 'type': 'ConstantSiteModel'}
    if site_kind == 'invariant':
        site = {'id': 'site', 'type': 'InvariantSiteModel',
                'invariant': {'id': 'pinv', 'type': 'Parameter', 'tensor': [0.2]}}
    elif site_kind == 'weibull':
        site = {'id': 'site', 'type': 'WeibullSiteModel', 'categories': 2,
                'shape': {'id': 'shape', 'type': 'Parameter', 'tensor': [0.7]}}
    elif site_kind == 'weibull+inv':
        site = {'id': 'site', 'type': 'WeibullSiteModel', 'categories': 2,
                'shape': {'id': 'shape', 'type': 'Parameter', 'tensor': [0.7]},
                'invariant': {'id': 'pinv', 'type': 'Parameter', 'tensor': [0.2]}}
    elif site_kind == 'constant+mu':
        site = {'id': 'site', 'type': 'ConstantSiteModel', 'mu': {'id': 'mu', 'type': 'Parameter', 'tensor': [1.3]}}
    like = {
        'id': 'like', 'type': 'TreeLikelihoodModel',
        'tree_model': tree,
        'site_model': site,
        'substitution_model': {'id': 'subst', 'type': 'HKY',
                               'kappa': {'id': 'kappa', 'type': 'Parameter', 'tensor': [3.0]},
                               'frequencies': {'id': 'freqs', 'type': 'Parameter', 'tensor': [0.1, 0.2, 0.3, 0.4]}},
        'site_pattern': {'id': 'sp', 'type': 'SitePattern',
                         'alignment': cm.alignment_json(SEQS[n], taxa='taxa')},
        'use_tip_states': tip_states,
        'use_ambiguities': True,
    }
    if tree_kind == 'strict':
        like['branch_model'] = {'id': 'clock', 'type': 'StrictClockModel', 'tree_model': 'tree',
                                'rate': {'id': 'rate', 'type': 'Parameter', 'tensor': [0.01]}}
    elif tree_kind == 'simple':
        like['branch_model'] = {'id': 'clock', 'type': 'SimpleClockModel', 'tree_model': 'tree',
                                'rate': {'id': 'rate', 'type': 'Parameter',
                                         'tensor': [0.01 + 0.003 * i for i in range(2 * n - 2)]}}
    return like


IUPAC = {'A': 'A', 'C': 'C', 'G': 'G', 'T': 'T', 'R': 'AG', 'Y': 'CT', 'N': 'ACGT', '-': 'ACGT', '?': 'ACGT',
         'M': 'AC', 'K': 'GT', 'S': 'CG', 'W': 'AT', 'B': 'CGT', 'D': 'AGT', 'H': 'ACT', 'V': 'ACG', 'U': 'T'}


def tip_sets(n, tip_states):
    """independent reading of the alignment: per taxon per column the set of compatible states"""
    out = {}
    for i in range(n):
        seq = SEQS[n][f't{i}']
        cols = []
        for ch in seq:
            s = IUPAC[ch]
            if tip_states and len(s) > 1:
                s = 'ACGT'  # tip-state representation treats ambiguous symbols as missing
            cols.append({'ACGT'.index(x) for x in s})
        out[i] = cols
    return out


def heights_and_branches(d, topology, n, tree_kind, params):
    """Independent derivation of the argument of P for the branch above each node."""
    root, children = index_tree(topology, n)
    parent = {c: p for p, cs in children.items() for c in cs}
    args = {}
    if tree_kind == 'unrooted':
        bl = params['blens']
        for v in parent:
            if v == 2 * n - 3:
                args[v] = 0  # the second root branch is collapsed (length zero)
            else:
                args[v] = bl[v]
    else:
        h = {i: 0 for i in range(n)}  # contemporaneous tips
        for i in range(n, 2 * n - 1):
            h[i] = params['heights'][i - n]
        for v, p in parent.items():
            rate = params['rate'][0] if tree_kind == 'strict' else params['rate'][v]
            args[v] = d.mul(rate, d.sub(h[p], h[v]))
    return args, children, root


def touch_intermediates(like):
    """What another consumer of the same objects (a tree prior, a logger, a second likelihood) reads between a parameter
    update and the likelihood evaluation: every public accessor of an intermediate value.  Accessors clear dirty flags,
    so a cache keyed on a flag that another accessor consumes goes stale exactly here."""
    tm_ = like.tree_model
    if hasattr(tm_, 'node_heights'):
        _ = tm_.node_heights
    _ = like.site_model.rates()
    _ = like.site_model.probabilities()
    if getattr(like, 'clock_model', None) is not None:
        _ = like.clock_model.rates
    _ = like.subst_model.frequencies


def k2_task(task, tr):
    from torchtree.evolution.tree_likelihood import TreeLikelihoodModel

    topology, n, tree_kind, site_kind, tip_states = task[:5]
    second_round = len(task) > 5 and task[5]
    label = (f'K2 topology={cm.to_newick(topology)} tree={tree_kind} site={site_kind} tip_states={tip_states}'
             + (' [after updating every parameter]' if second_round else '')
             + (' [intermediate values read by another consumer before the likelihood]' if second_round == 'reads' else ''))
    tr.fn(TreeLikelihoodModel._call, TreeLikelihoodModel.calculate_with_tip_partials,
          TreeLikelihoodModel.calculate_with_tip_states)
    tr.bounds['K2'] = ('n in {3,4}; {unrooted, time tree + strict clock, time tree + per-branch clock} x '
                       '{constant, constant+mu, invariant, Weibull(2), Weibull(2)+invariant} x {tip partials, tip states}; '
                       '4-column alignment with IUPAC codes, a gap and a repeated column; n = 4: Weibull models on the unrooted tree only, tip '
                       'states with one-category site models only (K >= 2 categories with tip states undecided within budget at n = 4)')
    tr.stubs.add('substitution_model.p_t replaced by an uninterpreted matrix function P_ij(t) (real p_t is C04)')
    S = 4
    with tracing() as t:
        d = t.dag
        d.uf_eval.update(p_witness(S))
        like, dic = cm.build(k2_model_json(topology, n, tree_kind, site_kind, tip_states))
        params = {}
        if tree_kind == 'unrooted':
            params['blens'] = cm.ids_list(cm.symbolize(dic['tree.blens'], 'b'))
        else:
            hv = [1.0 + 0.7 * i for i in range(n - 1)]
            params['heights'] = cm.ids_list(cm.symbolize(dic['tree.heights'], 'h', hv))
            params['rate'] = cm.ids_list(cm.symbolize(dic['rate'], 'rate'))
        if 'shape' in dic:
            cm.symbolize(dic['shape'], 'shape')
        if 'pinv' in dic:
            cm.symbolize(dic['pinv'], 'pinv')
        if 'mu' in dic:
            cm.symbolize(dic['mu'], 'mu')
        fr = cm.symbolize(dic['freqs'], 'pi')
        like.subst_model.p_t = stub_p_t(S)
        if second_round:
            # evaluate once, then update EVERY parameter with fresh symbols: the value reported afterwards must be the
            # marginal likelihood at the new values (stale heights / rates / branch lengths would keep old symbols)
            _ = like()
            if tree_kind == 'unrooted':
                params['blens'] = cm.ids_list(cm.symbolize(dic['tree.blens'], 'b2_', dic['tree.blens'].tensor._v * 1.3))
            else:
                params['heights'] = cm.ids_list(cm.symbolize(dic['tree.heights'], 'h2_', dic['tree.heights'].tensor._v * 1.3))
                params['rate'] = cm.ids_list(cm.symbolize(dic['rate'], 'rate2_', dic['rate'].tensor._v * 0.7))
            for key in ('shape', 'pinv', 'mu'):
                if key in dic:
                    cm.symbolize(dic[key], key + '2_', dic[key].tensor._v * 0.9)
            fr = cm.symbolize(dic['freqs'], 'pi2_', dic['freqs'].tensor._v)
            if second_round == 'reads':
                touch_intermediates(like)
        impl = like()
        tr.witness_runs += 1
        tr.ops_checked += t.nchecked
        if t.concretized:
            tr.inconc(f'{label}: concretised {t.concretized[:2]}')
            return
        impl_id = int(impl._ids.reshape(-1)[0])
        # oracle ---------------------------------------------------------
        rates = like.site_model.rates()
        probs = like.site_model.probabilities()
        rate_ids = cm.ids_list(rates) if hasattr(rates, '_ids') else [d.const(float(x)) for x in rates.reshape(-1)]
        prob_ids = cm.ids_list(probs) if hasattr(probs, '_ids') else [d.const(float(x)) for x in probs.reshape(-1)]
        K = len(rate_ids)
        args, children, root = heights_and_branches(d, topology, n, tree_kind, params)
        sets = tip_sets(n, tip_states)
        ncol = len(SEQS[n]['t0'])
        sites = split_sites(d, impl_id, None)
        if sites is None:
            tr.inconc(f'{label}: implementation value is not of the form sum_p w_p*log(L_p)')
            return
        total = 0
        goals = []
        for col in range(ncol):
            def P(c, k, i, j):
                return d.uf(f'P{i}{j}', d.mul(args[c], rate_ids[k]))

            def tip(c, j):
                return 1 if j in sets[c][col] else 0

            L = brute_force_site(d, topology, n, S, K, P, lambda i: int(fr._ids[i]), lambda k: prob_ids[k], tip)
            total = d.add(total, d.log(L))
            # the pattern of the implementation that stands for this column (matched on the witness)
            cands = [a for (c_, a) in sites if abs(d.vals[a] - d.vals[L]) <= 1e-9 * max(1.0, abs(d.vals[L]))]
            if cands:
                goals.append((f'column {col}: pattern likelihood == brute-force site likelihood', d.eq(cands[0], L)))
        # domain
        dom = []
        V = {d.args[i][0]: i for i in d.topo([impl_id, total]) if d.ops[i] == 'var'}
        for name, i in V.items():
            if name.startswith(('b[', 'b2_', 'rate', 'shape', 'mu', 'pi[', 'pi2_')):
                dom.append(d.lt(0, i))
            if name.startswith('pinv'):
                dom.append(d.le(0, i))
                dom.append(d.lt(i, 1))
        if tree_kind != 'unrooted':
            root_, ch_ = index_tree(topology, n)
            hh = {i: 0 for i in range(n)}
            hh.update({n + i: params['heights'][i] for i in range(n - 1)})
            for p_, cs_ in ch_.items():
                for c_ in cs_:
                    dom.append(d.lt(hh[c_], hh[p_]))
        # every transition matrix is row-stochastic (C04): ground instances for the P(.) arguments in use
        pargs = sorted({d.args[i][1] for i in d.topo([impl_id, total])
                        if d.ops[i] == 'uf' and d.args[i][0].startswith('P')})
        for a in pargs:
            for i in range(S):
                rs = 0
                for j in range(S):
                    rs = d.add(rs, d.uf(f'P{i}{j}', a))
                dom.append(d.eq(rs, 1))
        hyps = dom + list(t.pcs)
        goals.append(('log-likelihood == sum over columns of log brute-force site likelihood', d.eq(impl_id, total),
                      [g[1] for g in goals]))
        tr.sample({'case': label, 'impl_nodes': d.size([impl_id]), 'oracle_nodes': d.size([total]),
                   'path_conditions': [d.to_str(c, 4) for c in t.pcs[:4]]})

        def replay(vals):
            return k2_replay(topology, n, tree_kind, site_kind, tip_states, vals, second_round)

        cm.discharge(tr, d, hyps, goals, label, replay=replay, timeout=60.0 * TSCALE, varnodes=V,
                     sig_prefix='TreeLikelihoodModel._call:', defined=False)
        tr.regions += 1


def k2_replay(topology, n, tree_kind, site_kind, tip_states, vals, second_round=False):
    """Real HKY (asymmetric P) instead of the uninterpreted P; plain tensors; numeric brute force."""
    like, dic = cm.build(k2_model_json(topology, n, tree_kind, site_kind, tip_states))
    if second_round:
        for key in ('kappa', 'freqs', 'tree.blens', 'tree.heights', 'rate', 'shape', 'pinv', 'mu'):
            if key in dic:
                dic[key].tensor = dic[key].tensor.to(torch.float64)
        _ = like()
        vals = dict(vals)
        for key, prefix in [('tree.blens', 'b'), ('tree.heights', 'h'), ('rate', 'rate'), ('shape', 'shape'), ('pinv', 'pinv'), ('mu', 'mu')]:
            if key in dic:
                base = dic[key].tensor
                scale = {'tree.blens': 1.3, 'tree.heights': 1.3, 'rate': 0.7}.get(key, 0.9)
                for k_, name in enumerate(cm.names_shaped(prefix, tuple(base.shape))):
                    new_name = name.replace(prefix + '[', prefix + '2_[')
                    vals[name] = vals.get(new_name, float(base.reshape(-1)[k_]) * scale)

    def setp(key, prefix):
        if key in dic:
            p = dic[key]
            cur_t = p.tensor.clone().to(torch.float64)
            for k, name in enumerate(cm.names_shaped(prefix, tuple(cur_t.shape))):
                if name in vals:
                    cur_t.reshape(-1)[k] = vals[name]
            p.tensor = cur_t

    for key, prefix in [('tree.blens', 'b'), ('tree.heights', 'h'), ('rate', 'rate'), ('shape', 'shape'),
                        ('pinv', 'pinv'), ('mu', 'mu')]:
        setp(key, prefix)
    if second_round == 'reads':
        touch_intermediates(like)
    for key in ('kappa', 'freqs'):
        dic[key].tensor = dic[key].tensor.to(torch.float64)
    try:
        real = float(like())
    except Exception as e:
        return True, f'real model raised {type(e).__name__}: {e}'
    subst = like.subst_model
    rates = like.site_model.rates().reshape(-1).tolist()
    probs = like.site_model.probabilities().reshape(-1).tolist()
    root, children = index_tree(topology, n)
    parent = {c: p for p, cs in children.items() for c in cs}
    if tree_kind == 'unrooted':
        bl = dic['tree.blens'].tensor.tolist()
        arg = {v: (0.0 if v == 2 * n - 3 else bl[v]) for v in parent}
    else:
        hh = dic['tree.heights'].tensor.tolist()
        h = {i: 0.0 for i in range(n)}
        h.update({n + i: hh[i] for i in range(n - 1)})
        rt = dic['rate'].tensor.tolist()
        arg = {v: (rt[0] if tree_kind == 'strict' else rt[v]) * (h[p] - h[v]) for v, p in parent.items()}
    if any(a < 0 for a in arg.values()):
        return False, 'negative branch length at the counterexample (outside the domain)'
    sets = tip_sets(n, tip_states)
    pi = dic['freqs'].tensor.tolist()
    internal = sorted(children)
    total = 0.0
    for col in range(len(SEQS[n]['t0'])):
        L = 0.0
        for k, (r, pk) in enumerate(zip(rates, probs)):
            Pm = {v: subst.p_t(torch.tensor([arg[v] * r], dtype=torch.float64))[0] for v in parent}
            for states in itertools.product(range(4), repeat=len(internal)):
                st = dict(zip(internal, states))
                term = pi[st[root]]
                for p in internal:
                    for c in children[p]:
                        if c in children:
                            term *= float(Pm[c][st[p], st[c]])
                        else:
                            term *= sum(float(Pm[c][st[p], j]) for j in sets[c][col])
                L += pk * term
        total += math.log(L)
    if math.isnan(total) or math.isinf(total):
        return False, 'oracle not finite at the counterexample (outside the domain)'
    if math.isnan(real) or abs(real - total) > 1e-8 * max(1.0, abs(total)):
        return True, f'real={real!r} brute-force={total!r}'
    return False, f'real={real!r} brute-force={total!r} agree'


# ------------------------------------------------------------------ driver
# thorough keeps ~100 tasks x 3 solver processes busy on 16 cores: wall-clock solver budgets are scaled so that
# contention does not turn decidable goals into 'unknown'
TSCALE = 6.0 if os.environ.get('VERIF_TIER') == 'thorough' else 1.0  # wall-clock solver budgets: the n = 5, S = 4, K = 2 identities need ~60-150 s each on a busy machine


def run_task(task, tr):
    kind = task[0]
    if kind == 'K3':
        # datatype tables and pattern compression with symbolic characters / columns (CrossHair, chk/c01_k3*.py)
        from chk import c01_k3

        c01_k3.run(tr, task[1])
    elif kind == 'K1':
        k1_task(task[1:], tr)
    else:
        k2_task(task[1:], tr)


def tasks_for(tier):
    ts = []
    if tier == 'quick':
        for n in (3, 4):
            for topo in cm.pick_topologies(n, tier, quick_max=6):
                ts.append(('K1', topo, n, 2, 2, 2, 'calculate_treelikelihood_discrete'))
                ts.append(('K1', topo, n, 4, 1, 1, 'calculate_treelikelihood_tip_states_discrete'))
        for topo in cm.rooted_topologies(3):
            ts.append(('K1', topo, 3, 4, 2, 1, 'calculate_treelikelihood_discrete'))
        for topo in cm.pick_topologies(3, tier):
            for tree_kind, site_kind, tipst in [('unrooted', 'constant', False), ('strict', 'weibull', False),
                                                ('simple', 'invariant', True), ('unrooted', 'weibull+inv', True)]:
                ts.append(('K2', topo, 3, tree_kind, site_kind, tipst))
        ts.append(('K2', cm.balanced(4), 4, 'simple', 'constant', False))
        ts.append(('K2', cm.caterpillar(4), 4, 'unrooted', 'constant+mu', True))
        ts.append(('K2', cm.caterpillar(3), 3, 'strict', 'weibull', False, True))
        ts.append(('K2', cm.caterpillar(3), 3, 'simple', 'invariant', True, True))
        ts.append(('K2', cm.caterpillar(3), 3, 'unrooted', 'weibull+inv', False, True))
        ts.append(('K2', cm.caterpillar(3), 3, 'strict', 'weibull', False, 'reads'))
        ts.append(('K2', ((0, 1), 2), 3, 'simple', 'weibull+inv', False, 'reads'))
        ts.append(('K2', cm.caterpillar(3), 3, 'unrooted', 'invariant', True, 'reads'))
    else:
        for n in (3, 4, 5):
            for topo in cm.rooted_topologies(n):
                if n <= 4:
                    ts.append(('K1', topo, n, 4, 2, 2, 'calculate_treelikelihood_discrete'))
                    ts.append(('K1', topo, n, 4, 2, 2, 'calculate_treelikelihood_tip_states_discrete'))
                else:
                    ts.append(('K1', topo, n, 2, 2, 1, 'calculate_treelikelihood_discrete'))
        for topo in cm.pick_topologies(5, 'quick', quick_max=8):
            ts.append(('K1', topo, 5, 4, 2, 1, 'calculate_treelikelihood_discrete'))
        for n in (3, 4):
            topos = cm.rooted_topologies(n) if n == 3 else cm.pick_topologies(4, 'quick', quick_max=5)
            for topo in topos:
                for tree_kind in ('unrooted', 'strict', 'simple'):
                    for site_kind in ('constant', 'constant+mu', 'invariant', 'weibull', 'weibull+inv'):
                        for tipst in (False, True):
                            if n == 4 and site_kind in ('weibull', 'weibull+inv') and tree_kind != 'unrooted':
                                continue
                            # n = 4 with tip states (a missing tip is a column of ones summed through every rate category):
                            # undecided within budget for K >= 2 categories - one-category site models only
                            if n == 4 and tipst and (site_kind not in ('constant', 'constant+mu') or tree_kind == 'simple'):
                                continue
                            ts.append(('K2', topo, n, tree_kind, site_kind, tipst))
                            if n == 3 and not tipst:
                                ts.append(('K2', topo, n, tree_kind, site_kind, tipst, True))
                                ts.append(('K2', topo, n, tree_kind, site_kind, tipst, 'reads'))
    return ts


def body(chk):
    chk.explanation = ('symbolic execution of the real pruning kernels and of TreeLikelihoodModel._call; for every '
                       'enumerated topology/shape the identity "implementation == brute-force sum over all ancestral '
                       'state x category assignments" is a polynomial identity decided by the SMT solver for ALL '
                       'values of matrices, frequencies, proportions, weights, tip vectors, branch lengths, rates')
    chk.total.assumptions |= {
        'K2: transition matrices are an uninterpreted function of (branch length x clock rate x site rate) '
        'constrained only to be row-stochastic; that p_t = exp(Qt) is C04, that site rates are normalised is C05',
        'site likelihoods are assumed positive (the argument of each log): the identities proved are between the '
        'site likelihoods themselves, positivity of the inputs is not needed for them',
        'K1/K2: datatype tables / pattern compression run concretely on one alignment per n; K3 (CrossHair) decides them '
        'for symbolic characters, triplets and alignment columns',
    }
    pmap(run_task, tasks_for(chk.tier), chk.total)
    # K3 spawns one CrossHair process per condition: run it after the solver tasks so that their wall-clock
    # solver budgets are not eaten by CPU contention
    pmap(run_task, [('K3', chk.tier)], chk.total)


if __name__ == '__main__':
    if '--replay' in sys.argv:
        import json

        r = json.load(open(sys.argv[sys.argv.index('--replay') + 1]))
        print('replay file:', r['what'])
        sys.exit(1)
    sys.exit(main_for(PID, body))
