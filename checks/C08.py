"""C08 Coalescent priors equal the Kingman density of their demographic function.

The real torchtree `*.log_prob` is executed on symbolic node heights, population
sizes, growth rates and grid points; an independently written event-list
evaluator of  -sum_j log N(c_j) - int C(k(t),2)/N(t) dt  is executed on the same
witness.  Every event interleaving is a path region; the solver certifies that
the explored regions cover the whole domain and proves impl == oracle on each.
"""
from __future__ import annotations

import itertools
import sys
import time

import torch

from symtorch import SymFloat, cur, new_vars
from symtorch.axioms import ground_axioms
from symtorch.explore import Explorer, Goal, triage
from symtorch.tensor import mkfloat
from vlib.core import main_for, pmap

PID = 'C08'


# ---------------------------------------------------------------- oracle
def _c2(k):
    return k * (k - 1) / 2.0


def kingman_oracle(samp, coal, breaks, integ, logN, log_by_rank=False):
    """samp/coal/breaks: python lists of (Sym)floats.
    integ(piece, a, b): integral of 1/N over [a,b] inside piece `piece`
    logN(piece, t): log N(t) for t in piece `piece`
    Events are merged into one time-ordered list (ties: sampling, then
    coalescent, then break, i.e. N(t) = piece[#breaks < t] at a coalescence that
    falls exactly on a break - the documented convention).  Each ordering test
    is one symbolic comparison, so the event order is a path condition.
    log_by_rank: the j-th coalescence (in time order) contributes log N of
    piece j (skyride, where the breaks are the coalescent times themselves)."""
    import functools

    ev = [(t, 0, i, +1) for i, t in enumerate(samp)] + [(t, 1, i, -1) for i, t in enumerate(coal)] + \
         [(t, 2, i, 0) for i, t in enumerate(breaks)]

    def cmp(x, y):
        if (x[1], x[2]) <= (y[1], y[2]):
            return -1 if x[0] <= y[0] else 1
        return 1 if y[0] <= x[0] else -1

    ev.sort(key=functools.cmp_to_key(cmp))
    total = 0.0
    k = 0
    piece = 0
    rank = 0
    for pos, (t, kind, i, mark) in enumerate(ev):
        if kind == 1:
            total = total - logN(rank if log_by_rank else piece, t)
            rank += 1
        k += mark
        if kind == 2:
            piece += 1
        if pos + 1 < len(ev) and k >= 2:
            total = total - _c2(k) * integ(piece, t, ev[pos + 1][0])
    return total


def sym_log(x):
    d = cur().dag
    return mkfloat(d.log(SymFloat._id(x)))


def sym_exp(x):
    d = cur().dag
    return mkfloat(d.exp(SymFloat._id(x)))


# ---------------------------------------------------------------- domain
def coalescent_domain(d, V, n, extra=()):
    """sampling times >= 0, coalescent times valid (>= 2 lineages at every
    coalescence), positive population sizes."""
    cs = []
    S = [V[f's{i}'] for i in range(n)]
    C = [V[f'c{j}'] for j in range(n - 1)]
    for s in S:
        cs.append(d.le(0, s))
    for j, c in enumerate(C):
        # lineages just before coalescence j: #samples <= c_j  minus  #coalescences before j
        terms = [d.ite(d.le(s, c), 1, 0) for s in S]
        for j2, c2 in enumerate(C):
            if j2 == j:
                continue
            before = d.lt(c2, c) if j2 > j else d.le(c2, c)
            terms.append(d.ite(before, d.const(-1), 0))
        acc = 0
        for t in terms:
            acc = d.add(acc, t)
        cs.append(d.le(d.const(2), acc))
    for name in V:
        if name.startswith('theta'):
            cs.append(d.lt(0, V[name]))
    return cs + list(extra)


def order_constraint(d, V, perm):
    """sampling times in the order given by perm (domain split)."""
    return [d.le(V[f's{a}'], V[f's{b}']) for a, b in zip(perm, perm[1:])]


def initial_witness(n, perm, G=0, ntheta=1, iso=False, growth=False):
    W = {}
    for rank, i in enumerate(perm):
        W[f's{i}'] = 0.0 if iso else 0.5 * rank
    top = max(W.values())
    for j in range(n - 1):
        W[f'c{j}'] = top + 1.0 + j
    for g in range(G):
        W[f'g{g}'] = 0.7 + 1.1 * g
    for k in range(ntheta):
        W[f'theta{k}'] = 1.5 + k
    if growth:
        W['growth'] = 0.5
    return W


# ---------------------------------------------------------------- models
def _heights(V, W, n, t):
    d = t.dag
    names = [f's{i}' for i in range(n)] + [f'c{j}' for j in range(n - 1)]
    from symtorch import from_ids

    ids = torch.tensor([V[x] for x in names], dtype=torch.int64)
    return from_ids(ids), [mkfloat(V[x]) for x in names[:n]], [mkfloat(V[x]) for x in names[n:]]


def _vec(V, names):
    from symtorch import from_ids

    return from_ids(torch.tensor([V[x] for x in names], dtype=torch.int64))


def body_constant(n):
    from torchtree.evolution.coalescent import ConstantCoalescent

    def body(t, V, W):
        d = t.dag
        h, S, C = _heights(V, W, n, t)
        theta = _vec(V, ['theta0'])
        impl = ConstantCoalescent(theta, validate_args=False).log_prob(h)
        th = mkfloat(V['theta0'])
        orc = kingman_oracle(S, C, [], lambda p, a, b: (b - a) / th, lambda p, c: sym_log(th))
        goal = d.eq(int(impl._ids.reshape(-1)[0]), SymFloat._id(orc))
        return [Goal('constant: log_prob == Kingman', goal, hyps=ground_axioms(d, [goal]),
                     signature='ConstantCoalescent.log_prob')]

    return body, [ConstantCoalescent.log_prob]


def body_skyride(n):
    from torchtree.evolution.coalescent import PiecewiseConstantCoalescent

    def body(t, V, W):
        d = t.dag
        h, S, C = _heights(V, W, n, t)
        theta = _vec(V, [f'theta{k}' for k in range(n - 1)])
        impl = PiecewiseConstantCoalescent(theta, validate_args=False).log_prob(h)
        th = [mkfloat(V[f'theta{k}']) for k in range(n - 1)]
        # skyride: N(t) = theta_k on the k-th inter-coalescent interval: breaks are the
        # coalescent times themselves
        orc = kingman_oracle(S, C, list(C), lambda p, a, b: (b - a) / th[min(p, n - 2)],
                             lambda p, c: sym_log(th[p]), log_by_rank=True)
        goal = d.eq(int(impl._ids.reshape(-1)[0]), SymFloat._id(orc))
        return [Goal('skyride: log_prob == Kingman', goal, hyps=ground_axioms(d, [goal]),
                     signature='PiecewiseConstantCoalescent.log_prob')]

    return body, [PiecewiseConstantCoalescent.log_prob, PiecewiseConstantCoalescent._sorted_terms]


def body_skygrid(n, G):
    from torchtree.evolution.coalescent import PiecewiseConstantCoalescentGrid

    def body(t, V, W):
        d = t.dag
        h, S, C = _heights(V, W, n, t)
        theta = _vec(V, [f'theta{k}' for k in range(G + 1)])
        grid = _vec(V, [f'g{k}' for k in range(G)])
        impl = PiecewiseConstantCoalescentGrid(theta, grid, validate_args=False).log_prob(h)
        th = [mkfloat(V[f'theta{k}']) for k in range(G + 1)]
        gr = [mkfloat(V[f'g{k}']) for k in range(G)]
        orc = kingman_oracle(S, C, gr, lambda p, a, b: (b - a) / th[p], lambda p, c: sym_log(th[p]))
        goal = d.eq(int(impl._ids.reshape(-1)[0]), SymFloat._id(orc))
        return [Goal('skygrid: log_prob == Kingman', goal, hyps=ground_axioms(d, [goal]),
                     signature='PiecewiseConstantCoalescentGrid.log_prob')]

    return body, [PiecewiseConstantCoalescentGrid.log_prob, PiecewiseConstantCoalescentGrid._sorted_terms]


def body_exponential(n):
    from torchtree.evolution.coalescent import ExponentialCoalescent

    def body(t, V, W):
        d = t.dag
        h, S, C = _heights(V, W, n, t)
        theta = _vec(V, ['theta0'])
        growth = _vec(V, ['growth'])
        impl = ExponentialCoalescent(theta, growth, validate_args=False).log_prob(h)
        th = mkfloat(V['theta0'])
        g = mkfloat(V['growth'])
        # N(t) = theta * exp(-g t);  int_a^b 1/N = (exp(g b) - exp(g a)) / (theta g)
        orc = kingman_oracle(S, C, [], lambda p, a, b: (sym_exp(g * b) - sym_exp(g * a)) / (th * g),
                             lambda p, c: sym_log(th) - g * c)
        goal = d.eq(int(impl._ids.reshape(-1)[0]), SymFloat._id(orc))
        return [Goal('exponential: log_prob == Kingman', goal, hyps=ground_axioms(d, [goal]),
                     signature='ExponentialCoalescent.log_prob')]

    return body, [ExponentialCoalescent.log_prob]


def log_congruence_lemmas(d, goal, hyps, t_budget=6.0):
    """Equalities a == b between arguments of log(.) inside `goal` that the solver proves under `hyps`
    (candidates: pairs with the same witness value).  Only PROVED equalities are returned."""
    from symtorch.explore import prove

    args = {}
    for nd in d.topo([goal]):
        if d.ops[nd] == 'uf' and d.args[nd][0] == 'log':
            a = d.args[nd][1]
            args.setdefault(round(float(d.vals[a]), 10), set()).add(a)
    out = []
    for grp in args.values():
        grp = sorted(grp)
        for b in grp[1:]:
            e = d.eq(grp[0], b)
            if e == d.TRUE:
                continue
            st, _, _ = prove(d, hyps, e, timeout=t_budget, solvers=('z3', 'z3new'), parallel=True)
            if st == 'proved':
                out.append(e)
    return out


def body_plinear(n, G):
    from torchtree.evolution.coalescent import PiecewiseLinearCoalescentGrid

    def body(t, V, W):
        d = t.dag
        h, S, C = _heights(V, W, n, t)
        theta = _vec(V, [f'theta{k}' for k in range(G + 1)])
        grid = _vec(V, [f'g{k}' for k in range(G)])
        impl = PiecewiseLinearCoalescentGrid(theta, grid, validate_args=False).log_prob(h)
        th = [mkfloat(V[f'theta{k}']) for k in range(G + 1)]
        gr = [0.0] + [mkfloat(V[f'g{k}']) for k in range(G)]

        # documented N(t): linear between (g_p, theta_p) and (g_{p+1}, theta_{p+1}), constant theta_G after the last point
        def N(p, x):
            if p >= G:
                return th[G]
            return th[p] + (th[p + 1] - th[p]) * (x - gr[p]) / (gr[p + 1] - gr[p])

        def integ(p, a, b):
            if p >= G:
                return (b - a) / th[G]
            na, nb = N(p, a), N(p, b)
            if nb == na:  # symbolic comparison -> path condition (flat piece)
                return (b - a) / na
            return (b - a) * (sym_log(nb) - sym_log(na)) / (nb - na)

        orc = kingman_oracle(S, C, gr[1:], integ, lambda p, c: sym_log(N(p, c)))
        goal = d.eq(int(impl._ids.reshape(-1)[0]), SymFloat._id(orc))
        # lemma chaining: implementation and oracle write the interpolated population sizes differently; each pair
        # of log arguments that agrees at the witness is first proved equal on this region (a rational identity),
        # the proved equalities then let the solver close the uninterpreted logs by congruence
        basic = [d.lt(0, V[f'theta{k}']) for k in range(G + 1)] + [d.lt(0, V['g0'])] + \
                [d.lt(V[f'g{k - 1}'], V[f'g{k}']) for k in range(1, G)]
        lemmas = log_congruence_lemmas(d, goal, basic + list(t.pcs), t_budget=6.0)
        # alternative formulation: the goal with every proved-equal sub-term replaced by its representative
        # (equivalent to the goal under the proved lemmas, which are among its hypotheses)
        mapping = {d.args[e][1]: d.args[e][0] for e in lemmas if d.ops[e] == 'eq'}
        alts = []
        if mapping:
            g2 = d.substitute([goal], mapping)[0]
            if g2 != goal:
                alts.append(g2)
        return [Goal('piecewise-linear: log_prob == Kingman', goal, hyps=ground_axioms(d, [goal] + alts) + lemmas,
                     signature='PiecewiseLinearCoalescentGrid.log_prob', alts=alts)]

    return body, [PiecewiseLinearCoalescentGrid.log_prob]


def body_pexp(n, G):
    from torchtree.evolution.coalescent import PiecewiseExponentialCoalescentGrid

    def body(t, V, W):
        d = t.dag
        h, S, C = _heights(V, W, n, t)
        theta = _vec(V, [f'theta{k}' for k in range(G + 1)])
        growth = _vec(V, [f'growth{k}' for k in range(G + 1)])
        grid = _vec(V, [f'g{k}' for k in range(G)])
        try:
            impl = PiecewiseExponentialCoalescentGrid(theta, growth, grid, validate_args=False).log_prob(h)
        except RuntimeError as e:
            return [Goal(f'piecewise-exponential: log_prob evaluates (raised {type(e).__name__}: {str(e)[:80]})', d.FALSE,
                         signature='PiecewiseExponentialCoalescentGrid.log_prob:raises')]
        th = [mkfloat(V[f'theta{k}']) for k in range(G + 1)]
        gw = [mkfloat(V[f'growth{k}']) for k in range(G + 1)]
        gr = [0.0] + [mkfloat(V[f'g{k}']) for k in range(G)]

        # documented N(t): N(g_p) continuous, N(t) = N(g_p) exp(-growth_p (t - g_p)) on piece p, N(0) = theta_0 ... the
        # shipped parameterisation gives theta_p as the population size at the START of piece p
        def N0(p):
            return th[p]

        def logN(p, c):
            return sym_log(N0(p)) - gw[p] * (c - gr[p])

        def integ(p, a, b):
            return (sym_exp(gw[p] * (b - gr[p])) - sym_exp(gw[p] * (a - gr[p]))) / (N0(p) * gw[p])

        orc = kingman_oracle(S, C, gr[1:], integ, logN)
        goal = d.eq(int(impl._ids.reshape(-1)[0]), SymFloat._id(orc))
        return [Goal('piecewise-exponential: log_prob == Kingman', goal, hyps=ground_axioms(d, [goal]),
                     signature='PiecewiseExponentialCoalescentGrid.log_prob')]

    return body, [PiecewiseExponentialCoalescentGrid.log_prob]


MODELS = {
    'constant': dict(mk=lambda n, G: body_constant(n), ntheta=lambda n, G: 1),
    'skyride': dict(mk=lambda n, G: body_skyride(n), ntheta=lambda n, G: n - 1),
    'skygrid': dict(mk=lambda n, G: body_skygrid(n, G), ntheta=lambda n, G: G + 1),
    'exponential': dict(mk=lambda n, G: body_exponential(n), ntheta=lambda n, G: 1, growth=True),
    'plinear': dict(mk=lambda n, G: body_plinear(n, G), ntheta=lambda n, G: G + 1, grid=True),
    'pexp': dict(mk=lambda n, G: body_pexp(n, G), ntheta=lambda n, G: G + 1, grid=True, growths=True),
}


def run_task(task, tr):
    model, n, G, perm, budget = task
    spec = MODELS[model]
    body, fns = spec['mk'](n, G)
    tr.fn(*fns)
    ntheta = spec['ntheta'](n, G)
    has_grid = model == 'skygrid' or spec.get('grid')
    W = initial_witness(n, perm, G if has_grid else 0, ntheta, growth=spec.get('growth', False))
    if spec.get('growths'):
        for k in range(G + 1):
            W[f'growth{k}'] = 0.3 + 0.2 * k

    def domain(d, V):
        extra = order_constraint(d, V, perm)
        for g in range(G if has_grid else 0):
            extra.append(d.lt(0, V[f'g{g}']))
            if g:
                extra.append((d.lt if model in ('plinear', 'pexp') else d.le)(V[f'g{g-1}'], V[f'g{g}']))
        if spec.get('growths'):
            extra += [d.not_(d.eq(V[f'growth{k}'], 0)) for k in range(G + 1)]
        if spec.get('growth'):
            extra.append(d.not_(d.eq(V['growth'], 0)))
        return coalescent_domain(d, V, n, extra)

    label = f'{model} n={n} G={G} sampling-order={perm}'
    ex = Explorer(W, domain, body, tr, max_regions=budget, timeout=30.0, label=label,
                  deadline=time.time() + 1500, parallel=(model == 'plinear'))
    out = ex.run()
    tr.bounds[f'{model}'] = f'n<={n}, grid points<={G}, all sampling-time orders (one task per order)'
    for s in out.region_samples[:1]:
        s['model'] = label
        tr.sample(s)
    triage(out, lambda vals: replay(model, n, G, vals), tr, label, {'model': model, 'n': n, 'G': G})


# ---------------------------------------------------------------- replay
def numeric_oracle(model, n, G, vals):
    import math

    S = [vals[f's{i}'] for i in range(n)]
    C = [vals[f'c{j}'] for j in range(n - 1)]
    if model == 'constant':
        th = vals['theta0']
        return kingman_oracle(S, C, [], lambda p, a, b: (b - a) / th, lambda p, c: math.log(th))
    if model == 'skyride':
        th = [vals[f'theta{k}'] for k in range(n - 1)]
        return kingman_oracle(S, C, list(C), lambda p, a, b: (b - a) / th[min(p, n - 2)],
                              lambda p, c: math.log(th[p]), log_by_rank=True)
    if model == 'skygrid':
        th = [vals[f'theta{k}'] for k in range(G + 1)]
        gr = [vals[f'g{k}'] for k in range(G)]
        return kingman_oracle(S, C, gr, lambda p, a, b: (b - a) / th[p], lambda p, c: math.log(th[p]))
    if model == 'exponential':
        th, g = vals['theta0'], vals['growth']
        return kingman_oracle(S, C, [], lambda p, a, b: (math.exp(g * b) - math.exp(g * a)) / (th * g),
                              lambda p, c: math.log(th) - g * c)
    if model == 'plinear':
        th = [vals[f'theta{k}'] for k in range(G + 1)]
        gr = [0.0] + [vals[f'g{k}'] for k in range(G)]

        def N(p, x):
            if p >= G:
                return th[G]
            return th[p] + (th[p + 1] - th[p]) * (x - gr[p]) / (gr[p + 1] - gr[p])

        def integ(p, a, b):
            if p >= G:
                return (b - a) / th[G]
            na, nb = N(p, a), N(p, b)
            if abs(nb - na) < 1e-14:
                return (b - a) / na
            return (b - a) * (math.log(nb) - math.log(na)) / (nb - na)

        return kingman_oracle(S, C, gr[1:], integ, lambda p, c: math.log(N(p, c)))
    if model == 'pexp':
        th = [vals[f'theta{k}'] for k in range(G + 1)]
        gw = [vals[f'growth{k}'] for k in range(G + 1)]
        gr = [0.0] + [vals[f'g{k}'] for k in range(G)]
        return kingman_oracle(S, C, gr[1:],
                              lambda p, a, b: (math.exp(gw[p] * (b - gr[p])) - math.exp(gw[p] * (a - gr[p]))) / (th[p] * gw[p]),
                              lambda p, c: math.log(th[p]) - gw[p] * (c - gr[p]))
    raise KeyError(model)


def real_value(model, n, G, vals):
    from torchtree.evolution import coalescent as co

    h = torch.tensor([vals[f's{i}'] for i in range(n)] + [vals[f'c{j}'] for j in range(n - 1)], dtype=torch.float64)
    if model == 'constant':
        return float(co.ConstantCoalescent(torch.tensor([vals['theta0']], dtype=torch.float64)).log_prob(h))
    if model == 'skyride':
        th = torch.tensor([vals[f'theta{k}'] for k in range(n - 1)], dtype=torch.float64)
        return float(co.PiecewiseConstantCoalescent(th).log_prob(h))
    if model == 'skygrid':
        th = torch.tensor([vals[f'theta{k}'] for k in range(G + 1)], dtype=torch.float64)
        gr = torch.tensor([vals[f'g{k}'] for k in range(G)], dtype=torch.float64)
        return float(co.PiecewiseConstantCoalescentGrid(th, gr).log_prob(h))
    if model == 'exponential':
        return float(co.ExponentialCoalescent(torch.tensor([vals['theta0']], dtype=torch.float64),
                                              torch.tensor([vals['growth']], dtype=torch.float64)).log_prob(h))
    if model in ('plinear', 'pexp'):
        th = torch.tensor([vals[f'theta{k}'] for k in range(G + 1)], dtype=torch.float64)
        gr = torch.tensor([vals[f'g{k}'] for k in range(G)], dtype=torch.float64)
        if model == 'plinear':
            return float(co.PiecewiseLinearCoalescentGrid(th, gr).log_prob(h))
        gw = torch.tensor([vals[f'growth{k}'] for k in range(G + 1)], dtype=torch.float64)
        return float(co.PiecewiseExponentialCoalescentGrid(th, gw, gr).log_prob(h))
    raise KeyError(model)


def replay(model, n, G, vals):
    """Plain torch tensors through the real code vs the numeric oracle."""
    try:
        rv = real_value(model, n, G, vals)
    except Exception as e:  # real code raises on an in-domain input
        return True, f'real code raised {type(e).__name__}: {e}'
    ov = float(numeric_oracle(model, n, G, vals))
    if not (abs(rv - ov) <= 1e-8 * max(1.0, abs(ov))):
        return True, f'real={rv!r} oracle={ov!r}'
    return False, f'real={rv!r} oracle={ov!r} agree'


def tasks_for(tier):
    ts = []
    if tier == 'quick':
        plan = [('constant', 3, 0, 60), ('skyride', 3, 0, 60), ('skygrid', 3, 1, 120), ('exponential', 3, 0, 60),
                ('pexp', 3, 1, 60)]
    else:
        plan = [('constant', 4, 0, 400), ('skyride', 4, 0, 400), ('skygrid', 3, 2, 400), ('skygrid', 4, 1, 1600),
                ('exponential', 4, 0, 400), ('pexp', 3, 1, 60),
                # two taxa, two inner grid points: the smallest instance in which a flat inner segment differs from the last one
                ('plinear', 2, 2, 300)]
    for model, n, G, budget in plan:
        for perm in itertools.permutations(range(n)):
            ts.append((model, n, G, perm, budget))
    return ts


def body(chk):
    chk.explanation = ('bounded symbolic execution of the real coalescent log_prob code; path regions = event '
                       'interleavings, enumerated with blocking clauses until the solver certifies coverage; '
                       'on each region impl == independent Kingman event-list oracle is proved for all real '
                       'inputs (QF_NRA + uninterpreted log/exp with ground axiom instances)')
    chk.total.assumptions |= {'torch.distributions argument validation switched off (inputs are constrained by the stated domain instead)',
                              'log/exp are uninterpreted functions constrained by ground instances of their algebraic laws'}
    chk.total.stubs |= {'log', 'exp (uninterpreted + ground axioms)'}
    pmap(run_task, tasks_for(chk.tier), chk.total)


if __name__ == '__main__':
    if '--replay' in sys.argv:
        import json

        r = json.load(open(sys.argv[sys.argv.index('--replay') + 1]))['replay']
        ok, detail = replay(r['model'], r['n'], r['G'], r['values'])
        print(('REPRODUCED ' if ok else 'NOT REPRODUCED ') + detail)
        sys.exit(1 if ok else 0)
    sys.exit(main_for(PID, body))
