"""C08 Coalescent priors equal the Kingman density of their demographic function.

The real torchtree `*.log_prob` is executed on symbolic node heights, population
sizes, growth rates and grid points; an independently written event-list
evaluator of  -sum_j log N(c_j) - int C(k(t),2)/N(t) dt  is executed on the same
witness.  Every event interleaving is a path region; the solver certifies that
the explored regions cover the whole domain and proves impl == oracle on each.
"""
from __future__ import annotations

import itertools
import sys
import time

import torch

from symtorch import SymFloat, cur, new_vars
from symtorch.axioms import ground_axioms
from symtorch.explore import Explorer, Goal, triage
from symtorch.tensor import mkfloat
from vlib.core import main_for, pmap

PID = 'C08'


# ---------------------------------------------------------------- oracle
def _c2(k):
    return k * (k - 1) / 2.0


def kingman_oracle(samp, coal, breaks, integ, logN, log_by_rank=False):
    """samp/coal/breaks: python lists of (Sym)floats.
    integ(piece, a, b): integral of 1/N over [a,b] inside piece `piece`
    logN(piece, t): log N(t) for t in piece `piece`
    Events are merged into one time-ordered list (ties: sampling, then
    coalescent, then break, i.e. N(t) = piece[#breaks < t] at a coalescence that
    falls exactly on a break - the documented convention).  Each ordering test
    is one symbolic comparison, so the event order is a path condition.
    log_by_rank: the j-th coalescence (in time order) contributes log N of
    piece j (skyride, where the breaks are the coalescent times themselves)."""
    import functools

    ev = [(t, 0, i, +1) for i, t in enumerate(samp)] + [(t, 1, i, -1) for i, t in enumerate(coal)] + \
         [(t, 2, i, 0) for i, t in enumerate(breaks)]

    def cmp(x, y):
        if (x[1], x[2]) <= (y[1], y[2]):
            return -1 if x[0] <= y[0] else 1
        return 1 if y[0] <= x[0] else -1

    ev.sort(key=functools.cmp_to_key(cmp))
    total = 0.0
    k = 0
    piece = 0
    rank = 0
    for pos, (t, kind, i, mark) in enumerate(ev):
        if kind == 1:
            total = total - logN(rank if log_by_rank else piece, t)
            rank += 1
        k += mark
        if kind == 2:
            piece += 1
        if pos + 1 < len(ev) and k >= 2:
            total = total - _c2(k) * integ(piece, t, ev[pos + 1][0])
    return total


def sym_log(x):
    d = cur().dag
    return mkfloat(d.log(SymFloat._id(x)))


def sym_exp(x):
    d = cur().dag
    return mkfloat(d.exp(SymFloat._id(x)))


# ---------------------------------------------------------------- domain
def coalescent_domain(d, V, n, extra=()):
    """sampling times >= 0, coalescent times valid (>= 2 lineages at every
    coalescence), positive population sizes."""
    cs = []
    S = [V[f's{i}'] for i in range(n)]
    C = [V[f'c{j}'] for j in range(n - 1)]
    for s in S:
        cs.append(d.le(0, s))
    for j, c in enumerate(C):
        # lineages just before coalescence j: #samples <= c_j  minus  #coalescences before j
        terms = [d.ite(d.le(s, c), 1, 0) for s in S]
        for j2, c2 in enumerate(C):
            if j2 == j:
                continue
            before = d.lt(c2, c) if j2 > j else d.le(c2, c)
            terms.append(d.ite(before, d.const(-1), 0))
        acc = 0
        for t in terms:
            acc = d.add(acc, t)
        cs.append(d.le(d.const(2), acc))
    for name in V:
        if name.startswith('theta'):
            cs.append(d.lt(0, V[name]))
    return cs + list(extra)


def order_constraint(d, V, perm):
    """sampling times in the order given by perm (domain split)."""
    return [d.le(V[f's{a}'], V[f's{b}']) for a, b in zip(perm, perm[1:])]


def initial_witness(n, perm, G=0, ntheta=1, iso=False, growth=False):
    W = {}
    for rank, i in enumerate(perm):
        W[f's{i}'] = 0.0 if iso else 0.5 * rank
    top = max(W.values())
    for j in range(n - 1):
        W[f'c{j}'] = top + 1.0 + j
    for g in range(G):
        W[f'g{g}'] = 0.7 + 1.1 * g
    for k in range(ntheta):
        W[f'theta{k}'] = 1.5 + k
    if growth:
        W['growth'] = 0.5
    return W


# ---------------------------------------------------------------- models
def _heights(V, W, n, t):
    d = t.dag
    names = [f's{i}' for i in range(n)] + [f'c{j}' for j in range(n - 1)]
    from symtorch import from_ids

    ids = torch.tensor([V[x] for x in names], dtype=torch.int64)
    return from_ids(ids), [mkfloat(V[x]) for x in names[:n]], [mkfloat(V[x]) for x in names[n:]]


def _vec(V, names):
    from symtorch import from_ids

    return from_ids(torch.tensor([V[x] for x in names], dtype=torch.int64))


def body_constant(n):
    from torchtree.evolution.coalescent import ConstantCoalescent

    def body(t, V, W):
        d = t.dag
        h, S, C = _heights(V, W, n, t)
        theta = _vec(V, ['theta0'])
        impl = ConstantCoalescent(theta, validate_args=False).log_prob(h)
        th = mkfloat(V['theta0'])
        orc = kingman_oracle(S, C, [], lambda p, a, b: (b - a) / th, lambda p, c: sym_log(th))
        goal = d.eq(int(impl._ids.reshape(-1)[0]), SymFloat._id(orc))
        return [Goal('constant: log_prob == Kingman', goal, hyps=ground_axioms(d, [goal]),
                     signature='ConstantCoalescent.log_prob')]

    return body, [ConstantCoalescent.log_prob]


def body_skyride(n):
    from torchtree.evolution.coalescent import PiecewiseConstantCoalescent

    def body(t, V, W):
        d = t.dag
        h, S, C = _heights(V, W, n, t)
        theta = _vec(V, [f'theta{k}' for k in range(n - 1)])
        impl = PiecewiseConstantCoalescent(theta, validate_args=False).log_prob(h)
        th = [mkfloat(V[f'theta{k}']) for k in range(n - 1)]
        # skyride: N(t) = theta_k on the k-th inter-coalescent interval: breaks are the
        # coalescent times themselves
        orc = kingman_oracle(S, C, list(C), lambda p, a, b: (b - a) / th[min(p, n - 2)],
                             lambda p, c: sym_log(th[p]), log_by_rank=True)
        goal = d.eq(int(impl._ids.reshape(-1)[0]), SymFloat._id(orc))
        return [Goal('skyride: log_prob == Kingman', goal, hyps=ground_axioms(d, [goal]),
                     signature='PiecewiseConstantCoalescent.log_prob')]

    return body, [PiecewiseConstantCoalescent.log_prob, PiecewiseConstantCoalescent._sorted_terms]


def body_skygrid(n, G):
    from torchtree.evolution.coalescent import PiecewiseConstantCoalescentGrid

    def body(t, V, W):
        d = t.dag
        h, S, C = _heights(V, W, n, t)
        theta = _vec(V, [f'theta{k}' for k in range(G + 1)])
        grid = _vec(V, [f'g{k}' for k in range(G)])
        impl = PiecewiseConstantCoalescentGrid(theta, grid, validate_args=False).log_prob(h)
        th = [mkfloat(V[f'theta{k}']) for k in range(G + 1)]
        gr = [mkfloat(V[f'g{k}']) for k in range(G)]
        orc = kingman_oracle(S, C, gr, lambda p, a, b: (b - a) / th[p], lambda p, c: sym_log(th[p]))
        goal = d.eq(int(impl._ids.reshape(-1)[0]), SymFloat._id(orc))
        return [Goal('skygrid: log_prob == Kingman', goal, hyps=ground_axioms(d, [goal]),
                     signature='PiecewiseConstantCoalescentGrid.log_prob')]

    return body, [PiecewiseConstantCoalescentGrid.log_prob, PiecewiseConstantCoalescentGrid._sorted_terms]


def body_exponential(n):
    from torchtree.evolution.coalescent import ExponentialCoalescent

    def body(t, V, W):
        d = t.dag
        h, S, C = _heights(V, W, n, t)
        theta = _vec(V, ['theta0'])
        growth = _vec(V, ['growth'])
        impl = ExponentialCoalescent(theta, growth, validate_args=False).log_prob(h)
        th = mkfloat(V['theta0'])
        g = mkfloat(V['growth'])
        # N(t) = theta * exp(-g t);  int_a^b 1/N = (exp(g b) - exp(g a)) / (theta g)
        orc = kingman_oracle(S, C, [], lambda p, a, b: (sym_exp(g * b) - sym_exp(g * a)) / (th * g),
                             lambda p, c: sym_log(th) - g * c)
        goal = d.eq(int(impl._ids.reshape(-1)[0]), SymFloat._id(orc))
        return [Goal('exponential: log_prob == Kingman', goal, hyps=ground_axioms(d, [goal]),
                     signature='ExponentialCoalescent.log_prob')]

    return body, [ExponentialCoalescent.log_prob]


def log_congruence_lemmas(d, goal, hyps, t_budget=6.0):
    """Equalities a == b between arguments of log(.) inside `goal` that the solver proves under `hyps`
    (candidates: pairs with the same witness value).  Only PROVED equalities are returned."""
    from symtorch.explore import prove

    args = {}
    for nd in d.topo([goal]):
        if d.ops[nd] == 'uf' and d.args[nd][0] == 'log':
            a = d.args[nd][1]
            args.setdefault(round(float(d.vals[a]), 10), set()).add(a)
    out = []
    for grp in args.values():
        grp = sorted(grp)
        for b in grp[1:]:
            e = d.eq(grp[0], b)
            if e == d.TRUE:
                continue
            st, _, _ = prove(d, hyps, e, timeout=t_budget, solvers=('z3', 'z3new'), parallel=True)
            if st == 'proved':
                out.append(e)
    return out


def body_plinear(n, G):
    from torchtree.evolution.coalescent import PiecewiseLinearCoalescentGrid

    def body(t, V, W):
        d = t.dag
        h, S, C = _heights(V, W, n, t)
        theta = _vec(V, [f'theta{k}' for k in range(G + 1)])
        grid = _vec(V, [f'g{k}' for k in range(G)])
        impl = PiecewiseLinearCoalescentGrid(theta, grid, validate_args=False).log_prob(h)
        th = [mkfloat(V[f'theta{k}']) for k in range(G + 1)]
        gr = [0.0] + [mkfloat(V[f'g{k}']) for k in range(G)]

        # documented N(t): linear between (g_p, theta_p) and (g_{p+1}, theta_{p+1}), constant theta_G after the last point
        def N(p, x):
            if p >= G:
                return th[G]
            return th[p] + (th[p + 1] - th[p]) * (x - gr[p]) / (gr[p + 1] - gr[p])

        def integ(p, a, b):
            if p >= G:
                return (b - a) / th[G]
            na, nb = N(p, a), N(p, b)
            if nb == na:  # symbolic comparison -> path condition (flat piece)
                return (b - a) / na
            return (b - a) * (sym_log(nb) - sym_log(na)) / (nb - na)

        orc = kingman_oracle(S, C, gr[1:], integ, lambda p, c: sym_log(N(p, c)))
        goal = d.eq(int(impl._ids.reshape(-1)[0]), SymFloat._id(orc))
        # lemma chaining: implementation and oracle write the interpolated population sizes differently; each pair
        # of log arguments that agrees at the witness is first proved equal on this region (a rational identity),
        # the proved equalities then let the solver close the uninterpreted logs by congruence
        basic = [d.lt(0, V[f'theta{k}']) for k in range(G + 1)] + [d.lt(0, V['g0'])] + \
                [d.lt(V[f'g{k - 1}'], V[f'g{k}']) for k in range(1, G)]
        lemmas = log_congruence_lemmas(d, goal, basic + list(t.pcs), t_budget=6.0)
        # alternative formulation: the goal with every proved-equal sub-term replaced by its representative
        # (equivalent to the goal under the proved lemmas, which are among its hypotheses)
        mapping = {d.args[e][1]: d.args[e][0] for e in lemmas if d.ops[e] == 'eq'}
        alts = []
        if mapping:
            g2 = d.substitute([goal], mapping)[0]
            if g2 != goal:
                alts.append(g2)
        return [Goal('piecewise-linear: log_prob == Kingman', goal, hyps=ground_axioms(d, [goal] + alts) + lemmas,
                     signature='PiecewiseLinearCoalescentGrid.log_prob', alts=alts)]

    return body, [PiecewiseLinearCoalescentGrid.log_prob]


def body_pexp(n, G):
    from torchtree.evolution.coalescent import PiecewiseExponentialCoalescentGrid

    def body(t, V, W):
        d = t.dag
        h, S, C = _heights(V, W, n, t)
        theta = _vec(V, [f'theta{k}' for k in range(G + 1)])
        growth = _vec(V, [f'growth{k}' for k in range(G + 1)])
        grid = _vec(V, [f'g{k}' for k in range(G)])
        try:
            impl = PiecewiseExponentialCoalescentGrid(theta, growth, grid, validate_args=False).log_prob(h)
        except RuntimeError as e:
            return [Goal(f'piecewise-exponential: log_prob evaluates (raised {type(e).__name__}: {str(e)[:80]})', d.FALSE,
                         signature='PiecewiseExponentialCoalescentGrid.log_prob:raises')]
        th = [mkfloat(V[f'theta{k}']) for k in range(G + 1)]
        gw = [mkfloat(V[f'growth{k}']) for k in range(G + 1)]
        gr = [0.0] + [mkfloat(V[f'g{k}']) for k in range(G)]

        # documented N(t): N(g_p) continuous, N(t) = N(g_p) exp(-growth_p (t - g_p)) on piece p, N(0) = theta_0 ... the
        # shipped parameterisation gives theta_p as the population size at the START of piece p
        def N0(p):
            return th[p]

        def logN(p, c):
            return sym_log(N0(p)) - gw[p] * (c - gr[p])

        def integ(p, a, b):
            return (sym_exp(gw[p] * (b - gr[p])) - sym_exp(gw[p] * (a - gr[p]))) / (N0(p) * gw[p])

        orc = kingman_oracle(S, C, gr[1:], integ, logN)
        goal = d.eq(int(impl._ids.reshape(-1)[0]), SymFloat._id(orc))
        return [Goal('piecewise-exponential: log_prob == Kingman', goal, hyps=ground_axioms(d, [goal]),
                     signature='PiecewiseExponentialCoalescentGrid.log_prob')]

    return body, [PiecewiseExponentialCoalescentGrid.log_prob]


MODELS = {
    'constant': dict(mk=lambda n, G: body_constant(n), ntheta=lambda n, G: 1),
    'skyride': dict(mk=lambda n, G: body_skyride(n), ntheta=lambda n, G: n - 1),
    'skygrid': dict(mk=lambda n, G: body_skygrid(n, G), ntheta=lambda n, G: G + 1),
    'exponential': dict(mk=lambda n, G: body_exponential(n), ntheta=lambda n, G: 1, growth=True),
    'plinear': dict(mk=lambda n, G: body_plinear(n, G), ntheta=lambda n, G: G + 1, grid=True),
    'pexp': dict(mk=lambda n, G: body_pexp(n, G), ntheta=lambda n, G: G + 1, grid=True, growths=True),
}


# ================================================================ the `...Model` wrappers across parameter updates
# One model OBJECT is built through one of its documented JSON forms, evaluated, some of its parameters are replaced by fresh
# symbols through the public `Parameter.tensor = ...` setter, and it is evaluated again (a history).  Every evaluation -
# `model()` and `model.distribution().log_prob(...)` - must equal the Kingman oracle at the symbols that are CURRENT at that
# point of the history.  All generations of all symbols live in one trace; a path region fixes the event order of every
# generation of heights / grid points, the region loop + closure query of `Explorer` covers all of them.
WRAPPERS = {
    'constant': dict(type='ConstantCoalescentModel', dist='ConstantCoalescent', ntheta=lambda n, G: 1),
    'exponential': dict(type='ExponentialCoalescentModel', dist='ExponentialCoalescent', ntheta=lambda n, G: 1, growth=1),
    'skyride': dict(type='PiecewiseConstantCoalescentModel', dist='PiecewiseConstantCoalescent', ntheta=lambda n, G: n - 1),
    'skygrid': dict(type='PiecewiseConstantCoalescentGridModel', dist='PiecewiseConstantCoalescentGrid',
                    ntheta=lambda n, G: G + 1, grid=True),
    'plinear': dict(type='PiecewiseLinearCoalescentGridModel', dist='PiecewiseLinearCoalescentGrid',
                    ntheta=lambda n, G: G + 1, grid=True, strict_grid=True),
    'pexp': dict(type='PiecewiseExponentialCoalescentGridModel', dist='PiecewiseExponentialCoalescentGrid',
                 ntheta=lambda n, G: G + 1, grid=True, strict_grid=True, growth='per-piece'),
    'integrated': dict(type='ConstantCoalescentIntegratedModel', dist='ConstantCoalescentIntegrated', ntheta=lambda n, G: 0),
}
TOPOLOGY = {2: (0, 1), 3: ((0, 1), 2), 4: (((0, 1), 2), 3)}
ALPHA, BETA = 2.0, 1.5
LTH_BOUND = 20.0
UPDATE_LABEL = {'theta': 'theta', 'growth': 'growth', 'grid': 'grid', 'heights': 'internal heights', 'ratios': 'ratios',
                'root': 'root height', 'samp': 'sampling times (heights argument of distribution().log_prob)'}


def nm(base, gen=0, row=None):
    """name of generation `gen` (0 = the symbols the model is first evaluated at) of a symbol; `row`: sample index"""
    s_ = base if not gen else f'{base}~{gen}'
    return s_ if row is None else f'{s_}#{row}'


def index_tree(topology, n):
    """internal nodes numbered n.. in post-order (torchtree's numbering): root index, {internal node: [children]}"""
    children = {}
    counter = itertools.count(n)

    def rec(x):
        if not isinstance(x, tuple):
            return x
        cs = [rec(c) for c in x]
        i = next(counter)
        children[i] = cs
        return i

    return rec(topology), children


def newick(x):
    return '(' + ','.join(newick(c) for c in x) + ')' if isinstance(x, tuple) else f't{x}'


def ratio_heights(topology, n, S, ratios, root):
    """documented ratio parameterisation, written independently of the transform class: the root sits at `root`, an internal
    node c with parent p at bound_c + ratio_c (h_p - bound_c), bound_c = the oldest sampling time below c"""
    rootidx, children = index_tree(topology, n)
    bound = {i: S[i] for i in range(n)}
    for p in sorted(children):
        a, b = (bound[c] for c in children[p])
        bound[p] = b if a <= b else a  # symbolic comparison -> path condition
    h = {rootidx: root}
    for p in sorted(children, reverse=True):
        for c in children[p]:
            if c in children:
                h[c] = bound[c] + ratios[c - n] * (h[p] - bound[c])
    return [h[n + j] for j in range(n - 1)]


class WrapCase:
    """task dict -> symbols, domain, and the generation bookkeeping of a history.
    keys: model, n, G, theta ('param' | 'ref' | 'texp'), tree ('inline' | 'ref' | 'ratio' | 'times' | 'intervals'),
    grid ('param' | 'ref' | 'list' | 'cutoff'), perm (order of the sampling times; tree forms) or events (data forms:
    1 = sampling, 0 = coalescence, in time order), hist (tuple of update sets), batch (None | 'theta' | 'heights' | 'both')"""

    def __init__(self, task):
        self.task = task
        self.model = task['model']
        self.spec = WRAPPERS[self.model]
        self.n, self.G = task['n'], task.get('G', 0)
        self.theta_form, self.tree_form = task.get('theta', 'param'), task.get('tree', 'inline')
        self.grid_form = task.get('grid', 'param') if self.spec.get('grid') else None
        self.hist = tuple(tuple(u) for u in task.get('hist', ()))
        self.batch = task.get('batch')
        self.topology = TOPOLOGY[self.n]
        self.perm = tuple(task.get('perm') or range(self.n))
        self.events = tuple(task.get('events') or ())
        self.ntheta = self.spec['ntheta'](self.n, self.G)
        self.ngrowth = {None: 0, 1: 1, 'per-piece': self.G + 1}[self.spec.get('growth')]
        self.rows_theta = [0, 1] if self.batch in ('theta', 'both') else [None]
        self.rows_heights = [0, 1] if self.batch in ('heights', 'both') else [None]
        self.rows = [0, 1] if self.batch else [None]
        self.data_form = self.tree_form in ('times', 'intervals')
        assert not (self.data_form and self.batch in ('heights', 'both'))
        # stratum 'generic': no two events at the same time, no grid point on an event, consecutive population sizes different
        # (the lower-dimensional tie / flat-segment regions are left to the tasks that run on the closed domain)
        self.generic = task.get('stratum') == 'generic'
        # ratio trees, three taxa ((t0,t1),t2): whether the cherry is younger ('below': serially sampled, t2 is older than the
        # first coalescence) or older ('above') than t2 is a NON-LINEAR boundary in (ratio, root height); it is a domain split
        # (one task per side) rather than a region boundary found by the solver, whose witnesses next to such a boundary
        # collapse in floating point
        self.side = task.get('side')
        assert self.side is None or (self.tree_form == 'ratio' and self.n == 3)
        assert not (self.generic and self.tree_form in ('ratio', 'intervals'))
        if self.model == 'integrated':
            assert self.tree_form in ('inline', 'ref', 'ratio')
        # number of generations of every kind of symbol
        self.ngen = {k: 1 + sum(k in u for u in self.hist) for k in UPDATE_LABEL}
        allowed = self.updatable()
        for u in self.hist:
            assert u and set(u) <= allowed, (u, allowed)

    def updatable(self):
        out = set()
        if self.ntheta:
            out.add('theta')
        if self.ngrowth:
            out.add('growth')
        if self.grid_form:
            out.add('grid')
        if self.tree_form in ('inline', 'ref'):
            out |= {'heights', 'samp'}
        elif self.tree_form == 'ratio':
            # no 'samp': internal heights are expressions of the tree's own sampling times there
            out |= {'ratios', 'root'}
        elif self.tree_form == 'times':
            out.add('samp')
        return out

    # ---- names
    def theta_names(self, gen, row):
        base = 'lth' if self.theta_form == 'texp' else 'theta'
        return [nm(f'{base}{k}', gen, row) for k in range(self.ntheta)]

    def growth_names(self, gen, row):
        if self.spec.get('growth') == 1:
            return [nm('growth', gen, row)]
        return [nm(f'growth{k}', gen, row) for k in range(self.ngrowth)]

    def grid_names(self, gen):
        return [nm(f'g{k}', gen) for k in range(self.G)]

    def samp_names(self, gen):
        return [nm(f's{i}', gen) for i in range(self.n)]

    def height_names(self, gen, row):
        return [nm(f'c{j}', gen, row) for j in range(self.n - 1)]

    def ratio_names(self, gen, row):
        return [nm(f'r{j}', gen, row) for j in range(self.n - 2)]

    def interval_names(self):
        return [f'iv{k}' for k in range(2 * self.n - 2)]

    def grid_constants(self):
        # 'cutoff' form: torch.linspace(0, cutoff, ntheta)[1:]
        c = self.task.get('cutoff', 1.5 * self.G)
        return [c * (k + 1) / self.G for k in range(self.G)]

    # ---- initial witness
    def symbols(self):
        W = {}
        n = self.n
        if self.tree_form == 'times':
            pos_s = [p for p, e in enumerate(self.events) if e == 1]
            pos_c = [p for p, e in enumerate(self.events) if e == 0]
            for g in range(self.ngen['samp']):
                for i, p in enumerate(pos_s):
                    W[nm(f's{i}', g)] = 0.5 * p + 0.1 * g
            for j, p in enumerate(pos_c):
                W[nm(f'c{j}')] = 0.5 * p + 0.05
            top = 0.5 * len(self.events)
        elif self.tree_form == 'intervals':
            for k, name in enumerate(self.interval_names()):
                W[name] = 0.5 + 0.1 * k
            top = 5.0
        else:
            for g in range(self.ngen['samp']):
                for rank, i in enumerate(self.perm):
                    W[nm(f's{i}', g)] = 0.5 * rank + 0.05 * g
            top = 0.5 * (n - 1) + 0.2
            if self.tree_form == 'ratio':
                for g in range(self.ngen['ratios']):
                    for r in self.rows_heights:
                        for j, name in enumerate(self.ratio_names(g, r)):
                            W[name] = (0.05 + 0.01 * g + 0.01 * (r or 0)) if self.side == 'below' else \
                                (0.4 + 0.1 * j + 0.05 * g + 0.07 * (r or 0))
                for g in range(self.ngen['root']):
                    for r in self.rows_heights:
                        W[nm('root', g, r)] = top + 2.0 + 0.5 * g + 0.3 * (r or 0)
            else:
                for g in range(self.ngen['heights']):
                    for r in self.rows_heights:
                        for j, name in enumerate(self.height_names(g, r)):
                            W[name] = top + 1.0 + j + 0.25 * g + 0.1 * (r or 0)
        for g in range(self.ngen['theta']):
            for r in self.rows_theta:
                for k, name in enumerate(self.theta_names(g, r)):
                    W[name] = (0.3 + 0.2 * k + 0.1 * g + 0.15 * (r or 0)) if self.theta_form == 'texp' else \
                        (1.5 + k + 0.25 * g + 0.5 * (r or 0))
        for g in range(self.ngen['growth']):
            for r in self.rows_theta:
                for k, name in enumerate(self.growth_names(g, r)):
                    W[name] = (0.5 if self.ngrowth == 1 else 0.3 + 0.2 * k) + 0.1 * g + 0.2 * (r or 0)
        for g in self.grid_gens():
            for k, name in enumerate(self.grid_names(g)):
                W[name] = 0.7 + 1.1 * k + 0.15 * g
        return W

    def grid_gens(self):
        """generations of the grid that are symbols ('cutoff' form: generation 0 is the constant linspace grid)"""
        if not self.grid_form:
            return []
        return list(range(1 if self.grid_form == 'cutoff' else 0, self.ngen['grid']))

    # ---- the generations that are current at each evaluation: [(gens, explicit sampling generation or None)]
    def snapshots(self):
        gens = {k: 0 for k in UPDATE_LABEL}
        out = [(dict(gens), None)]
        for u in self.hist:
            for k in u:
                gens[k] += 1
            out.append((dict(gens), gens['samp'] if 'samp' in u else None))
        return out

    # ---- domain
    def domain(self, d, V):
        cs = []
        n = self.n
        for name in V:
            if name.startswith('theta') or (name.startswith('g') and not name.startswith('growth')):
                cs.append(d.lt(0, V[name]))
            elif name.startswith('growth'):
                cs.append(d.not_(d.eq(V[name], 0)))
            elif name.startswith('s') or name.startswith('iv'):
                cs.append(d.le(0, V[name]))
            elif name.startswith('r') and not name.startswith('root'):
                cs += [d.le(0, V[name]), d.le(V[name], 1)]
            elif name.startswith('lth'):
                # theta = exp(lth) must stay a positive double at every witness (exp underflows to 0 below about -745)
                cs += [d.le(d.const(-LTH_BOUND), V[name]), d.le(V[name], d.const(LTH_BOUND))]
        for g in self.grid_gens():
            names = self.grid_names(g)
            for a, b in zip(names, names[1:]):
                cs.append((d.lt if self.spec.get('strict_grid') else d.le)(V[a], V[b]))
        if self.tree_form == 'times':
            for g in range(self.ngen['samp']):
                it_s, it_c = iter(self.samp_names(g)), iter(self.height_names(0, None))
                seq = [V[next(it_s)] if e == 1 else V[next(it_c)] for e in self.events]
                cs += [d.le(a, b) for a, b in zip(seq, seq[1:])]
        elif self.tree_form != 'intervals':
            _, children = index_tree(self.topology, n)
            for g in range(self.ngen['samp']):
                cs += [d.le(V[nm(f's{a}', g)], V[nm(f's{b}', g)]) for a, b in zip(self.perm, self.perm[1:])]
            if self.tree_form == 'ratio':
                for g in range(self.ngen['root']):
                    for r in self.rows_heights:
                        for sg in range(self.ngen['samp']):
                            cs += [d.le(V[s_], V[nm('root', g, r)]) for s_ in self.samp_names(sg)]
                if self.side:
                    s0, s1, s2 = (V[x] for x in self.samp_names(0))
                    b = d.ite(d.le(s0, s1), s1, s0)
                    combos = {(gens['ratios'], gens['root']) for gens, _ in self.snapshots()}
                    for rg, og in sorted(combos):
                        for r in self.rows_heights:
                            c0 = d.add(b, d.mul(V[nm('r0', rg, r)], d.sub(V[nm('root', og, r)], b)))
                            cs.append(d.le(c0, s2) if self.side == 'below' else d.le(s2, c0))
            else:
                # every (sampling generation, height generation) pair that meets in an evaluation: parents above children
                pairs = set()
                for gens, explicit in self.snapshots():
                    pairs.add((0, gens['heights']))
                    if explicit is not None:
                        pairs.add((explicit, gens['heights']))
                for sg, hg in sorted(pairs):
                    for r in self.rows_heights:
                        h = {i: V[nm(f's{i}', sg)] for i in range(n)}
                        h.update({n + j: V[x] for j, x in enumerate(self.height_names(hg, r))})
                        for p, kids in children.items():
                            cs += [d.le(h[c], h[p]) for c in kids]
        if self.generic:
            cs += self.generic_constraints(d, V)
        return cs

    def generic_constraints(self, d, V):
        cs = []
        base = 'lth' if self.theta_form == 'texp' else 'theta'
        for g in range(self.ngen['theta']):
            for r in self.rows_theta:
                names = self.theta_names(g, r)
                cs += [d.not_(d.eq(V[a], V[b])) for a, b in zip(names, names[1:])]
        seen = set()
        for gens, explicit in self.snapshots():
            for sg in {0, explicit} - {None}:
                for r in self.rows_heights:
                    ev = self.samp_names(sg) + self.height_names(0 if self.data_form else gens['heights'], r)
                    grid = self.grid_names(gens['grid']) if gens['grid'] in self.grid_gens() else []
                    for a, b in itertools.combinations(ev, 2):
                        if (a, b) not in seen:
                            seen.add((a, b))
                            cs.append(d.not_(d.eq(V[a], V[b])))
                    for a in grid:
                        for b in ev:
                            if (a, b) not in seen:
                                seen.add((a, b))
                                cs.append(d.not_(d.eq(V[a], V[b])))
        return cs

    # ---- the oracle's view of the current symbols: standard names -> scalars
    def par(self, be, gens, row, samp_gen=0):
        n = self.n
        rt = row if self.batch in ('theta', 'both') else None
        rh = row if self.batch in ('heights', 'both') else None
        P = {}
        if self.tree_form == 'intervals':
            acc, times = 0.0, [0.0]
            for name in self.interval_names():
                acc = acc + be.scalar(name)
                times.append(acc)
            it = iter(times)
            seq = [(e, next(it)) for e in self.events]
            S = [x for e, x in seq if e == 1]
            C = [x for e, x in seq if e == 0]
        else:
            S = [be.scalar(x) for x in self.samp_names(samp_gen)]
            if self.tree_form == 'ratio':
                # the bounds of the ratio transform are the tree's own sampling times (generation 0)
                S0 = [be.scalar(x) for x in self.samp_names(0)]
                C = ratio_heights(self.topology, n, S0, [be.scalar(x) for x in self.ratio_names(gens['ratios'], rh)],
                                  be.scalar(nm('root', gens['root'], rh)))
            else:
                C = [be.scalar(x) for x in self.height_names(gens['heights'] if not self.data_form else 0, rh)]
        for i, x in enumerate(S):
            P[f's{i}'] = x
        for j, x in enumerate(C):
            P[f'c{j}'] = x
        for k, name in enumerate(self.theta_names(gens['theta'], rt)):
            P[f'theta{k}'] = be.math.exp(be.scalar(name)) if self.theta_form == 'texp' else be.scalar(name)
        for k, name in enumerate(self.growth_names(gens['growth'], rt)):
            P['growth' if self.ngrowth == 1 else f'growth{k}'] = be.scalar(name)
        if self.grid_form == 'cutoff' and gens['grid'] == 0:
            for k, v in enumerate(self.grid_constants()):
                P[f'g{k}'] = v
        elif self.grid_form:
            for k, name in enumerate(self.grid_names(gens['grid'])):
                P[f'g{k}'] = be.scalar(name)
        if self.model == 'integrated':
            P['alpha'], P['beta'] = ALPHA, BETA
        return P

    def describe(self):
        t = self.task
        hist = ' ; '.join('+'.join(u) for u in self.hist) or 'none'
        where = f'events={"".join(map(str, self.events))}' if self.data_form else f'sampling-order={self.perm}'
        return (f'{self.spec["type"]} n={self.n} G={self.G} theta:{self.theta_form} tree:{self.tree_form}'
                + (f' grid:{self.grid_form}' if self.grid_form else '') + f' {where}'
                + (f' batched:{self.batch}' if self.batch else '') + (' [generic stratum]' if self.generic else '')
                + (f' [cherry {self.side} t2]' if self.side else '')
                + f' updates=[{hist}]')


class SymBackend:
    """symbols of the current trace"""

    def __init__(self, V):
        from symtorch import SymMath

        self.V = V
        self.math = SymMath()
        self.flat = lambda na, nb: nb == na  # symbolic comparison -> path condition

    def scalar(self, name):
        return mkfloat(self.V[name])

    def tensor(self, names):
        from symtorch import from_ids

        f = lambda x: [f(y) for y in x] if isinstance(x, list) else self.V[x]  # noqa: E731
        return from_ids(torch.tensor(f(names), dtype=torch.int64))


class NumBackend:
    """plain floats / plain torch tensors (replay on the real code)"""

    def __init__(self, vals):
        import math

        self.vals = vals
        self.math = math
        self.flat = None

    def scalar(self, name):
        return float(self.vals[name])

    def tensor(self, names):
        f = lambda x: [f(y) for y in x] if isinstance(x, list) else float(self.vals[x])  # noqa: E731
        return torch.tensor(f(names), dtype=torch.float64)


def _register_types():
    import torchtree.core.parameter  # noqa
    import torchtree.evolution.coalescent  # noqa
    import torchtree.evolution.taxa  # noqa
    import torchtree.evolution.tree_model  # noqa


def wrap_build(case, be):
    """the model object, built through the JSON form of the case by the real from_json methods"""
    from torchtree.core.utils import process_object

    _register_types()
    n = case.n
    dic = {}
    spec = case.spec
    js = {'id': 'm', 'type': spec['type']}
    # ---- population parameters
    def place(key, obj):
        if case.theta_form == 'ref':
            process_object(obj, dic)
            js[key] = obj['id']
        else:
            js[key] = obj

    if case.ntheta:
        if case.theta_form == 'texp':
            js['theta'] = {'id': 'theta', 'type': 'TransformedParameter', 'transform': 'torch.distributions.ExpTransform',
                           'x': {'id': 'logtheta', 'type': 'Parameter', 'tensor': [0.0] * case.ntheta}}
        else:
            place('theta', {'id': 'theta', 'type': 'Parameter', 'tensor': [1.0] * case.ntheta})
    if case.ngrowth:
        place('growth', {'id': 'growth', 'type': 'Parameter', 'tensor': [0.1] * case.ngrowth})
    if case.model == 'integrated':
        js['alpha'], js['beta'] = ALPHA, BETA
    # ---- grid
    if case.grid_form in ('param', 'ref'):
        g = {'id': 'grid', 'type': 'Parameter', 'tensor': [1.0 + k for k in range(case.G)]}
        if case.grid_form == 'ref':
            process_object(g, dic)
            js['grid'] = 'grid'
        else:
            js['grid'] = g
    elif case.grid_form == 'list':
        js['grid'] = [be.scalar(x) for x in case.grid_names(0)]  # read by torch.tensor(list) inside from_json
    elif case.grid_form == 'cutoff':
        js['cutoff'] = case.task.get('cutoff', 1.5 * case.G)
    # ---- tree / node heights
    if case.tree_form == 'times':
        it_s, it_c = iter(case.samp_names(0)), iter(case.height_names(0, None))
        js['times'] = [be.scalar(next(it_s) if e == 1 else next(it_c)) for e in case.events]
        js['events'] = list(case.events)
    elif case.tree_form == 'intervals':
        js['intervals'] = [be.scalar(x) for x in case.interval_names()]
        js['events'] = list(case.events)
    else:
        taxa = {'id': 'taxa', 'type': 'Taxa', 'taxa': [{'id': f't{i}', 'type': 'Taxon', 'attributes': {'date': 0.0}}
                                                       for i in range(n)]}
        if case.tree_form == 'ratio':
            tree = {'id': 'tree', 'type': 'ReparameterizedTimeTreeModel', 'newick': newick(case.topology) + ';',
                    'ratios': {'id': 'tree.ratios', 'type': 'Parameter', 'tensor': [0.5] * (n - 2)},
                    'root_height': {'id': 'tree.root_height', 'type': 'Parameter', 'tensor': [10.0]}, 'taxa': taxa}
        else:
            tree = {'id': 'tree', 'type': 'TimeTreeModel', 'newick': newick(case.topology) + ';',
                    'internal_heights': {'id': 'tree.heights', 'type': 'Parameter', 'tensor': [1.0 + i for i in range(n - 1)]},
                    'taxa': taxa}
        if case.tree_form == 'ref':
            process_object(tree, dic)
            js['tree_model'] = 'tree'
        else:
            js['tree_model'] = tree
    model = process_object(js, dic)
    if not case.data_form:
        tree = dic['tree']
        tree.sampling_times = be.tensor(case.samp_names(0))  # as C06 / C07: the tip dates of the tree become symbols
        if case.tree_form == 'ratio':
            tree.transform.update_bounds()
    return model, dic


def wrap_assign(case, be, model, dic, kind, gen):
    """replace the tensor of one kind of parameter by generation `gen` of its symbols (public setter: listeners fire)"""
    def rows(namefn, rws):
        return [namefn(gen, r) for r in rws] if rws != [None] else namefn(gen, None)

    if kind == 'theta':
        target = dic['logtheta'] if case.theta_form == 'texp' else dic['theta']
        target.tensor = be.tensor(rows(case.theta_names, case.rows_theta))
    elif kind == 'growth':
        dic['growth'].tensor = be.tensor(rows(case.growth_names, case.rows_theta))
    elif kind == 'grid':
        # 'list' / 'cutoff' forms have no id: the grid is the public attribute `grid` of the model
        (dic['grid'] if case.grid_form in ('param', 'ref') else model.grid).tensor = be.tensor(case.grid_names(gen))
    elif kind == 'heights':
        dic['tree.heights'].tensor = be.tensor(rows(case.height_names, case.rows_heights))
    elif kind == 'ratios':
        dic['tree.ratios'].tensor = be.tensor(rows(case.ratio_names, case.rows_heights))
    elif kind == 'root':
        dic['tree.root_height'].tensor = be.tensor(rows(lambda g, r: [nm('root', g, r)], case.rows_heights))
    else:
        raise KeyError(kind)


def wrap_drive(case, be):
    """Run the history.  Returns [(label, signature, value | exception, [oracle parameters per sample])]."""
    from symtorch import EngineError

    model, dic = wrap_build(case, be)
    typ = case.spec['type']
    n = case.n
    # generation 0 of every parameter (the JSON carried placeholders; data forms / grid lists carried the symbols themselves)
    init = []
    if case.ntheta:
        init.append('theta')
    if case.ngrowth:
        init.append('growth')
    if case.grid_form in ('param', 'ref'):
        init.append('grid')
    if case.tree_form in ('inline', 'ref'):
        init.append('heights')
    elif case.tree_form == 'ratio':
        init += ['ratios', 'root']
    for kind in init:
        wrap_assign(case, be, model, dic, kind, 0)
    evals = []

    def observe(label, sig, fn, gens, samp_gen=0):
        try:
            v = fn()
        except EngineError:
            raise
        except Exception as e:  # the real code raised on an in-domain input
            v = e
        evals.append((label, sig, v, [case.par(be, gens, r, samp_gen) for r in case.rows]))

    snaps = case.snapshots()
    for step, (gens, explicit) in enumerate(snaps):
        if step:
            for kind in case.hist[step - 1]:
                if kind != 'samp':
                    wrap_assign(case, be, model, dic, kind, gens[kind])
        after = 'build' if not step else 'update ' + str(step) + ' (' + ', '.join(case.hist[step - 1]) + ')'
        last = 'build' if not step else '+'.join(case.hist[step - 1])
        observe(f'{typ}() after {after} == Kingman oracle at the current symbols', f'{typ}.__call__:after:{last}',
                lambda: model(), gens)
        observe(f'{typ}.distribution().log_prob(tree_model.node_heights) after {after} == Kingman oracle at the current symbols',
                f'{typ}.distribution().log_prob:after:{last}',
                lambda: model.distribution().log_prob(model.tree_model.node_heights), gens)
        if explicit is not None:
            def explicit_call():
                h = torch.cat((be.tensor(case.samp_names(explicit)), model.tree_model.node_heights[..., n:]), -1)
                return model.distribution().log_prob(h)

            observe(f'{typ}.distribution().log_prob(new sampling times + current internal heights) after {after} == Kingman '
                    f'oracle', f'{typ}.distribution().log_prob:explicit-heights:after:{last}', explicit_call, gens, explicit)
    return evals


WRAP_BOUNDS = (
    'one model object per task, built by the real from_json; evaluated after the build and after every update of a history of '
    '<= 2 (quick) / 3 (thorough) updates, each update = a non-empty subset of {theta, growth, grid, internal heights | ratios, root '
    'height} replaced by fresh symbols through Parameter.tensor = ...; observed: model() and '
    'model.distribution().log_prob(tree_model.node_heights) at every evaluation, plus distribution().log_prob(new sampling times + '
    'current internal heights) for an update of the sampling times (a TimeTreeModel / data-form model has no notifying way to change '
    'its sampling times, so they change through the heights argument only); every evaluation == Kingman oracle at the symbols current '
    'at that point, on every path region of every generation of heights / grid points (coverage certificate per task). '
    'Three taxa on ((t0,t1),t2) (grid model histories that update grid / heights more than once: two taxa; n = 4 caterpillar in the '
    'thorough tier), one inner grid point. JSON forms: theta as inline Parameter / by id / TransformedParameter(ExpTransform, '
    '|log theta| <= 20); tree_model inline / by id / ReparameterizedTimeTreeModel (ratios + root height; the event order cherry-vs-t2 '
    'is a domain split: one task per side) / none with times + events / none with intervals + events (event order fixed per task, '
    'times non-decreasing); grid as Parameter / by id / list / cutoff. Sampling times of tree forms are symbols in a fixed order per '
    'task (quick: (0,1,2) - t2 last, so the interleaved region is enumerated - or (2,1,0); thorough: also (0,2,1) and (2,0,1)). Batched: [2,.] '
    'population parameters and / or [2,.] internal heights (sampling times shared), per-sample oracle; when only one of the two is '
    'batched a raised error is accepted and noted. ConstantCoalescentIntegratedModel: alpha = 2, beta = 1.5 (JSON numbers).')
RAISES_KNOWN = {'pexp': 'PiecewiseExponentialCoalescentGrid.log_prob:raises'}


def wrap_body(case, tr):
    def body(t, V, W):
        d = t.dag
        be = SymBackend(V)
        evals = wrap_drive(case, be)
        goals, seen = [], set()
        nrows = len(case.rows)
        for label, sig, v, pars in evals:
            if isinstance(v, Exception) and case.batch in ('theta', 'heights'):
                # only ONE of population parameters / internal heights carries the sample dimension and the call fails with an
                # error instead of returning a number: accepted (the convention property C10 states for sample shapes), noted
                note = (f'{case.spec["type"]} with batched {case.batch} only ({"heights" if case.batch == "theta" else "theta"} '
                        f'without sample dimension) raises {type(v).__name__}: {str(v)[:90]} - accepted, no value to compare')
                if note not in tr.notes:
                    tr.notes.append(note)
                continue
            if isinstance(v, Exception):
                g = Goal(f'{label}: evaluates (raised {type(v).__name__}: {str(v)[:80]})', d.FALSE,
                         signature=RAISES_KNOWN.get(case.model) if isinstance(v, RuntimeError) and case.model in RAISES_KNOWN
                         else sig + ':raises')
                if g.signature not in seen:
                    seen.add(g.signature)
                    goals.append(g)
                continue
            if not hasattr(v, '_ids') or v._ids.numel() != nrows:
                goals.append(Goal(f'{label}: one value per sample (shape {tuple(v.shape)})', d.FALSE, signature=sig + ':shape'))
                continue
            ids = v._ids.reshape(-1).tolist()
            for r, (iid, P) in enumerate(zip(ids, pars)):
                orc = numeric_oracle(case.model, case.n, case.G, P, math=be.math, flat=be.flat)
                goal = d.eq(int(iid), SymFloat._id(orc))
                if goal in seen:
                    continue  # the very same expression was already compared with the very same oracle expression
                seen.add(goal)
                lab = label + (f' [sample {r}]' if nrows > 1 else '')
                if case.model == 'plinear':
                    goals.append(plinear_goal(t, d, goal, case.domain(d, V), lab, sig))
                else:
                    goals.append(Goal(lab, goal, hyps=ground_axioms(d, [goal]), signature=sig))
        if case.model != 'plinear' and len(goals) > 1 and all(g.node != d.FALSE for g in goals):
            # one solver query for the conjunction of all evaluations of the history on this region; only when it is not
            # proved are the evaluations handed to the explorer one by one (precise signature, smaller queries)
            from symtorch.explore import prove

            conj = d.and_(*[g.node for g in goals])
            st, _, _ = prove(d, case.domain(d, V) + list(t.pcs) + ground_axioms(d, [conj]), conj, timeout=30.0, tr=tr,
                             label='conjunction of the evaluations of a history')
            if st == 'proved':
                return [Goal(f'all {len(goals)} evaluations of the history == Kingman oracle at the symbols current at each of them '
                             f'(proved as one conjunction)', d.TRUE)]
        return goals

    return body


def plinear_goal(t, d, goal, basic, label, signature):
    """lemma chaining of body_plinear for one goal: log arguments that agree at the witness are first proved equal on the
    region, the goal is then also offered with every proved-equal sub-term replaced by its representative"""
    lemmas = log_congruence_lemmas(d, goal, list(basic) + list(t.pcs), t_budget=10.0)
    mapping = {d.args[e][1]: d.args[e][0] for e in lemmas if d.ops[e] == 'eq'}
    alts = []
    if mapping:
        g2 = d.substitute([goal], mapping)[0]
        if g2 != goal:
            alts.append(g2)
    return Goal(label, goal, hyps=ground_axioms(d, [goal] + alts) + lemmas, signature=signature, alts=alts)


def wrap_replay(task, vals):
    """The same history on the real code with plain torch tensors against the numeric oracle."""
    case = WrapCase(task)
    full = case.symbols()
    full.update({k: v for k, v in vals.items() if v is not None})
    be = NumBackend(full)
    try:
        evals = wrap_drive(case, be)
    except Exception as e:
        return True, f'real code raised {type(e).__name__}: {e} while the model was built'
    bad = []
    for label, sig, v, pars in evals:
        if isinstance(v, Exception):
            if case.batch not in ('theta', 'heights'):
                bad.append(f'{label}: real code raised {type(v).__name__}: {v}')
            continue
        flat = v.detach().reshape(-1).tolist()
        if len(flat) != len(pars):
            bad.append(f'{label}: {len(flat)} values for {len(pars)} samples (shape {tuple(v.shape)})')
            continue
        for r, (rv, P) in enumerate(zip(flat, pars)):
            ov = float(numeric_oracle(case.model, case.n, case.G, P))
            if not (abs(rv - ov) <= 1e-8 * max(1.0, abs(ov))):
                bad.append(f'{label}' + (f' [sample {r}]' if len(pars) > 1 else '') + f': real={rv!r} oracle={ov!r}')
    if bad:
        return True, ' | '.join(bad[:3])
    return False, f'{len(evals)} evaluations agree with the oracle'


def run_wrap_task(task, tr):
    import symtorch.ext_c08  # noqa: torch.unique(dim=) on batched sampling times
    from torchtree.evolution import coalescent as co
    from torchtree.core.model import CallableModel

    case = WrapCase(task)
    cls = getattr(co, case.spec['type'])
    dist = getattr(co, case.spec['dist'])
    tr.fn(cls.from_json, cls.distribution, getattr(cls, '_call'), CallableModel.__call__, dist.log_prob)
    if case.data_form:
        tr.fn(co.process_data_coalesent, co.FakeTreeModel)
    label = case.describe()
    ex = Explorer(case.symbols(), case.domain, wrap_body(case, tr), tr, max_regions=task.get('budget', 1500), timeout=30.0,
                  label=label, deadline=time.time() + task_deadline(), parallel=(case.model == 'plinear'))
    out = ex.run()
    for s in out.region_samples[:1]:
        s['model'] = label
        tr.sample(s)
    tr.bounds['model wrappers (one model object across parameter updates)'] = WRAP_BOUNDS
    if case.model == 'plinear':
        tr.bounds['PiecewiseLinearCoalescentGridModel (model object across updates): size'] = (
            'two taxa, one inner grid point (thorough: also the interleaved three-taxon event order in the data form); histories and '
            'batched calls on the generic stratum only (no two events at one time, no grid point on an event, theta_0 != theta_1; '
            'quick: updates of grid / theta / heights one at a time, thorough: pairs and the joint update); the closed domain (ties, '
            'flat segments) without update in the thorough tier; theta as TransformedParameter is outside (undecided within the timeout)')
    triage(out, lambda vals: wrap_replay(task, vals), tr, label, {'wrapper': task})


def task_deadline():
    """wall-clock limit of one region enumeration (s): the machine is shared, the thorough tier's largest enumerations
    (skygrid n = 4: ~1500 regions per sampling order) need more than 1500 s when it is busy"""
    import os

    return 1500 if os.environ.get('VERIF_TIER', 'quick') == 'quick' else 5400


def run_task(task, tr):
    if isinstance(task, dict):
        return run_wrap_task(task, tr)
    model, n, G, perm, budget = task[:5]
    mode = task[5] if len(task) > 5 else None
    spec = MODELS[model]
    body, fns = spec['mk'](n, G)
    tr.fn(*fns)
    ntheta = spec['ntheta'](n, G)
    has_grid = model == 'skygrid' or spec.get('grid')
    W = initial_witness(n, perm, G if has_grid else 0, ntheta, growth=spec.get('growth', False))
    if spec.get('growths'):
        for k in range(G + 1):
            W[f'growth{k}'] = 0.3 + 0.2 * k

    if mode == 'interleaved':
        W['c0'] = 0.5 * (W[f's{perm[-2]}'] + W[f's{perm[-1]}'])

    def domain(d, V):
        extra = order_constraint(d, V, perm)
        for g in range(G if has_grid else 0):
            extra.append(d.lt(0, V[f'g{g}']))
            if g:
                extra.append((d.lt if model in ('plinear', 'pexp') else d.le)(V[f'g{g-1}'], V[f'g{g}']))
        if spec.get('growths'):
            extra += [d.not_(d.eq(V[f'growth{k}'], 0)) for k in range(G + 1)]
        if spec.get('growth'):
            extra.append(d.not_(d.eq(V['growth'], 0)))
        if mode == 'interleaved':
            # serially sampled: the last tip is OLDER than the first coalescence (s.. <= c0 <= s_last <= c1 <= ..), in the generic
            # stratum (no two events at the same time, no grid point on an event, consecutive population sizes different)
            seq = [V[f's{i}'] for i in perm[:-1]] + [V['c0'], V[f's{perm[-1]}']] + [V[f'c{j}'] for j in range(1, n - 1)]
            extra += [d.lt(a, b) for a, b in zip(seq, seq[1:])]
            extra += [d.not_(d.eq(V[f'g{g}'], x)) for g in range(G if has_grid else 0) for x in seq]
            extra += [d.not_(d.eq(V[f'theta{k}'], V[f'theta{k + 1}'])) for k in range(ntheta - 1)]
        return coalescent_domain(d, V, n, extra)

    label = f'{model} n={n} G={G} sampling-order={perm}' + (f' [{mode}]' if mode else '')
    ex = Explorer(W, domain, body, tr, max_regions=budget, timeout=30.0, label=label,
                  deadline=time.time() + task_deadline(), parallel=(model == 'plinear'))
    out = ex.run()
    if mode == 'interleaved':
        tr.bounds[f'{model} (serially sampled, interleaved)'] = (
            f'n={n}, grid points<={G}, one task per sampling order: the last tip is older than the first coalescence '
            f'(s.. < c0 < s_last < c1), generic stratum of that event order (no two events at one time, no grid point on an event, '
            f'consecutive population sizes different), grid points anywhere')
    else:
        tr.bounds[f'{model}'] = f'n<={n}, grid points<={G}, all sampling-time orders (one task per order)'
    for s in out.region_samples[:1]:
        s['model'] = label
        tr.sample(s)
    triage(out, lambda vals: replay(model, n, G, vals), tr, label, {'model': model, 'n': n, 'G': G})


# ---------------------------------------------------------------- replay
def numeric_oracle(model, n, G, vals, math=None, flat=None):
    """The Kingman event-list oracle on a dict of named scalars.  By default plain floats and the `math` module (replays);
    the wrapper section passes SymFloats with `math` = SymM (uninterpreted log / exp) and a symbolic flatness test."""
    if math is None:
        import math
    if flat is None:
        flat = lambda na, nb: abs(nb - na) < 1e-14  # noqa: E731

    S = [vals[f's{i}'] for i in range(n)]
    C = [vals[f'c{j}'] for j in range(n - 1)]
    if model == 'constant':
        th = vals['theta0']
        return kingman_oracle(S, C, [], lambda p, a, b: (b - a) / th, lambda p, c: math.log(th))
    if model == 'skyride':
        th = [vals[f'theta{k}'] for k in range(n - 1)]
        return kingman_oracle(S, C, list(C), lambda p, a, b: (b - a) / th[min(p, n - 2)],
                              lambda p, c: math.log(th[p]), log_by_rank=True)
    if model == 'skygrid':
        th = [vals[f'theta{k}'] for k in range(G + 1)]
        gr = [vals[f'g{k}'] for k in range(G)]
        return kingman_oracle(S, C, gr, lambda p, a, b: (b - a) / th[p], lambda p, c: math.log(th[p]))
    if model == 'exponential':
        th, g = vals['theta0'], vals['growth']
        return kingman_oracle(S, C, [], lambda p, a, b: (math.exp(g * b) - math.exp(g * a)) / (th * g),
                              lambda p, c: math.log(th) - g * c)
    if model == 'plinear':
        th = [vals[f'theta{k}'] for k in range(G + 1)]
        gr = [0.0] + [vals[f'g{k}'] for k in range(G)]

        def N(p, x):
            if p >= G:
                return th[G]
            return th[p] + (th[p + 1] - th[p]) * (x - gr[p]) / (gr[p + 1] - gr[p])

        def integ(p, a, b):
            if p >= G:
                return (b - a) / th[G]
            na, nb = N(p, a), N(p, b)
            if flat(na, nb):
                return (b - a) / na
            return (b - a) * (math.log(nb) - math.log(na)) / (nb - na)

        return kingman_oracle(S, C, gr[1:], integ, lambda p, c: math.log(N(p, c)))
    if model == 'integrated':
        # constant population size integrated against an inverse-gamma(alpha, beta) prior (documented closed form):
        # alpha log(beta) - lgamma(alpha) + lgamma(alpha + n - 1) - (alpha + n - 1) log(beta + sum_k C(k,2) * interval_k)
        import math as _m

        alpha, beta = vals['alpha'], vals['beta']
        stat = -kingman_oracle(S, C, [], lambda p, a, b: (b - a), lambda p, c: 0.0)
        return alpha * _m.log(beta) - _m.lgamma(alpha) + _m.lgamma(alpha + n - 1) - (alpha + n - 1) * math.log(beta + stat)
    if model == 'pexp':
        th = [vals[f'theta{k}'] for k in range(G + 1)]
        gw = [vals[f'growth{k}'] for k in range(G + 1)]
        gr = [0.0] + [vals[f'g{k}'] for k in range(G)]
        return kingman_oracle(S, C, gr[1:],
                              lambda p, a, b: (math.exp(gw[p] * (b - gr[p])) - math.exp(gw[p] * (a - gr[p]))) / (th[p] * gw[p]),
                              lambda p, c: math.log(th[p]) - gw[p] * (c - gr[p]))
    raise KeyError(model)


def real_value(model, n, G, vals):
    from torchtree.evolution import coalescent as co

    h = torch.tensor([vals[f's{i}'] for i in range(n)] + [vals[f'c{j}'] for j in range(n - 1)], dtype=torch.float64)
    if model == 'constant':
        return float(co.ConstantCoalescent(torch.tensor([vals['theta0']], dtype=torch.float64)).log_prob(h))
    if model == 'skyride':
        th = torch.tensor([vals[f'theta{k}'] for k in range(n - 1)], dtype=torch.float64)
        return float(co.PiecewiseConstantCoalescent(th).log_prob(h))
    if model == 'skygrid':
        th = torch.tensor([vals[f'theta{k}'] for k in range(G + 1)], dtype=torch.float64)
        gr = torch.tensor([vals[f'g{k}'] for k in range(G)], dtype=torch.float64)
        return float(co.PiecewiseConstantCoalescentGrid(th, gr).log_prob(h))
    if model == 'exponential':
        return float(co.ExponentialCoalescent(torch.tensor([vals['theta0']], dtype=torch.float64),
                                              torch.tensor([vals['growth']], dtype=torch.float64)).log_prob(h))
    if model in ('plinear', 'pexp'):
        th = torch.tensor([vals[f'theta{k}'] for k in range(G + 1)], dtype=torch.float64)
        gr = torch.tensor([vals[f'g{k}'] for k in range(G)], dtype=torch.float64)
        if model == 'plinear':
            return float(co.PiecewiseLinearCoalescentGrid(th, gr).log_prob(h))
        gw = torch.tensor([vals[f'growth{k}'] for k in range(G + 1)], dtype=torch.float64)
        return float(co.PiecewiseExponentialCoalescentGrid(th, gw, gr).log_prob(h))
    raise KeyError(model)


def replay(model, n, G, vals):
    """Plain torch tensors through the real code vs the numeric oracle."""
    try:
        rv = real_value(model, n, G, vals)
    except Exception as e:  # real code raises on an in-domain input
        return True, f'real code raised {type(e).__name__}: {e}'
    ov = float(numeric_oracle(model, n, G, vals))
    if not (abs(rv - ov) <= 1e-8 * max(1.0, abs(ov))):
        return True, f'real={rv!r} oracle={ov!r}'
    return False, f'real={rv!r} oracle={ov!r} agree'


def tasks_for(tier):
    ts = []
    if tier == 'quick':
        plan = [('constant', 3, 0, 60), ('skyride', 3, 0, 60), ('skygrid', 3, 1, 120), ('exponential', 3, 0, 60),
                ('pexp', 3, 1, 60)]
    else:
        plan = [('constant', 4, 0, 400), ('skyride', 4, 0, 400), ('skygrid', 3, 2, 400), ('skygrid', 4, 1, 1600),
                ('exponential', 4, 0, 400), ('pexp', 3, 1, 60),
                # two taxa, two inner grid points: the smallest instance in which a flat inner segment differs from the last one
                ('plinear', 2, 2, 300)]
    for model, n, G, budget in plan:
        for perm in itertools.permutations(range(n)):
            ts.append((model, n, G, perm, budget))
    # serially sampled trees in which a tip is older than the first coalescence, piecewise-linear model at n = 3 (the full closed
    # domain does not finish at n = 3): one task per sampling order, generic stratum of that event order, grid point anywhere
    for perm in itertools.permutations(range(3)):
        ts.append(('plinear', 3, 1, perm, 100, 'interleaved'))
    return wrapper_tasks(tier) + ts


def _pairs(kinds):
    return [((a,), (b,)) for a in kinds for b in kinds]


def _triples(kinds):
    """three single updates in a row: consecutive ones different, plus the same one three times"""
    return [((a,), (b,), (c,)) for a in kinds for b in kinds for c in kinds if (a != b and b != c) or a == b == c]


def wrapper_tasks(tier):
    """histories x JSON forms x batch shapes for the `...Model` wrappers.  A history of two updates with an evaluation after each
    contains the one-update history as a prefix, so quick = all ordered pairs of single-parameter updates + joint updates.
    Sampling order (0,1,2) on ((t0,t1),t2) makes t2 the last tip: the region in which t2 is older than the first coalescence
    (serially sampled, interleaved) is one of the regions the explorer enumerates; order (2,1,0) has one event order only.
    thorough = the quick plan + t2 in the middle / first of the sampling order, three-update histories, more forms x orders,
    four taxa, the piecewise-linear histories the quick tier leaves out."""
    quick = tier == 'quick'
    ts = []

    def add(model, hist=(), **kw):
        t = dict(model=model, n=3, G=1 if WRAPPERS[model].get('grid') else 0, hist=tuple(hist))
        t.update(kw)
        if t.get('tree') == 'ratio' and t['n'] == 3 and tuple(t['perm'])[-1] == 2 and 'side' not in t:
            for side in ('below', 'above'):
                ts.append(dict(t, side=side))
        else:
            ts.append(t)

    inter, plain = (0, 1, 2), (2, 1, 0)
    more = [] if quick else [(0, 2, 1), (2, 0, 1), plain]  # t2 in the middle / first; the mirrored single-order case
    seqs3 = [(1, 1, 0, 1, 0), (1, 1, 1, 0, 0)]  # the two valid event orders of three taxa; the first one is interleaved
    for model in ('constant', 'exponential', 'skyride', 'skygrid'):
        sp = WRAPPERS[model]
        grid = bool(sp.get('grid'))
        pop = ['theta'] + (['growth'] if sp.get('growth') else [])
        last = pop[-1]
        gl = {'grid': 'list'} if grid else {}
        gr = {'grid': 'ref'} if grid else {}
        # with a grid every generation of heights / grid points multiplies the grid positions: the grid model's histories
        # run on two taxa (tree forms) and on the interleaved three-taxon event order (data form)
        small = dict(n=2, perm=(0, 1)) if grid else dict(perm=inter)
        # ---- (1) histories on a TimeTreeModel: population parameters, grid and internal heights
        kinds = pop + (['grid'] if grid else []) + ['heights']
        hists = _pairs(kinds) + [(tuple(kinds),), (('samp',), ('heights',)), (('heights', 'samp'), ('theta',))]
        if len(pop) > 1:
            hists += [(tuple(pop),), (tuple(pop), ('heights',)), (('theta', 'heights'),), (('growth', 'heights'),)]
        if grid:
            hists += [(('theta', 'grid'),), (('grid', 'heights'),)]
        for h in hists:
            add(model, h, **small)
            for perm in more:
                if not grid:
                    add(model, h, perm=perm)
                elif perm != plain:
                    add(model, h, n=2, perm=(1, 0))
                    break
        if not quick:
            for h in _triples(kinds):
                add(model, h, **small)
        add(model, (tuple(kinds), ('theta',)), **(small if grid else dict(perm=plain)))
        if grid:
            for perm in [inter] + more:
                add(model, (('theta',),), perm=perm)
            for h in [(('grid',), ('theta',))] + ([] if quick else [(('theta',), ('grid',)), (('theta', 'grid'),)]):
                for ev in seqs3[:1] if quick else seqs3:
                    add(model, h, tree='times', events=ev)
        # ---- (2) every documented JSON form, each with a two-update history over what is updatable in that form
        add(model, (('theta',), ('heights',)), theta='ref', tree='ref', **gr, **small)
        add(model, (('heights',), ('theta',)), theta='texp', **small)
        add(model, (('theta',), ('ratios',)), perm=inter, tree='ratio')
        if not (grid and quick):
            add(model, (('ratios', 'root'),), perm=plain, tree='ratio', theta='texp')
        add(model, ((last,), ('theta',)), tree='times', events=seqs3[0], **gl)
        add(model, ((last,), ('theta',)), tree='intervals', events=seqs3[1], theta='texp', **gl)
        if grid:
            add(model, (('theta',), ('grid',)), n=2, perm=(0, 1), grid='list')
            add(model, (('grid',), ('heights',)), n=2, perm=(0, 1), grid='cutoff')
            add(model, (('samp',), ('theta',)), n=2, tree='times', events=(1, 1, 0), grid='cutoff', cutoff=1.2)
        else:
            add(model, ((last,), ('theta',)), tree='times', events=seqs3[1], theta='texp')
            add(model, ((last,), ('theta',)), tree='intervals', events=seqs3[0])
            add(model, (('samp',), ('theta',)), tree='times', events=seqs3[0])
        if not quick:
            add(model, (('heights',), (last,)), theta='ref', tree='ref', **gr, **small)
            add(model, (('root',), (last,)), perm=plain, tree='ratio')
            for perm in more[:2]:
                add(model, (('theta',), ('ratios',)), perm=perm, tree='ratio')
                if not grid:
                    add(model, (('heights',), ('theta',), ('heights',)), perm=perm, theta='texp', tree='ref')
            if not grid:
                add(model, (('theta',), ('ratios',), ('root',)), perm=inter, tree='ratio')
            for ev in seqs3:
                add(model, ((last,), ('theta',), (last,)), tree='times', events=ev, theta='texp', **gl)
                add(model, ((last,), ('theta',), (last,)), tree='intervals', events=ev, **gl)
        # ---- (4) batched model calls: [2, .] population parameters and / or [2, .] internal heights, per-sample oracle
        for batch in ('theta', 'heights', 'both'):
            h = (('theta',),) if batch != 'heights' else (('heights',),)
            add(model, h, batch=batch, **small)
            for perm in more:
                add(model, (('theta',),) if grid else h, perm=perm, batch=batch)
        if not quick or model in ('constant', 'exponential'):
            add(model, ((last,),), tree='ratio', perm=inter, batch='both')
        add(model, ((last,),), tree='times', events=seqs3[0], batch='theta', **gl)
        if not quick and not grid:
            add(model, (('theta',), ('heights',)), n=4, perm=(0, 1, 2, 3))
            add(model, (('theta',), ('heights',)), n=4, perm=(3, 1, 0, 2))
    # ---- piecewise-linear grid model: lemma chaining makes a region ~2 s and the closed domain of a history (ties and flat
    # segments of every generation) does not close within budget: the histories run on two taxa on the generic stratum; the
    # closed domain is covered for the distribution itself (thorough tier, `plinear` n = 2, G = 2) and here without update
    kw = dict(n=2, perm=(0, 1), stratum='generic')
    hh = [(('grid',),)]
    if not quick:
        hh += [(('grid',), ('theta',)), (('theta',), ('grid',)), (('heights',), ('grid',)), (('grid',), ('heights',)),
               (('theta', 'grid', 'heights'),), (('samp',), ('theta',))]
    for h in hh:
        add('plinear', h, **kw)
    add('plinear', (('theta',),), theta='ref', tree='ref', grid='ref', **kw)
    add('plinear', (('heights',),), grid='cutoff', cutoff=1.2, **kw)
    add('plinear', (('theta',),), tree='times', events=(1, 1, 0), grid='list', **dict(kw, perm=None))
    for batch in ('theta', 'both') if quick else ('theta', 'heights', 'both'):
        add('plinear', (), batch=batch, **kw)
    if not quick:
        add('plinear', (('theta',),), tree='times', events=seqs3[0], stratum='generic')
        add('plinear', (), n=2, perm=(0, 1))
    # ---- theta-integrated constant model (alpha, beta are JSON numbers): internal heights are its only parameter
    for perm in [inter] + more:
        add('integrated', (('heights',), ('heights',)), perm=perm)
        add('integrated', (('heights',), ('samp',)), perm=perm, tree='ref')
    add('integrated', (('ratios',), ('root',)), tree='ratio', perm=inter)
    add('integrated', (('ratios', 'root'),), tree='ratio', perm=plain)
    add('integrated', (('heights',),), perm=inter, batch='heights')
    # ---- piecewise-exponential grid model: as far as it runs (it raises on every region: known finding)
    add('pexp', (), n=2, perm=(0, 1))
    add('pexp', (), n=2, tree='times', events=(1, 1, 0), grid='list')
    # long tasks first (the pool takes tasks in this order)
    cost = {'plinear': 0, 'skygrid': 1}
    ts.sort(key=lambda t: (cost.get(t['model'], 2), -t['n'], -len(t['hist'])))
    return ts


def body(chk):
    chk.explanation = ('bounded symbolic execution of the real coalescent log_prob code; path regions = event '
                       'interleavings, enumerated with blocking clauses until the solver certifies coverage; '
                       'on each region impl == independent Kingman event-list oracle is proved for all real '
                       'inputs (QF_NRA + uninterpreted log/exp with ground axiom instances). '
                       'Two layers: (a) the Distribution classes called directly on symbolic heights in any order (all event '
                       'interleavings incl. serially sampled trees with a tip older than a coalescence; piecewise-linear: n = 3 on the '
                       'interleaved event orders, closed domain at n = 2 in the thorough tier); (b) the ...Model wrappers as OBJECTS: '
                       'built through every documented JSON form, evaluated, updated through the parameter setters with fresh symbols and '
                       'evaluated again (histories), unbatched and with a leading sample dimension; every evaluation of model() and '
                       'model.distribution().log_prob(...) is compared with the oracle at the symbols current at that point. A counterexample '
                       'is replayed by rebuilding the model from JSON with plain tensors and re-running the same history.')
    chk.total.assumptions |= {'torch.distributions argument validation switched off (inputs are constrained by the stated domain instead) '
                              'for the direct Distribution calls; the model wrappers run with the library default (validation of theta > 0 on)',
                              'log/exp are uninterpreted functions constrained by ground instances of their algebraic laws',
                              'model wrappers: the tip dates of a TimeTreeModel are made symbolic by assigning tree_model.sampling_times '
                              'right after construction (before the first evaluation), as in C06 / C07',
                              'outside: sampling-time changes of a tree model after its first evaluation (no notifying API exists), '
                              'SoftPiecewiseConstantCoalescentGrid (temperature option), maximum_likelihood / sufficient_statistics / rsample, '
                              'n >= 4 for grid models in histories, more than one inner grid point in histories, sample shapes other than [2]'}
    chk.total.stubs |= {'log', 'exp (uninterpreted + ground axioms)'}
    pmap(run_task, tasks_for(chk.tier), chk.total)


if __name__ == '__main__':
    if '--replay' in sys.argv:
        import json

        r = json.load(open(sys.argv[sys.argv.index('--replay') + 1]))['replay']
        if 'wrapper' in r:
            ok, detail = wrap_replay(r['wrapper'], r['values'])
        else:
            ok, detail = replay(r['model'], r['n'], r['G'], r['values'])
        print(('REPRODUCED ' if ok else 'NOT REPRODUCED ') + detail)
        sys.exit(1 if ok else 0)
    sys.exit(main_for(PID, body))
