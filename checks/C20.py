"""C20 Smoothing / integrated priors and sufficient statistics match their densities.

(a) GMRF() == (N-1)/2 log tau - x^T Q x / 2 - (N-1)/2 log 2pi with Q = GMRF.precision_matrix()
    (plain, weighted, time-aware with symbolic heights -> argsort regions);
(a') the weighted / time-aware branches of GMRF._call and GMRFGammaIntegrated._call against the INTENDED structure matrix
    (built per sample from the weights / the sorted coalescent times and the root height of THAT sample), unbatched and
    for batches whose trees have different root heights and different orders of the internal nodes, real TimeTreeModel
    with symbolic internal heights.  (a) cannot decide these branches: precision_matrix() ignores weights and durations
    (known finding), so every weighted / time-aware run of (a) ends in the same known signature;
(b) GMRFGammaIntegrated() == closed form of the Gamma integral (symbolic shape / rate / field);
(c) ConstantCoalescentIntegrated.log_prob == closed form of the inverse-gamma integral;
(d) sufficient_statistics() of the piecewise-constant coalescents reproduce log_prob.
"""
from __future__ import annotations

import itertools
import math
import sys
import time

import torch

import common as cm
from symtorch import SymFloat, SymMath, SymTensor, cur, from_ids, new_vars
from symtorch.axioms import ground_axioms
from symtorch.explore import Explorer, Goal, triage
from symtorch.tensor import mkfloat
from vlib.core import main_for, pmap

PID = 'C20'
LOG2PI = 1.8378770664093453


class Heights:
    """minimal stand-in for the tree model the GMRF reads (node_heights, taxa_count)"""

    def __init__(self, node_heights, taxa_count):
        self.node_heights = node_heights
        self.taxa_count = taxa_count


def sid(x):
    return int(x._ids.reshape(-1)[0])


# ------------------------------------------------------------------ (a) GMRF
def gmrf_body(N, kind, rescale, batched):
    from torchtree.core.parameter import Parameter
    from torchtree.distributions.gmrf import GMRF

    B = 2 if batched else 1

    def body(t, V, W):
        d = t.dag
        rows = [[V[f'x{b}_{i}'] for i in range(N)] for b in range(B)]
        field = Parameter('field', from_ids(torch.tensor(rows if batched else rows[0], dtype=torch.int64)))
        prec = Parameter('prec', from_ids(torch.tensor([[V[f'tau{b}']] for b in range(B)] if batched else [V['tau0']],
                                                        dtype=torch.int64)))
        tree = None
        weights = None
        if kind == 'time-aware':
            n = N  # N-1 interior intervals need N internal heights + the zero
            hs = from_ids(torch.tensor([V[f's{i}'] for i in range(n + 1)] + [V[f'h{i}'] for i in range(N)], dtype=torch.int64))
            tree = Heights(hs, n + 1)
        elif kind == 'weighted':
            weights = from_ids(torch.tensor([V[f'w{i}'] for i in range(N - 1)], dtype=torch.int64))
        g = GMRF('gmrf', field, prec, tree, weights, rescale)
        val = g()
        Q = g.precision_matrix()
        goals = []
        for b in range(B):
            x = rows[b]
            tau = V[f'tau{b}']
            Qi = (Q[b] if batched else Q)._ids.tolist()
            quad = 0
            for i in range(N):
                for j in range(N):
                    quad = d.add(quad, d.mul(d.mul(x[i], Qi[i][j]), x[j]))
            dim = d.const(N - 1)
            orc = d.add(d.add(d.mul(d.mul(d.const(0.5), dim), d.log(tau)), d.mul(d.const(-0.5), quad)),
                        d.mul(d.mul(d.const(-0.5), dim), d.const(LOG2PI)))
            vi = int((val[b] if batched else val)._ids.reshape(-1)[0])
            goal = d.eq(vi, orc)
            goals.append(Goal(f'[sample {b}] GMRF() == Gaussian quadratic form with the published precision matrix', goal,
                              hyps=ground_axioms(d, [goal]), signature=f'GMRF:{kind}:density-vs-precision_matrix'))
            # precision matrix is symmetric with zero row sums (intrinsic first-order GMRF)
            sym = d.and_(*[d.eq(Qi[i][j], Qi[j][i]) for i in range(N) for j in range(i)])
            goals.append(Goal(f'[sample {b}] precision matrix symmetric', sym, signature=f'GMRF:{kind}:precision-symmetric'))
        return goals

    return body, [GMRF._call, GMRF.precision_matrix]


def gmrf_replay(N, kind, rescale, batched, vals):
    from torchtree.core.parameter import Parameter
    from torchtree.distributions.gmrf import GMRF

    B = 2 if batched else 1
    rows = [[vals.get(f'x{b}_{i}', 0.1 * i) for i in range(N)] for b in range(B)]
    field = Parameter('field', torch.tensor(rows if batched else rows[0], dtype=torch.float64))
    taus = [abs(vals.get(f'tau{b}', 1.5)) + 1e-3 for b in range(B)]
    prec = Parameter('prec', torch.tensor([[x] for x in taus] if batched else [taus[0]], dtype=torch.float64))
    tree = weights = None
    if kind == 'time-aware':
        hs = torch.tensor([vals.get(f's{i}', 0.0) for i in range(N + 1)] + [vals.get(f'h{i}', 1.0 + i) for i in range(N)],
                          dtype=torch.float64)
        tree = Heights(hs, N + 1)
    elif kind == 'weighted':
        weights = torch.tensor([abs(vals.get(f'w{i}', 1.0 + i)) + 1e-3 for i in range(N - 1)], dtype=torch.float64)
    g = GMRF('gmrf', field, prec, tree, weights, rescale)
    try:
        val = g().reshape(-1)
        Q = g.precision_matrix()
    except Exception as e:
        return True, f'raised {type(e).__name__}: {e}'
    for b in range(B):
        x = torch.tensor(rows[b], dtype=torch.float64)
        Qb = Q[b] if batched else Q
        want = 0.5 * (N - 1) * math.log(taus[b]) - 0.5 * float(x @ Qb @ x) - 0.5 * (N - 1) * math.log(2 * math.pi)
        if abs(float(val[b]) - want) > 1e-9 * max(1.0, abs(want)):
            return True, (f'GMRF() = {float(val[b])} but the quadratic form with precision_matrix() gives {want} '
                          f'(field {rows[b]}, precision {taus[b]})')
    return False, 'agree'


# ------------------------------------------------------------------ (a') GMRF / GMRFGammaIntegrated vs the INTENDED form
# The published precision matrix ignores weights / durations (known finding), so the obligations above never say
# anything about the weighted and time-aware branches of _call: every run ends in the same known signature.  The
# obligations below decide those branches against an oracle that is written independently of the implementation:
#   time-aware:  K_b = D' diag(c_b) D,  c_b,i = [root_b] * 2 / (t_b,i+1 - t_b,i-1)   (t_b = 0 and the sorted internal
#                heights of tree b; the order statistics are an ite sorting network, not the implementation's argsort)
#   weighted:    K_b = D' diag(1 / w_b) D
# for every sample b of a batch, with the REAL TimeTreeModel (symbolic internal heights) as the tree model.
VARIANTS = {
    # name: (batch size, tree/weights batched, precision batched)
    'single': (1, False, False),
    'batch': (2, True, True),
    'batch3': (3, True, True),
    'shared-tree': (2, False, True),  # one tree / one weight vector for the whole batch
    'shared-precision': (2, True, False),
}


def _defined_goals(t, d, sig):
    """well-definedness of everything the run computed (implementation and oracle), one obligation per denominator and
    per log / sqrt argument instead of the Explorer's single conjunction: the sign of every denominator is proved first
    (linear arithmetic for durations / weights), then the sign of its inverse, and these facts are the lemmas for the
    positivity of the log arguments (sums of squares times inverses).  The lemma goals are optional (alternative TRUE);
    the required obligations are denominator != 0 and argument in domain."""
    goals, lemmas = [], []
    for b in dict.fromkeys(t.denominators):
        pos = d.vals[b] > 0
        gb = Goal('a denominator is non-zero (keeps the sign it has at the witness)', d.lt(0, b) if pos else d.lt(b, 0),
                  alts=[d.not_(d.eq(b, 0))], signature=sig + ':well-defined')
        inv = d.div(d.const(1), b)
        li = Goal('lemma: the inverse of a denominator has the sign of the denominator', d.lt(0, inv) if pos else d.lt(inv, 0),
                  alts=[d.TRUE], signature=sig + ':well-defined')
        li.hyp_goals = [gb]
        goals += [gb, li]
        lemmas += [gb, li]
    for kind, x in dict.fromkeys(t.domains):
        node = d.lt(0, x) if kind == 'pos' else d.le(0, x)
        g = Goal('a log / sqrt argument is inside its domain', node, hyps=ground_axioms(d, [node]), signature=sig + ':well-defined')
        g.hyp_goals = list(lemmas)
        goals.append(g)
    return goals


def _witness_order(wvals):
    """the permutation that sorts the witness values of one sample's internal heights (the oracle's own sort)"""
    return sorted(range(len(wvals)), key=lambda i: (wvals[i], i))


def _structure_coefficients(d, kind, N, aux, rescale, order=None):
    """c_i (i = 0..N-2): coefficient of (x_i - x_i+1)^2 in the intended quadratic form.
    time-aware: `order` is a permutation of the internal nodes; the coefficients are those of the coalescent times
    t = (0, aux[order[0]], ..., aux[order[N-1]]), which are the order statistics wherever that sequence is
    non-decreasing (separate obligation, see intended_body)"""
    if kind == 'weighted':
        return [d.div(d.const(1), w) for w in aux]
    ts = [d.const(0)] + [aux[k] for k in order]
    dur = [d.sub(ts[k], ts[k - 1]) for k in range(1, N + 1)]  # N inter-coalescent intervals
    cs = []
    for i in range(N - 1):
        mean = d.div(d.add(dur[i], dur[i + 1]), d.const(2))
        cs.append(d.div(ts[-1] if rescale else d.const(1), mean))
    return cs


def _quadratic_form(d, x, cs):
    """x' K x with K = D' diag(cs) D written out entry by entry (tridiagonal, zero row sums)"""
    N = len(x)
    K = [[d.const(0)] * N for _ in range(N)]
    for i in range(N):
        diag = d.const(0)
        if i > 0:
            diag = d.add(diag, cs[i - 1])
        if i < N - 1:
            diag = d.add(diag, cs[i])
            K[i][i + 1] = K[i + 1][i] = d.neg(cs[i])
        K[i][i] = diag
    quad = d.const(0)
    for i in range(N):
        for j in range(N):
            if abs(i - j) <= 1:
                quad = d.add(quad, d.mul(d.mul(x[i], K[i][j]), x[j]))
    return quad


def _tree_shapes(N):
    """rooted tree shapes with N internal nodes (N+1 taxa) as nested tuples: they differ in which pairs of internal
    nodes are unordered, i.e. in the argsort regions a tree can reach"""
    n = N + 1
    if n == 3:
        return [cm.caterpillar(3)]
    if n == 4:
        return [cm.caterpillar(4), cm.balanced(4)]
    if n == 5:
        return [cm.caterpillar(5), (cm.balanced(4), 4), (((0, 1), 2), (3, 4))]
    if n == 6:
        return [cm.caterpillar(6), ((cm.balanced(4), 4), 5), ((((0, 1), 2), (3, 4)), 5), (cm.caterpillar(4), (4, 5)),
                (cm.balanced(4), (4, 5)), (((0, 1), 2), ((3, 4), 5))]
    raise ValueError(n)


def _tip_dates(N, hetero):
    n = N + 1
    return [0.0] * n if not hetero else [0.0] + [0.125 * (i % 3) for i in range(1, n)]


def _real_tree(N, shape, hetero):
    import torchtree.evolution.taxa  # noqa (registers the short type names)
    import torchtree.evolution.tree_model  # noqa

    dic = {}
    cm.build(cm.taxa_json(N + 1, _tip_dates(N, hetero)), dic)
    tree, _ = cm.build(cm.time_tree_json(shape, N + 1), dic)
    return tree, dic['tree.heights']


def _tree_order(tree):
    """(parent, child) pairs of node indices of the real tree model"""
    return [(int(p), int(c)) for p, c in tree.preorder.tolist()]


def intended_names(model, N, kind, variant):
    B, aux_batched, prec_batched = VARIANTS[variant]
    names = {'x': [[f'x{b}_{i}' for i in range(N)] for b in range(B)]}
    if model == 'gmrf':
        names['tau'] = [f'tau{b}' for b in range(B if prec_batched else 1)]
    else:
        names['tau'] = []
    A = B if aux_batched else 1
    if kind == 'time-aware':
        names['aux'] = [[f'h{b}_{i}' for i in range(N)] for b in range(A)]
    else:
        names['aux'] = [[f'w{b}_{i}' for i in range(N - 1)] for b in range(A)]
    return names


def intended_body(model, N, kind, rescale, variant, shape, hetero):
    from torchtree.core.parameter import Parameter
    from torchtree.distributions import gmrf_integrated as gi
    from torchtree.distributions.gmrf import GMRF

    B, aux_batched, prec_batched = VARIANTS[variant]
    nm = intended_names(model, N, kind, variant)
    batched = B > 1

    def body(t, V, W):
        d = t.dag

        def sym(rows, squeeze):
            ids = [[V[k] for k in r] for r in rows]
            return from_ids(torch.tensor(ids[0] if squeeze else ids, dtype=torch.int64))

        field = Parameter('field', sym(nm['x'], not batched))
        tree = weights = None
        if kind == 'time-aware':
            tree, hp = _real_tree(N, shape, hetero)
            hp.tensor = sym(nm['aux'], not aux_batched)
        else:
            weights = sym(nm['aux'], not aux_batched)
        if model == 'gmrf':
            prec = Parameter('prec', from_ids(torch.tensor([[V[k]] for k in nm['tau']] if (batched and prec_batched) else [V[nm['tau'][0]]],
                                                           dtype=torch.int64)))
            val = GMRF('gmrf', field, prec, tree, weights, rescale)()
        else:
            saved = gi.math
            gi.math = SymMath()
            try:
                val = gi.GMRFGammaIntegrated('g', field, mkfloat(V['alpha']), mkfloat(V['beta']), tree, weights, rescale)()
            finally:
                gi.math = saved
        goals = []
        if tuple(val.shape) != ((B, 1) if batched else (1,)):
            return [Goal(f'{model}: one log density per sample', d.FALSE, signature=f'{SIG[model]}:{kind}:sample-shape')]
        vids = val._ids.reshape(-1).tolist()
        half = d.const((N - 1) / 2)
        for b in range(B):
            x = [V[k] for k in nm['x'][b]]
            auxn = nm['aux'][b if aux_batched else 0]
            aux = [V[k] for k in auxn]
            order = None
            if kind == 'time-aware':
                # the oracle sorts the witness itself; that this order is the sorted one on the whole region (and not only
                # at the witness) is an obligation of its own: it must follow from the domain and the decisions the
                # implementation took (linear arithmetic).  Where it does not, the implementation did not sort this sample.
                order = _witness_order([W[k] for k in auxn])
                chain = [d.le(aux[p], aux[q]) for p, q in zip(order, order[1:])]
                goals.append(Goal(f'[sample {b} of {B}] the decisions taken by the implementation fix the order of the coalescent '
                                  f'times of THIS sample (oracle order {order})', d.and_(*chain) if chain else d.TRUE,
                                  signature=f'{SIG[model]}:{kind}:coalescent-times-not-ordered-per-sample' + (':batched' if batched else '')))
            cs = _structure_coefficients(d, kind, N, aux, rescale, order)
            if model == 'gmrf':
                quad = _quadratic_form(d, x, cs)
            else:
                # x'Kx = sum_i c_i (x_i - x_i+1)^2 (K = D' diag(c) D); the matrix form itself is decided for GMRF() above.
                # Inside the uninterpreted log the solvers need the two arguments in comparable shape.
                quad = d.const(0)
                for i in range(N - 1):
                    df = d.sub(x[i], x[i + 1])
                    quad = d.add(quad, d.mul(cs[i], d.mul(df, df)))
            if model == 'gmrf':
                tau = V[nm['tau'][b if prec_batched else 0]]
                orc = d.add(d.add(d.mul(half, d.log(tau)), d.mul(d.const(-0.5), d.mul(tau, quad))),
                            d.mul(d.neg(half), d.const(LOG2PI)))
                what = 'GMRF() == (N-1)/2 log tau - tau/2 x\'Kx - (N-1)/2 log 2pi'
            else:
                al, be = V['alpha'], V['beta']
                orc = d.add(d.mul(d.neg(half), d.const(math.log(2.0 * math.pi))), d.mul(al, d.log(be)))
                orc = d.add(orc, d.neg(d.uf('lgamma', al)))
                orc = d.add(orc, d.uf('lgamma', d.add(al, half)))
                orc = d.add(orc, d.neg(d.mul(d.add(al, half), d.log(d.add(be, d.mul(d.const(0.5), quad))))))
                what = 'GMRFGammaIntegrated() == closed-form Gamma integral with x\'Kx'
            goal = d.eq(vids[b], orc)
            goals.append(Goal(f'[sample {b} of {B}] {what}, K = intended {kind} structure matrix of THIS sample',
                              goal, hyps=ground_axioms(d, [goal]),
                              signature=f'{SIG[model]}:{kind}:density-vs-intended-structure-matrix' + (':batched' if batched else '')))
        return goals + _defined_goals(t, d, f'{SIG[model]}:{kind}')

    fns = [GMRF._call] if model == 'gmrf' else [gi.GMRFGammaIntegrated._call, gi.GMRFGammaIntegrated.__init__]
    return body, fns


SIG = {'gmrf': 'GMRF', 'integrated': 'GMRFGammaIntegrated'}


def intended_witness(model, N, kind, variant, shape, hetero):
    nm = intended_names(model, N, kind, variant)
    W = {}
    for b, r in enumerate(nm['x']):
        W.update({k: 0.3 * i * i - 0.2 * b + 0.1 * (1 + b) * i + 0.1 for i, k in enumerate(r)})
    for b, k in enumerate(nm['tau']):
        W[k] = 1.7 + b
    if model == 'integrated':
        W.update({'alpha': 1.3, 'beta': 0.7})
    if kind == 'time-aware':
        # heights that respect the tree: a node sits above its children; different root heights per sample
        tree, _ = _real_tree(N, shape, hetero)
        tc = N + 1
        for b, r in enumerate(nm['aux']):
            hv = {}
            tips = tree.sampling_times.tolist()
            for node in tree.tree.postorder_node_iter():
                if node.is_leaf():
                    hv[node.index] = float(tips[node.index])
                else:
                    hv[node.index] = max(hv[c.index] for c in node.child_node_iter()) + 0.5 + 0.25 * ((node.index + b) % 3) + 0.75 * b
            for i, k in enumerate(r):
                W[k] = hv[tc + i]
    else:
        for b, r in enumerate(nm['aux']):
            W.update({k: 0.6 + 0.5 * i + 0.3 * b for i, k in enumerate(r)})
    return W


def intended_domain(model, N, kind, variant, shape, hetero):
    nm = intended_names(model, N, kind, variant)
    order = tips = None
    if kind == 'time-aware':
        tree, _ = _real_tree(N, shape, hetero)
        order = _tree_order(tree)
        tips = [float(v) for v in tree.sampling_times.tolist()]
    tc = N + 1

    def domain(d, V):
        cs = [d.lt(0, V[k]) for k in nm['tau']]
        if model == 'integrated':
            cs += [d.lt(0, V['alpha']), d.lt(0, V['beta'])]
        for r in nm['aux']:
            if kind == 'weighted':
                cs += [d.lt(0, V[k]) for k in r]
                continue
            for p, c in order:  # the heights are those of a tree: every node is older than its children
                cs.append(d.lt(V[r[c - tc]] if c >= tc else d.const(tips[c]), V[r[p - tc]]))
            cs += [d.lt(0, V[k]) for k in r]
            # three coalescent events at the same time make an interval pair of length zero (needs >= 6 taxa)
            for i, j, k in itertools.combinations(range(N), 3):
                cs.append(d.not_(d.and_(d.eq(V[r[i]], V[r[j]]), d.eq(V[r[j]], V[r[k]]))))
        return cs

    return domain


def intended_replay(model, N, kind, rescale, variant, shape, hetero, vals, W):
    """the real classes on plain tensors (real TimeTreeModel) against a float oracle written with sorted() and an explicit
    tridiagonal matrix"""
    from torchtree.core.parameter import Parameter
    from torchtree.distributions.gmrf import GMRF
    from torchtree.distributions.gmrf_integrated import GMRFGammaIntegrated

    B, aux_batched, prec_batched = VARIANTS[variant]
    nm = intended_names(model, N, kind, variant)
    batched = B > 1
    get = lambda k: float(vals[k]) if vals.get(k) is not None else float(W[k])  # noqa
    X = [[get(k) for k in r] for r in nm['x']]
    A = [[get(k) for k in r] for r in nm['aux']]
    taus = [get(k) for k in nm['tau']]
    field = Parameter('field', torch.tensor(X if batched else X[0], dtype=torch.float64))
    tree = weights = None
    if kind == 'time-aware':
        tree, hp = _real_tree(N, shape, hetero)
        hp.tensor = torch.tensor(A if aux_batched else A[0], dtype=torch.float64)
    else:
        weights = torch.tensor(A if aux_batched else A[0], dtype=torch.float64)
    try:
        if model == 'gmrf':
            prec = Parameter('prec', torch.tensor([[v] for v in taus] if (batched and prec_batched) else [taus[0]], dtype=torch.float64))
            val = GMRF('gmrf', field, prec, tree, weights, rescale)()
        else:
            al, be = get('alpha'), get('beta')
            val = GMRFGammaIntegrated('g', field, al, be, tree, weights, rescale)()
    except Exception as e:
        return True, f'raised {type(e).__name__}: {e}'
    if tuple(val.shape) != ((B, 1) if batched else (1,)):
        return True, f'value has shape {tuple(val.shape)} for a batch of {B}'
    val = val.reshape(-1).tolist()
    for b in range(B):
        x = X[b]
        a = A[b if aux_batched else 0]
        if kind == 'weighted':
            cs = [1.0 / w for w in a]
        else:
            ts = [0.0] + sorted(a)
            cs = [(ts[-1] if rescale else 1.0) / ((ts[i + 1] - ts[i - 1]) / 2.0) for i in range(1, N)]
        K = torch.zeros(N, N, dtype=torch.float64)
        for i, c in enumerate(cs):
            K[i, i] += c
            K[i + 1, i + 1] += c
            K[i, i + 1] -= c
            K[i + 1, i] -= c
        xt = torch.tensor(x, dtype=torch.float64)
        quad = float(xt @ K @ xt)
        if model == 'gmrf':
            tau = taus[b if prec_batched else 0]
            want = 0.5 * (N - 1) * math.log(tau) - 0.5 * tau * quad - 0.5 * (N - 1) * math.log(2 * math.pi)
        else:
            want = (-(N - 1) / 2 * math.log(2 * math.pi) + al * math.log(be) - math.lgamma(al) + math.lgamma(al + (N - 1) / 2)
                    - (al + (N - 1) / 2) * math.log(be + quad / 2))
        if not abs(val[b] - want) <= 1e-9 * max(1.0, abs(want)):
            desc = f'internal heights {a}' if kind == 'time-aware' else f'weights {a}'
            return True, (f'sample {b} of {B}: {SIG[model]}() = {val[b]} but the Gaussian quadratic form with the {kind} structure '
                          f'matrix of that sample gives {want} (field {x}, {desc}, rescale={rescale}; all samples: {A})')
    return False, 'agree'


# ------------------------------------------------------------------ (b) GMRFGammaIntegrated
def integrated_body(N, time_aware=None):
    """time_aware: None (plain) or the value of the rescale flag (time-aware variant: must integrate the SAME weighted
    quadratic form as GMRF() with that flag)"""
    from torchtree.core.parameter import Parameter
    from torchtree.distributions import gmrf_integrated as gi
    from torchtree.distributions.gmrf import GMRF

    def body(t, V, W):
        d = t.dag
        saved = gi.math
        gi.math = SymMath()
        try:
            field = Parameter('field', cm.var_tensor(V, [f'x{i}' for i in range(N)]))
            a = mkfloat(V['alpha'])
            bta = mkfloat(V['beta'])
            tree = None
            if time_aware is not None:
                hs = from_ids(torch.tensor([V[f's{i}'] for i in range(N + 1)] + [V[f'h{i}'] for i in range(N)], dtype=torch.int64))
                tree = Heights(hs, N + 1)
            m = gi.GMRFGammaIntegrated('g', field, a, bta, tree, None, time_aware if time_aware is not None else True)
            val = m()
        finally:
            gi.math = saved
        x = [V[f'x{i}'] for i in range(N)]
        ss = 0
        if time_aware is None:
            for i in range(N - 1):
                df = d.sub(x[i + 1], x[i])
                ss = d.add(ss, d.mul(df, df))
        else:
            # the weighted sum of squares is taken from the (non-integrated) GMRF with the same flag and precision 1:
            # GMRF() = (N-1)/2 log 1 - ss/2 - (N-1)/2 log 2pi   =>   ss = -2 (GMRF() + (N-1)/2 log 2pi)
            one = Parameter('one', torch.ones(1, dtype=torch.float64))
            g = GMRF('gm', Parameter('f2', cm.var_tensor(V, [f'x{i}' for i in range(N)])), one, Heights(hs, N + 1), None, time_aware)
            gv = sid(g())
            ss = d.mul(d.const(-2), d.add(gv, d.mul(d.const((N - 1) / 2), d.const(LOG2PI))))
        al, be = V['alpha'], V['beta']
        half = d.const((N - 1) / 2)
        # log[(2pi)^-(N-1)/2 beta^alpha / Gamma(alpha) Gamma(alpha + (N-1)/2) (beta + ss/2)^-(alpha+(N-1)/2)]
        orc = d.add(d.mul(d.neg(half), d.const(math.log(2.0 * math.pi))), d.mul(al, d.log(be)))
        orc = d.add(orc, d.neg(d.uf('lgamma', al)))
        orc = d.add(orc, d.uf('lgamma', d.add(al, half)))
        orc = d.add(orc, d.neg(d.mul(d.add(al, half), d.log(d.add(be, d.mul(d.const(0.5), ss))))))
        goal = d.eq(sid(val), orc)
        return [Goal('GMRFGammaIntegrated() == log of the closed-form Gamma integral of GMRF x Gamma(precision)', goal,
                     hyps=ground_axioms(d, [goal]), signature='GMRFGammaIntegrated:closed-form')]

    return body, [gi.GMRFGammaIntegrated._call, gi.GMRFGammaIntegrated.__init__]


def integrated_time_replay(N, rescale, vals):
    from torchtree.core.parameter import Parameter
    from torchtree.distributions.gmrf import GMRF
    from torchtree.distributions.gmrf_integrated import GMRFGammaIntegrated

    x = torch.tensor([vals.get(f'x{i}', 0.3 * i) for i in range(N)], dtype=torch.float64)
    a = abs(vals.get('alpha', 1.2)) + 0.05
    b = abs(vals.get('beta', 0.7)) + 0.05
    hs = torch.tensor([0.0] * (N + 1) + sorted(abs(vals.get(f'h{i}', 1.0 + i)) + 0.1 * (i + 1) for i in range(N)), dtype=torch.float64)
    got = float(GMRFGammaIntegrated('g', Parameter('f', x), a, b, Heights(hs, N + 1), None, rescale)())
    gm = float(GMRF('gm', Parameter('f2', x.clone()), Parameter('one', torch.ones(1, dtype=torch.float64)), Heights(hs, N + 1), None, rescale)())
    ss = -2 * (gm + (N - 1) / 2 * math.log(2 * math.pi))
    want = (-(N - 1) / 2 * math.log(2 * math.pi) + a * math.log(b) - math.lgamma(a) + math.lgamma(a + (N - 1) / 2)
            - (a + (N - 1) / 2) * math.log(b + ss / 2))
    if abs(got - want) > 1e-9 * max(1.0, abs(want)):
        return True, (f'GMRFGammaIntegrated(tree_model, rescale={rescale}) = {got} but integrating the GMRF density with the same flag '
                      f'gives {want}')
    return False, 'agree'


def integrated_replay(N, vals):
    import mpmath as mp

    from torchtree.core.parameter import Parameter
    from torchtree.distributions.gmrf_integrated import GMRFGammaIntegrated

    x = [vals.get(f'x{i}', 0.3 * i) for i in range(N)]
    a = abs(vals.get('alpha', 1.2)) + 0.05
    b = abs(vals.get('beta', 0.7)) + 0.05
    m = GMRFGammaIntegrated('g', Parameter('f', torch.tensor(x, dtype=torch.float64)), a, b)
    got = float(m())
    ss = sum((x[i + 1] - x[i]) ** 2 for i in range(N - 1))

    def integrand(tau):
        return (mp.mpf(b) ** a / mp.gamma(a) * tau ** (a - 1) * mp.e ** (-b * tau)
                * (tau / (2 * mp.pi)) ** (mp.mpf(N - 1) / 2) * mp.e ** (-tau * ss / 2))

    want = float(mp.log(mp.quad(integrand, [0, 1, 10, mp.inf])))
    if abs(got - want) > 1e-7 * max(1.0, abs(want)):
        return True, f'GMRFGammaIntegrated() = {got} but numerical integration gives {want} (alpha={a}, beta={b}, x={x})'
    return False, 'agree with quadrature'


# ------------------------------------------------------------------ (c) ConstantCoalescentIntegrated
def coal_integrated_body(n):
    import C08
    from torchtree.evolution import coalescent as co

    def body(t, V, W):
        d = t.dag
        saved = co.math
        co.math = SymMath()
        try:
            h, S, C = C08._heights(V, W, n, t)
            dist = co.ConstantCoalescentIntegrated(mkfloat(V['alpha']), mkfloat(V['beta']), validate_args=False)
            val = dist.log_prob(h)
        finally:
            co.math = saved
        # sufficient statistic sum_i C(k_i,2) dt_i through the independent event-list evaluator (theta = 1, no log terms)
        stat = C08.kingman_oracle(S, C, [], lambda p, a, b: (b - a), lambda p, c: 0.0)
        stat_id = d.neg(SymFloat._id(stat))
        al, be = V['alpha'], V['beta']
        N = d.const(n - 1)
        orc = d.add(d.mul(al, d.log(be)), d.neg(d.uf('lgamma', al)))
        orc = d.add(orc, d.uf('lgamma', d.add(al, N)))
        orc = d.add(orc, d.neg(d.mul(d.add(al, N), d.log(d.add(be, stat_id)))))
        goal = d.eq(sid(val), orc)
        return [Goal('ConstantCoalescentIntegrated.log_prob == log of the closed-form inverse-gamma integral', goal,
                     hyps=ground_axioms(d, [goal]), signature='ConstantCoalescentIntegrated:closed-form')]

    return body, [co.ConstantCoalescentIntegrated.log_prob]


def coal_integrated_replay(n, vals):
    import mpmath as mp

    from torchtree.evolution.coalescent import ConstantCoalescent, ConstantCoalescentIntegrated

    a = abs(vals.get('alpha', 1.2)) + 0.05
    b = abs(vals.get('beta', 0.7)) + 0.05
    h = torch.tensor([vals.get(f's{i}', 0.0) for i in range(n)] + [vals.get(f'c{j}', 1.0 + j) for j in range(n - 1)],
                     dtype=torch.float64)
    got = float(ConstantCoalescentIntegrated(a, b).log_prob(h))

    def integrand(theta):
        lp = float(ConstantCoalescent(torch.tensor([float(theta)], dtype=torch.float64)).log_prob(h))
        return mp.mpf(b) ** a / mp.gamma(a) * theta ** (-a - 1) * mp.e ** (-b / theta) * mp.e ** lp

    want = float(mp.log(mp.quad(integrand, [0, 0.5, 2, 10, mp.inf])))
    if abs(got - want) > 1e-6 * max(1.0, abs(want)):
        return True, f'ConstantCoalescentIntegrated.log_prob = {got} but numerical integration gives {want}'
    return False, 'agree with quadrature'


# ------------------------------------------------------------------ (d) sufficient statistics
def suffstat_body(model, n, G):
    import C08
    from torchtree.evolution import coalescent as co

    def body(t, V, W):
        d = t.dag
        h, S, C = C08._heights(V, W, n, t)
        if model == 'skyride':
            theta = cm.var_tensor(V, [f'theta{k}' for k in range(n - 1)])
            dist = co.PiecewiseConstantCoalescent(theta, validate_args=False)
        else:
            theta = cm.var_tensor(V, [f'theta{k}' for k in range(G + 1)])
            grid = cm.var_tensor(V, [f'g{k}' for k in range(G)])
            dist = co.PiecewiseConstantCoalescentGrid(theta, grid, validate_args=False)
        lp = dist.log_prob(h)
        ss, counts = dist.sufficient_statistics(h)
        ssi = ss._ids.reshape(-1).tolist() if isinstance(ss, SymTensor) else [d.const(float(v)) for v in ss.reshape(-1).tolist()]
        ci = counts._ids.reshape(-1).tolist() if isinstance(counts, SymTensor) else [d.const(float(v)) for v in counts.reshape(-1).tolist()]
        th = theta._ids.tolist()
        if not (len(ssi) == len(ci) == len(th)):
            return [Goal(f'{model}: one sufficient statistic and one count per population size', d.FALSE,
                         signature=f'{model}:sufficient_statistics-shape')]
        rec = 0
        for s_, c_, t_ in zip(ssi, ci, th):
            rec = d.sub(rec, d.div(s_, t_))
            rec = d.sub(rec, d.mul(c_, d.log(t_)))
        goal = d.eq(sid(lp), rec)
        return [Goal(f'{model}: -sum ss_k/theta_k - sum c_k log theta_k == log_prob', goal, hyps=ground_axioms(d, [goal]),
                     signature=f'{model}:sufficient_statistics')]

    cls = co.PiecewiseConstantCoalescent if model == 'skyride' else co.PiecewiseConstantCoalescentGrid
    return body, [cls.sufficient_statistics, cls.log_prob]


def suffstat_replay(model, n, G, vals):
    from torchtree.evolution import coalescent as co

    h = torch.tensor([vals.get(f's{i}', 0.0) for i in range(n)] + [vals.get(f'c{j}', 1.0 + j) for j in range(n - 1)],
                     dtype=torch.float64)
    if model == 'skyride':
        th = torch.tensor([abs(vals.get(f'theta{k}', 1.5)) + 1e-3 for k in range(n - 1)], dtype=torch.float64)
        dist = co.PiecewiseConstantCoalescent(th)
    else:
        th = torch.tensor([abs(vals.get(f'theta{k}', 1.5)) + 1e-3 for k in range(G + 1)], dtype=torch.float64)
        gr = torch.tensor([vals.get(f'g{k}', 1.0 + k) for k in range(G)], dtype=torch.float64)
        dist = co.PiecewiseConstantCoalescentGrid(th, gr)
    try:
        lp = float(dist.log_prob(h))
        ss, cnt = dist.sufficient_statistics(h)
    except Exception as e:
        return True, f'raised {type(e).__name__}: {e}'
    if ss.shape != th.shape or cnt.shape != th.shape:
        return True, f'sufficient statistics shapes {tuple(ss.shape)}, {tuple(cnt.shape)} vs {tuple(th.shape)} population sizes'
    rec = float(-(ss.to(torch.float64) / th).sum() - (cnt.to(torch.float64) * th.log()).sum())
    if abs(rec - lp) > 1e-9 * max(1.0, abs(lp)):
        return True, f'log_prob = {lp} but the sufficient statistics give {rec}'
    return False, 'agree'


def ss_batched_task(task, tr):
    """batched sufficient statistics: row b of the statistics of a batch equals the statistics of row b alone
    (two trees whose rows interleave sampling and coalescent events differently)"""
    from symtorch import tracing
    from torchtree.evolution import coalescent as co

    _, n = task
    label = f'sufficient statistics skyride, batch of 2 trees, n={n}'
    tr.fn(co.PiecewiseConstantCoalescent.sufficient_statistics)
    with tracing() as t:
        d = t.dag
        # row 0: all samples at 0; row 1: one tip sampled after the first coalescence
        # (>= 2 lineages are alive in the interval whose position differs between the rows)
        rows = [[0.0, 0.0, 0.0, 0.0, 1.0, 2.0, 3.0], [0.0, 0.0, 0.0, 1.5, 1.0, 2.0, 3.0]]
        assert n == 4
        hv = [new_vars(f'h{b}', torch.tensor(rows[b], dtype=torch.float64)) for b in range(2)]
        th = [new_vars(f'theta{b}', torch.tensor([1.5 + b, 2.5 + b, 3.5 + b], dtype=torch.float64)) for b in range(2)]
        H = from_ids(torch.stack([x._ids for x in hv]))
        TH = from_ids(torch.stack([x._ids for x in th]))
        try:
            ssb, cb = co.PiecewiseConstantCoalescent(TH, validate_args=False).sufficient_statistics(H)
        except Exception as e:
            tr.notes.append(f'{label}: raises {type(e).__name__} (accepted: fails loudly)')
            tr.obligation('raises:' + label, nontrivial=False)
            tr.regions += 1
            return
        goals = []
        for b in range(2):
            s1, c1 = co.PiecewiseConstantCoalescent(th[b], validate_args=False).sufficient_statistics(hv[b])
            a_ = ssb[b]._ids.reshape(-1).tolist() if isinstance(ssb, SymTensor) else [d.const(float(v)) for v in ssb[b].reshape(-1).tolist()]
            b_ = s1._ids.reshape(-1).tolist() if isinstance(s1, SymTensor) else [d.const(float(v)) for v in s1.reshape(-1).tolist()]
            goals.append((f'row {b}: batched sufficient statistics == statistics of that tree alone',
                          d.and_(*[d.eq(x, y) for x, y in zip(a_, b_)]) if len(a_) == len(b_) else d.FALSE, [],
                          'skyride:sufficient_statistics:batched'))
        tr.witness_runs += 1
        tr.regions += 1
        V = {d.args[i][0]: i for g in goals for i in d.topo([g[1]]) if d.ops[i] == 'var'}

        def rp(vals):
            Hh = torch.tensor([[vals.get(f'h{b}[{i}]', rows[b][i]) for i in range(2 * n - 1)] for b in range(2)], dtype=torch.float64)
            Tt = torch.tensor([[abs(vals.get(f'theta{b}[{i}]', 1.5 + b + i)) + 1e-3 for i in range(n - 1)] for b in range(2)], dtype=torch.float64)
            sb, _ = co.PiecewiseConstantCoalescent(Tt).sufficient_statistics(Hh)
            for b in range(2):
                s1, _ = co.PiecewiseConstantCoalescent(Tt[b]).sufficient_statistics(Hh[b])
                if not torch.allclose(sb[b].to(torch.float64), s1.to(torch.float64), rtol=1e-9, atol=1e-12):
                    return True, f'row {b}: batched statistics {sb[b].tolist()} but that tree alone gives {s1.tolist()}'
            return False, 'agree'

        cm.discharge(tr, d, list(t.pcs), goals, label, replay=rp, varnodes=V, defined=False, timeout=30, parallel=True)


# ------------------------------------------------------------------ driver
def run_task(task, tr):
    import C08

    kind = task[0]
    if kind == 'gmrf':
        _, N, gk, rescale, batched = task
        body, fns = gmrf_body(N, gk, rescale, batched)
        label = f'GMRF N={N} {gk} rescale={rescale} batched={batched}'
        B = 2 if batched else 1
        W = {}
        for b in range(B):
            W.update({f'x{b}_{i}': 0.3 * i * i - 0.2 * b + 0.1 for i in range(N)})
            W[f'tau{b}'] = 1.7 + b
        if gk == 'time-aware':
            W.update({f's{i}': 0.0 for i in range(N + 1)})
            W.update({f'h{i}': 0.8 + 0.9 * i for i in range(N)})
        if gk == 'weighted':
            W.update({f'w{i}': 0.6 + 0.5 * i for i in range(N - 1)})

        def domain(d, V):
            cs = [d.lt(0, V[k]) for k in V if k.startswith(('tau', 'w'))]
            if gk == 'time-aware':
                cs += [d.eq(V[f's{i}'], 0) for i in range(N + 1)]
                cs += [d.lt(0, V[f'h{i}']) for i in range(N)]
                # distinct coalescent times (durations appear as denominators)
                cs += [d.not_(d.eq(V[f'h{i}'], V[f'h{j}'])) for i in range(N) for j in range(i)]
                # the stand-in carries the heights of a tree: the root is the last node and the oldest
                cs += [d.lt(V[f'h{i}'], V[f'h{N - 1}']) for i in range(N - 1)]
            return cs

        rp = lambda vals: gmrf_replay(N, gk, rescale, batched, vals)  # noqa
        extra = {'N': N, 'kind': gk}
    elif kind == 'intended':
        _, model, N, gk, rescale, variant, si, hetero = task
        shape = _tree_shapes(N)[si] if gk == 'time-aware' else None
        body, fns = intended_body(model, N, gk, rescale, variant, shape, hetero)
        B = VARIANTS[variant][0]
        label = (f'{SIG[model]} vs intended structure matrix: N={N} {gk} rescale={rescale} batching={variant}'
                 + (f' tree={cm.to_newick(shape)} tips={"heterochronous" if hetero else "at 0"}' if shape is not None else ''))
        W = intended_witness(model, N, gk, variant, shape, hetero)
        domain = intended_domain(model, N, gk, variant, shape, hetero)
        W0 = dict(W)
        rp = lambda vals: intended_replay(model, N, gk, rescale, variant, shape, hetero, vals, W0)  # noqa
        extra = {'model': model, 'N': N, 'kind': gk, 'rescale': rescale, 'batching': variant,
                 'tree': cm.to_newick(shape) if shape is not None else None, 'heterochronous': hetero}
        tr.bounds['intended structure matrix'] = (
            'field length 2..4 (5 thorough); batch shapes [] and [2] ([3] thorough) with the tree / weights and the precision '
            'batched or shared; time-aware: real TimeTreeModel, every rooted tree shape with N+1 taxa, internal heights '
            'symbolic subject to parent > child, tips at 0 or at fixed heterochronous dates; both values of rescale; '
            'GMRFGammaIntegrated: field length 3 (2..4 thorough), symbolic shape / rate shared by the batch')
        if gk == 'time-aware':
            tr.assumptions.add('time-aware GMRF: no three coalescent events at exactly the same time (an interval pair of '
                               'length zero divides by zero); ties of two events are inside the domain')
            tr.assumptions.add('time-aware GMRF: the newick topology only fixes which internal heights are ordered '
                               '(parent > child); tip dates are concrete (TimeTreeModel.sampling_times is built from the taxa)')
        if model == 'integrated':
            tr.stubs.add('gmrf_integrated.math -> SymMath (log / lgamma of the symbolic shape and rate stay symbolic, lgamma uninterpreted)')
    elif kind == 'integrated':
        _, N = task
        body, fns = integrated_body(N)
        label = f'GMRFGammaIntegrated N={N}'
        W = {f'x{i}': 0.3 * i * i + 0.1 for i in range(N)}
        W.update({'alpha': 1.3, 'beta': 0.7})
        domain = lambda d, V: [d.lt(0, V['alpha']), d.lt(0, V['beta'])]  # noqa
        rp = lambda vals: integrated_replay(N, vals)  # noqa
        extra = {'N': N}
    elif kind == 'integrated-time':
        _, N, rescale = task
        body, fns = integrated_body(N, rescale)
        label = f'GMRFGammaIntegrated time-aware N={N} rescale={rescale}'
        W = {f'x{i}': 0.3 * i * i + 0.1 for i in range(N)}
        W.update({'alpha': 1.3, 'beta': 0.7})
        W.update({f's{i}': 0.0 for i in range(N + 1)})
        W.update({f'h{i}': 0.8 + 0.9 * i for i in range(N)})

        def domain(d, V):
            cs = [d.lt(0, V['alpha']), d.lt(0, V['beta'])]
            cs += [d.eq(V[f's{i}'], 0) for i in range(N + 1)]
            cs += [d.lt(0, V[f'h{i}']) for i in range(N)]
            cs += [d.not_(d.eq(V[f'h{i}'], V[f'h{j}'])) for i in range(N) for j in range(i)]
            # the stand-in carries the heights of a tree: the root is the last node and the oldest
            cs += [d.lt(V[f'h{i}'], V[f'h{N - 1}']) for i in range(N - 1)]
            return cs

        rp = lambda vals: integrated_time_replay(N, rescale, vals)  # noqa
        extra = {'N': N, 'rescale': rescale}
    elif kind == 'ss-batched':
        return ss_batched_task(task, tr)
    elif kind == 'coalint':
        _, n, perm = task
        body, fns = coal_integrated_body(n)
        label = f'ConstantCoalescentIntegrated n={n} sampling-order={perm}'
        W = C08.initial_witness(n, perm, 0, 0)
        W.update({'alpha': 1.3, 'beta': 0.7})
        domain = lambda d, V: C08.coalescent_domain(d, V, n, C08.order_constraint(d, V, perm) + [d.lt(0, V['alpha']), d.lt(0, V['beta'])])  # noqa
        rp = lambda vals: coal_integrated_replay(n, vals)  # noqa
        extra = {'n': n}
    else:
        _, model, n, G, perm = task
        body, fns = suffstat_body(model, n, G)
        label = f'sufficient statistics {model} n={n} G={G} sampling-order={perm}'
        W = C08.initial_witness(n, perm, G if model == 'skygrid' else 0, (n - 1) if model == 'skyride' else G + 1)

        def domain(d, V):
            ex = C08.order_constraint(d, V, perm)
            for g in range(G if model == 'skygrid' else 0):
                ex.append(d.lt(0, V[f'g{g}']))
                if g:
                    ex.append(d.le(V[f'g{g-1}'], V[f'g{g}']))
            return C08.coalescent_domain(d, V, n, ex)

        rp = lambda vals: suffstat_replay(model, n, G, vals)  # noqa
        extra = {'model': model, 'n': n, 'G': G}
    tr.fn(*fns)
    ex = Explorer(W, domain, body, tr, max_regions=300, timeout=40.0, label=label, deadline=time.time() + 900,
                  check_defined=(kind != 'intended'))  # the 'intended' bodies return their own well-definedness goals
    out = ex.run()
    for s in out.region_samples[:1]:
        s['case'] = label
        tr.sample(s)
    triage(out, rp, tr, label, extra)


def intended_tasks(tier):
    """GMRF / GMRFGammaIntegrated against the intended (weighted / time-aware) structure matrix, single and batched"""
    thorough = tier == 'thorough'
    ts = []
    for N in ((2, 3, 4, 5) if thorough else (2, 3, 4)):
        for si in range(len(_tree_shapes(N))):
            for rescale in (True, False):
                for variant in ('single', 'batch'):
                    ts.append(('intended', 'gmrf', N, 'time-aware', rescale, variant, si, False))
                    if thorough and N <= 4:
                        ts.append(('intended', 'gmrf', N, 'time-aware', rescale, variant, si, True))
    for rescale in (True, False):
        ts.append(('intended', 'gmrf', 3, 'time-aware', rescale, 'batch', 1, True))  # heterochronous tips
        ts.append(('intended', 'gmrf', 3, 'time-aware', rescale, 'shared-tree', 1, False))
        ts.append(('intended', 'gmrf', 3, 'time-aware', rescale, 'shared-precision', 1, False))
        if thorough:
            for N in (3, 4):
                for si in range(len(_tree_shapes(N))):
                    ts.append(('intended', 'gmrf', N, 'time-aware', rescale, 'batch3', si, False))
                    ts.append(('intended', 'gmrf', N, 'time-aware', rescale, 'shared-tree', si, True))
                    ts.append(('intended', 'gmrf', N, 'time-aware', rescale, 'shared-precision', si, True))
    for N in ((2, 3, 4, 5) if thorough else (3, 4)):
        for variant in ('single', 'batch', 'shared-tree') + (('batch3', 'shared-precision') if thorough else ()):
            ts.append(('intended', 'gmrf', N, 'weighted', True, variant, 0, False))
    # the integrated prior repeats the weighting code of GMRF._call
    for N in ((2, 3, 4) if thorough else (3,)):
        for si in range(len(_tree_shapes(N))):
            for rescale in (True, False):
                for variant in ('single', 'batch') + (('batch3', 'shared-tree') if thorough else ()):
                    ts.append(('intended', 'integrated', N, 'time-aware', rescale, variant, si, thorough and si % 2 == 1))
        for variant in ('single', 'batch', 'shared-tree'):
            ts.append(('intended', 'integrated', N, 'weighted', True, variant, 0, False))
    return ts


def tasks_for(tier):
    ts = []
    Ns = (2, 3, 4) if tier == 'quick' else (2, 3, 4, 5)
    for N in Ns:
        ts.append(('gmrf', N, 'plain', True, False))
        ts.append(('gmrf', N, 'plain', True, True))
        ts.append(('integrated', N))
    for N in ((3,) if tier == 'quick' else (3, 4)):
        ts.append(('gmrf', N, 'weighted', True, False))
        if N == 3:
            ts.append(('gmrf', N, 'time-aware', True, False))
            ts.append(('gmrf', N, 'time-aware', False, False))
    ts += [('integrated-time', 3, True), ('integrated-time', 3, False), ('ss-batched', 4)]
    ts += intended_tasks(tier)
    n = 3
    for perm in itertools.permutations(range(n)):
        ts.append(('coalint', n, perm))
        ts.append(('ss', 'skyride', n, 0, perm))
        ts.append(('ss', 'skygrid', n, 1, perm))
    if tier == 'thorough':
        for perm in itertools.permutations(range(4)):
            ts.append(('ss', 'skyride', 4, 0, perm))
            ts.append(('ss', 'skygrid', 4, 1, perm))
            ts.append(('coalint', 4, perm))
        for perm in itertools.permutations(range(3)):
            ts.append(('ss', 'skygrid', 3, 2, perm))
    return ts


def body(chk):
    chk.explanation = ('symbolic execution of GMRF / precision_matrix / integrated priors / sufficient statistics; the three '
                       'separately written code paths are compared as expressions by the solver for all field vectors, '
                       'precisions, hyper-parameters, heights and population sizes; event orderings are path regions')
    chk.total.assumptions |= {'Gamma-integral lemma (trusted): int_0^inf t^(a-1) e^(-b t) dt = Gamma(a)/b^a; lgamma/log uninterpreted',
                              'numerical quadrature (mpmath) is used only in replays'}
    chk.total.bounds['sizes'] = ('field length 2..4 (5 thorough), n=3 taxa (4 thorough), grid <= 1 (2 thorough), shapes [] and [2] '
                                 '([3] thorough, intended-structure-matrix obligations only)')
    pmap(run_task, tasks_for(chk.tier), chk.total)


if __name__ == '__main__':
    if '--replay' in sys.argv:
        import json

        r = json.load(open(sys.argv[sys.argv.index('--replay') + 1]))
        print('replay:', r['what'])
        sys.exit(1)
    sys.exit(main_for(PID, body))
